package main

// The enumerated spaces. Every unit enumerates its inputs in a fixed order, so
// (unit index, input index) names an input: the journal stores exactly that.

import (
	"bytes"
	"fmt"
	"math/big"
	"os"
	"strings"

	t "github.com/google/wuffs/lang/token"
)

// input is one source text handed to the pipeline. When ctx is non-nil the
// evaluation is two-phase: text alone through tokenize/parse/render, and, if it
// parses, text+"\n"+ctx through the whole pipeline.
type input struct {
	text    []byte
	ctx     []byte
	noCheck bool // sampled out of the (expensive) check stage: tokenize/parse/render only
	desc    func() string
}

type unit struct {
	kind  string // seedpkg | decl | tok | bytes | nest | filemut
	label string
	cost  float64 // scheduling estimate (arbitrary units)
	heavy bool    // deep-recursion probe (n >= 10^5): limited parallelism
	slow  bool    // n >= 10^4 probe: 900 s of CPU allowed per evaluation instead of 60 s

	pkg    int // seedpkg, filemut
	file   int // filemut
	du     int // decl: index into env.decls
	lo, hi int // decl: token positions

	ctx    int   // tok, bytes: context index
	prefix []int // tok, bytes: fixed leading symbols
	maxLen int

	pattern int // nest
	depth   int

	sample int // tok: longest strings go to check when (sum of token indices) % sample == 0; decl: every sample-th mutant
}

type env struct {
	tier     string
	pkgs     []seedPkg
	useRes   useResolver
	decls    []*declUnit
	stride   int
	posCap   int // at most this many mutated token positions per declaration
	thorough bool
	progs    []cand
}

// ---------------------------------------------------------------- (a) token strings

type tokCtx struct {
	name     string
	pre, suf string
	alphabet []string
}

var coreTokens = strings.Fields(`( ) [ ] { } , : . = .. ..= ? ! + - as not == and x args this base u8 1 "#e" true`)

func alpha(extra string) []string {
	a := append([]string{}, coreTokens...)
	for _, s := range strings.Fields(extra) {
		if s == "NL" {
			s = "\n"
		}
		a = append(a, s)
	}
	if len(a) != 40 {
		panic(fmt.Sprintf("alphabet has %d tokens", len(a)))
	}
	return a
}

const funcHead = "pub struct foo?(\n    f : base.u32,\n    g : array[4] base.u8,\n)\n"

var tokCtxs = []tokCtx{
	{"top", "", "\n", alpha(`pub pri func struct const status use implements choosy foo NL array`)},
	{"fields", "pub struct foo?(\n", "\n)\n", alpha(`array slice ptr nptr roarray table u32 bool foo NL * <`)},
	{"params", "pub struct foo?()\npub func foo.bar!(", ") {\n}\n", alpha(`array slice ptr nptr roarray table u32 bool foo io_reader * <`)},
	{"result", "pub struct foo?()\npub func foo.bar!(a: base.u32) ", " {\n}\n", alpha(`array slice ptr u32 bool pre post inv choosy choose < NL`)},
	{"statement", funcHead + "pub func foo.bar?(a: base.u32, s: slice base.u8) {\n    var x : base.u32\n    ", "\n}\n",
		alpha(`if else while iterate var return yield break assert choose NL *`)},
	{"expression", funcHead + "pub func foo.bar!(a: base.u32, s: slice base.u8) {\n    var x : base.u32\n    x = ", "\n}\n",
		alpha(`* < <= ~mod+ << & or f g s a length`)},
	{"statement-at-eof", funcHead + "pub func foo.bar?(a: base.u32, s: slice base.u8) {\n    var x : base.u32\n    ", "",
		alpha(`if else while iterate var return yield break assert choose NL *`)},
	{"type", funcHead + "pub func foo.bar!(a: base.u32) {\n    var v : ", "\n}\n",
		alpha(`array slice ptr nptr roarray table u32 bool foo io_reader * <`)},
}

func (u *unit) enumTok(yield func(in *input) bool) {
	c := tokCtxs[u.ctx]
	A := c.alphabet
	buf := make([]byte, 0, 256)
	var cur []int
	emit := func() bool {
		buf = append(buf[:0], c.pre...)
		for i, s := range cur {
			if i > 0 {
				buf = append(buf, ' ')
			}
			buf = append(buf, A[s]...)
		}
		buf = append(buf, c.suf...)
		snapshot := cur
		sum := 0
		for _, s := range cur {
			sum += s
		}
		skip := len(cur) == u.maxLen && len(cur) >= 4 && sum%u.sample != 0
		return yield(&input{text: buf, noCheck: skip, desc: func() string {
			var w []string
			for _, s := range snapshot {
				w = append(w, A[s])
			}
			return fmt.Sprintf("context %s, token string %q", c.name, strings.Join(w, " "))
		}})
	}
	var rec func() bool
	rec = func() bool {
		if len(cur) >= len(u.prefix) {
			if !emit() {
				return false
			}
		}
		if len(cur) == u.maxLen {
			return true
		}
		if len(cur) < len(u.prefix) {
			cur = append(cur, u.prefix[len(cur)])
			ok := rec()
			cur = cur[:len(cur)-1]
			return ok
		}
		for s := range A {
			cur = append(cur, s)
			ok := rec()
			cur = cur[:len(cur)-1]
			if !ok {
				return false
			}
		}
		return true
	}
	rec()
}

// ---------------------------------------------------------------- (c) byte strings

var byteCtxs = []struct{ name, pre, suf string }{
	{"raw", "", ""},
	{"statement", funcHead + "pub func foo.bar!(a: base.u32) {\n    var x : base.u32\n    ", "\n}\n"},
	{"expression", funcHead + "pub func foo.bar!(a: base.u32) {\n    var x : base.u32\n    x = ", "\n}\n"},
}

var byteAlphabet12 = []byte{'"', '\'', '\\', '/', '\n', '0', 'x', '_', '.', '~', 'l', 'e'}

// enumBytes: u.pattern 0 = all 256 byte values, 1 = the 12-byte alphabet.
func (u *unit) enumBytes(yield func(in *input) bool) {
	c := byteCtxs[u.ctx]
	var A []byte
	if u.pattern == 0 {
		A = make([]byte, 256)
		for i := range A {
			A[i] = byte(i)
		}
	} else {
		A = byteAlphabet12
	}
	buf := make([]byte, 0, 256)
	var cur []byte
	var rec func() bool
	rec = func() bool {
		if len(cur) >= len(u.prefix) {
			buf = append(buf[:0], c.pre...)
			buf = append(buf, cur...)
			buf = append(buf, c.suf...)
			snap := cur
			sum := 0
			for _, b := range cur {
				sum += int(b)
			}
			skip := u.sample > 1 && len(cur) == u.maxLen && sum%u.sample != 0
			if !yield(&input{text: buf, noCheck: skip, desc: func() string { return fmt.Sprintf("context %s, bytes %q", c.name, string(snap)) }}) {
				return false
			}
		}
		if len(cur) == u.maxLen {
			return true
		}
		if len(cur) < len(u.prefix) {
			cur = append(cur, A[u.prefix[len(cur)]])
			ok := rec()
			cur = cur[:len(cur)-1]
			return ok
		}
		for _, b := range A {
			cur = append(cur, b)
			ok := rec()
			cur = cur[:len(cur)-1]
			if !ok {
				return false
			}
		}
		return true
	}
	rec()
}

// ---------------------------------------------------------------- nesting / size probes

type nestPattern struct {
	name string
	gen  func(n int) []byte
}

func rep(s string, n int) string { return strings.Repeat(s, n) }

func inFunc(decls, body string) []byte {
	return []byte("pub struct foo?(\n    f : base.u32,\n    a : array[4] base.u8,\n)\n" + decls +
		"pub func foo.bar!(q: base.u32) {\n    var x : base.u32\n    var b : base.bool\n" + body + "\n}\n")
}

var nestPatterns = []nestPattern{
	{"paren-expr", func(n int) []byte { return inFunc("", "    x = "+rep("(", n)+"1"+rep(")", n)) }},
	{"not-expr", func(n int) []byte { return inFunc("", "    b = "+rep("not ", n)+"true") }},
	{"neg-expr", func(n int) []byte { return inFunc("", "    x = "+rep("- ", n)+"1") }},
	{"binary-right-nested", func(n int) []byte { return inFunc("", "    x = "+rep("(1 ~mod+ ", n)+"1"+rep(")", n)) }},
	{"index-nested", func(n int) []byte {
		return inFunc("", "    x = "+rep("(this.a[", n)+"0"+rep("] as base.u32)", n))
	}},
	{"call-nested", func(n int) []byte {
		return inFunc("pub func foo.id(v: base.u32) base.u32 {\n    return args.v\n}\n", "    x = "+rep("this.id(v: ", n)+"1"+rep(")", n))
	}},
	{"selector-chain", func(n int) []byte { return inFunc("", "    x = this"+rep(".f", n)) }},
	{"list-const", func(n int) []byte {
		return []byte("pri const C : " + rep("roarray[1] ", n) + "base.u8 = " + rep("[", n) + "1" + rep("]", n) + "\n")
	}},
	{"array-type", func(n int) []byte { return inFunc("", "    var v : "+rep("array[1] ", n)+"base.u8") }},
	{"ptr-type", func(n int) []byte {
		return []byte("pub struct foo?()\npub func foo.bar!(p: " + rep("nptr ", n) + "foo) {\n}\n")
	}},
	{"array-length-nested", func(n int) []byte {
		// array[(array ...)] is not an expression; nest the length expression instead
		return []byte("pub struct foo?(\n    a : array[" + rep("(1 + ", n) + "1" + rep(")", n) + "] base.u8,\n)\n")
	}},
	{"if-nested", func(n int) []byte { return inFunc("", rep("if b {\n", n)+"x = 1\n"+rep("}\n", n)) }},
	{"while-nested", func(n int) []byte { return inFunc("", rep("while b {\n", n)+"x = 1\n"+rep("}\n", n)) }},
	{"else-if-chain", func(n int) []byte { return inFunc("", "if b {\n}"+rep(" else if b {\n}", n)) }},
	{"io-limit-nested", func(n int) []byte {
		return []byte("pub struct foo?()\npub func foo.bar?(src: base.io_reader) {\n" + rep("io_limit (io: args.src, limit: 1) {\n", n) + rep("}\n", n) + "}\n")
	}},
	{"open-paren-only", func(n int) []byte { return inFunc("", "    x = "+rep("(", n)) }},
	{"open-curly-only", func(n int) []byte { return inFunc("", rep("{", n)) }},
	{"open-bracket-only", func(n int) []byte { return []byte("pri const C : base.u8 = " + rep("[", n) + "\n") }},
	{"array-type-open", func(n int) []byte { return inFunc("", "    var v : "+rep("array[", n)) }},
	{"flat-statements", func(n int) []byte { return inFunc("", rep("    x = 1\n", n)) }},
	{"flat-fields", func(n int) []byte {
		var b strings.Builder
		b.WriteString("pub struct foo?(\n")
		for i := 0; i < n; i++ {
			fmt.Fprintf(&b, "    f%d : base.u8,\n", i)
		}
		b.WriteString(")\n")
		return []byte(b.String())
	}},
	{"flat-associative", func(n int) []byte { return inFunc("", "    x = 1"+rep(" ~mod+ 1", n)) }},
	{"flat-list-const", func(n int) []byte {
		return []byte(fmt.Sprintf("pri const C : roarray[%d] base.u8 = [", n+1) + rep("1, ", n) + "1]\n")
	}},
	{"long-line-comment", func(n int) []byte { return []byte("//" + rep("x", n) + "\npub struct foo?()\n") }},
	{"blank-lines", func(n int) []byte { return []byte(rep("\n", n) + "pub struct foo?()\n") }},
	{"comment-lines", func(n int) []byte { return []byte(rep("// c\n", n) + "pub struct foo?()\n") }},
	{"long-identifier", func(n int) []byte { return []byte("pub struct " + rep("f", n) + "?()\n") }},
	{"long-number", func(n int) []byte { return []byte("pri const C : base.u8 = " + rep("1", n) + "\n") }},
	{"long-string", func(n int) []byte { return []byte("pub status \"#" + rep("e", n) + "\"\n") }},
	{"distinct-identifiers", func(n int) []byte {
		var b strings.Builder
		b.WriteString("pub struct foo?(\n")
		for i := 0; i < n; i++ {
			fmt.Fprintf(&b, "i%d\n", i)
		}
		return []byte(b.String())
	}},
	{"const-fold-product", func(n int) []byte {
		return []byte("pri const C : base.u8 = (" + rep("(1 << 65535) * ", n) + "1) >> 65535\n")
	}},
	{"const-fold-shift", func(n int) []byte {
		return []byte("pri const C : base.u8 = " + rep("(", n) + "1" + rep(" << 65535)", n) + "\n")
	}},
}

func (u *unit) enumNest(yield func(in *input) bool) {
	p := nestPatterns[u.pattern]
	n := u.depth
	yield(&input{text: p.gen(n), desc: func() string { return fmt.Sprintf("nesting/size probe %s, n=%d", p.name, n) }})
}

// ---------------------------------------------------------------- (b) mutations

var mutAlphabet = func() []string {
	a := append([]string{}, coreTokens...)
	for _, s := range strings.Fields(`if else while iterate var return yield break assert choose NL * < pub func struct const
 array slice ptr via ; {{ }} io_bind length pre ~mod+ =? << 'a' 0xFFFF_FFFF_FFFF_FFFF_FFFF "not-a-status" continue io_limit inv post`) {
		if s == "NL" {
			s = "\n"
		}
		a = append(a, s)
	}
	return a
}()

// respell lists other spellings of the numeric literal lit (same value: decimal, hex, binary,
// with underscores, upper-case prefix) and a few neighbouring values.
func respell(lit string) []string {
	v, ok := new(big.Int).SetString(strings.ReplaceAll(lit, "_", ""), 0)
	if !ok || v.BitLen() > 64 {
		return nil
	}
	seen := map[string]bool{lit: true}
	var out []string
	add := func(s string) {
		if !seen[s] {
			seen[s] = true
			out = append(out, s)
		}
	}
	add(v.Text(10))
	add("0x" + strings.ToUpper(v.Text(16)))
	add("0X" + v.Text(16))
	add("0b" + v.Text(2))
	if d := v.Text(10); len(d) > 1 {
		add(d[:1] + "_" + d[1:])
	}
	add("0x0_" + v.Text(16))
	for _, w := range []*big.Int{big.NewInt(0), new(big.Int).Sub(v, big.NewInt(1)), new(big.Int).Add(v, big.NewInt(1)), new(big.Int).Lsh(v, 1)} {
		if w.Sign() >= 0 {
			add(w.Text(10))
		}
	}
	return out
}

// splice returns text with [a,b) replaced by mid (into buf).
func splice(buf *[]byte, text []byte, a, b int, mid ...[]byte) []byte {
	o := append((*buf)[:0], text[:a]...)
	for _, m := range mid {
		o = append(o, m...)
	}
	o = append(o, text[b:]...)
	*buf = o
	return o
}

var sp1 = []byte(" ")
var nl1 = []byte("\n")

// matchClose returns for every open bracket token its matching close (or -1).
func matchClose(sp []span) []int {
	m := make([]int, len(sp))
	for i := range m {
		m[i] = -1
	}
	var st []int
	for i, s := range sp {
		switch depthDelta(s.id) {
		case 1:
			st = append(st, i)
		case -1:
			if len(st) > 0 {
				m[st[len(st)-1]] = i
				st = st[:len(st)-1]
			}
		}
	}
	return m
}

func (u *unit) enumDecl(e *env, yield func(in *input) bool) {
	du := e.decls[u.du]
	text := du.target.text
	sp := du.target.spans
	n := len(sp)
	A := mutAlphabet
	S := e.stride
	var buf []byte
	ctx := du.context
	uname := du.pkg + "/" + du.name()
	emitted := 0
	emit := func(b []byte, kind string, i int, arg string) bool {
		emitted++
		return yield(&input{text: b, ctx: ctx, noCheck: kind != "none" && emitted%u.sample != 0, desc: func() string {
			return fmt.Sprintf("seed %s, mutation %s at token %d %s", uname, kind, i, arg)
		}})
	}
	tokText := func(i int) []byte { return text[sp[i].off:sp[i].end] }

	if u.lo == 0 {
		if !emit(text, "none", 0, "") {
			return
		}
	}
	match := matchClose(sp)
	lineStart := func(off int) int {
		for off > 0 && text[off-1] != '\n' {
			off--
		}
		return off
	}
	lineEnd := func(off int) int { // index just after the newline
		for off < len(text) && text[off] != '\n' {
			off++
		}
		if off < len(text) {
			off++
		}
		return off
	}
	step := 1
	if n > e.posCap {
		step = (n + e.posCap - 1) / e.posCap
	}
	phase := (u.du * 7) % step
	for i := u.lo; i < u.hi && i < n; i++ {
		if i%step != phase {
			continue
		}
		s := sp[i]
		// prefixes: the declaration cut off after this token (no trailing newline)
		if !emit(text[:s.end], "truncate-after", i, "") {
			return
		}
		// token level
		if !emit(splice(&buf, text, s.off, s.end, sp1), "delete", i, "") {
			return
		}
		if !emit(splice(&buf, text, s.end, s.end, sp1, tokText(i)), "duplicate", i, "") {
			return
		}
		if i+1 < n {
			nx := sp[i+1]
			if !emit(splice(&buf, text, s.off, nx.end, tokText(i+1), text[s.end:nx.off], tokText(i)), "swap-with-next", i, "") {
				return
			}
		}
		if !emit(splice(&buf, text, s.off, s.off, nl1), "newline-before", i, "") {
			return
		}
		// a numeric literal in every other spelling of the same value (every stage that reads
		// the digits itself must cope with all spellings the tokenizer accepts), and the
		// neighbouring values 0, v-1, v+1, 2v that sit on the edges of small-integer checks
		if tt := tokText(i); len(tt) > 0 && tt[0] >= '0' && tt[0] <= '9' {
			for _, alt := range respell(string(tt)) {
				if !emit(splice(&buf, text, s.off, s.end, []byte(alt)), "respell", i, fmt.Sprintf("as %q", alt)) {
					return
				}
			}
		}
		for j, a := range A {
			if (i+j)%S == 0 && string(tokText(i)) != a {
				if !emit(splice(&buf, text, s.off, s.end, sp1, []byte(a), sp1), "replace", i, fmt.Sprintf("by %q", a)) {
					return
				}
			}
			if (i+j+S/2+1)%S == 0 {
				if !emit(splice(&buf, text, s.off, s.off, sp1, []byte(a), sp1), "insert-before", i, fmt.Sprintf("%q", a)) {
					return
				}
			}
		}
		if i == n-1 {
			for j, a := range A {
				if (i+j+1)%S == 0 {
					if !emit(splice(&buf, text, s.end, s.end, sp1, []byte(a), sp1), "insert-after", i, fmt.Sprintf("%q", a)) {
						return
					}
				}
			}
		}
		// line level: for the first token of each line
		ls := lineStart(s.off)
		if i == 0 || sp[i-1].off < ls {
			le := lineEnd(s.off)
			if !emit(splice(&buf, text, ls, le), "delete-line", i, "") {
				return
			}
			if !emit(splice(&buf, text, le, le, text[ls:le]), "duplicate-line", i, "") {
				return
			}
			if le < len(text) {
				le2 := lineEnd(le)
				if !emit(splice(&buf, text, ls, le2, text[le:le2], text[ls:le]), "swap-lines", i, "") {
					return
				}
				if le > ls {
					if !emit(splice(&buf, text, le-1, le, sp1), "join-with-next-line", i, "") {
						return
					}
				}
			}
		}
		// tree level: bracket groups opened here
		if j := match[i]; j > i {
			gs, ge := s.off, sp[j].end
			if !emit(splice(&buf, text, gs, ge, sp1), "delete-group", i, "") {
				return
			}
			if !emit(splice(&buf, text, gs, ge, text[s.end:sp[j].off]), "unwrap-group", i, "") {
				return
			}
			if !emit(splice(&buf, text, ge, ge, sp1, text[gs:ge]), "duplicate-group", i, "") {
				return
			}
			// replace the group by each of its direct child groups
			for k := i + 1; k < j; k++ {
				if m := match[k]; m > k {
					if !emit(splice(&buf, text, gs, ge, text[sp[k].off:sp[m].end]), "replace-group-by-child", i, fmt.Sprintf("child at %d", k)) {
						return
					}
					k = m
				}
			}
			if s.id == t.IDOpenCurly {
				// the statement that owns this block: from its line start to the close
				ss := lineStart(s.off)
				se := lineEnd(sp[j].off)
				if !emit(splice(&buf, text, ss, se), "delete-block-statement", i, "") {
					return
				}
				if !emit(splice(&buf, text, se, se, text[ss:se]), "duplicate-block-statement", i, "") {
					return
				}
				// hoist the block's contents in place of the statement
				if !emit(splice(&buf, text, ss, se, text[s.end:sp[j].off], nl1), "replace-statement-by-body", i, "") {
					return
				}
			}
		}
		// expression level: replace a binary operator's neighbourhood "a op b" by "a" / "b"
		if s.id.IsBinaryOp() && i > 0 && i+1 < n {
			if !emit(splice(&buf, text, s.off, sp[i+1].end, sp1), "drop-operator-and-right-operand", i, "") {
				return
			}
			if !emit(splice(&buf, text, sp[i-1].off, s.end, sp1), "drop-left-operand-and-operator", i, "") {
				return
			}
		}
		if e.thorough {
			// pairs within a 6-token window: delete two tokens; move a token
			for k := 1; k <= 5 && i+k < n; k++ {
				o := sp[i+k]
				if !emit(splice(&buf, text, s.off, o.end, sp1, text[s.end:o.off], sp1), "delete-pair", i, fmt.Sprintf("and %d", i+k)) {
					return
				}
				if !emit(splice(&buf, text, s.off, o.end, sp1, text[s.end:o.end], sp1, tokText(i), sp1), "move-token-right", i, fmt.Sprintf("past %d", i+k)) {
					return
				}
			}
		}
	}
}

// enumFileMut: whole-file line-level mutations (thorough only); tokenize, parse
// and render, no check.
func (u *unit) enumFileMut(e *env, yield func(in *input) bool) {
	f := e.pkgs[u.pkg].Files[u.file]
	text := f.Src
	var starts []int
	starts = append(starts, 0)
	for i, c := range text {
		if c == '\n' && i+1 < len(text) {
			starts = append(starts, i+1)
		}
	}
	starts = append(starts, len(text))
	var buf []byte
	for k := u.lo; k < u.hi && k+1 < len(starts); k++ {
		ls, le := starts[k], starts[k+1]
		if len(bytes.TrimSpace(text[ls:le])) == 0 {
			continue
		}
		k := k
		d := func(kind string) func() string {
			return func() string { return fmt.Sprintf("seed file %s, %s line %d", f.Name, kind, k+1) }
		}
		if !yield(&input{text: splice(&buf, text, ls, le), desc: d("delete")}) {
			return
		}
		if !yield(&input{text: splice(&buf, text, le, le, text[ls:le]), desc: d("duplicate")}) {
			return
		}
		if k+2 < len(starts) {
			le2 := starts[k+2]
			if !yield(&input{text: splice(&buf, text, ls, le2, text[le:le2], text[ls:le]), desc: d("swap-with-next")}) {
				return
			}
			if !yield(&input{text: splice(&buf, text, le-1, le, sp1), desc: d("join-with-next")}) {
				return
			}
		}
	}
}

// ---------------------------------------------------------------- unit list

func buildEnv(tier string) *env {
	e := &env{tier: tier, thorough: tier == "thorough"}
	e.pkgs = loadSeeds()
	e.useRes = buildUseResolver(e.pkgs)
	e.decls, _, _, _ = buildDeclUnits(e.pkgs, e.useRes, false)
	e.stride, e.posCap = 12, 600
	if e.thorough {
		e.stride, e.posCap = 4, 3000
	}
	if v := os.Getenv("C11_STRIDE"); v != "" {
		fmt.Sscan(v, &e.stride)
	}
	if v := os.Getenv("C11_POSCAP"); v != "" {
		fmt.Sscan(v, &e.posCap)
	}
	e.progs = buildCands(e.thorough)
	if v := os.Getenv("C11_PROG_STEP"); v != "" { // development aid: every n-th program only
		var n int
		fmt.Sscan(v, &n)
		var keep []cand
		for i, p := range e.progs {
			if i%n == 0 {
				keep = append(keep, p)
			}
		}
		e.progs = keep
	}
	return e
}

func buildUnits(e *env) []*unit {
	var us []*unit
	// whole seed packages, unmutated, full pipeline
	for i, p := range e.pkgs {
		us = append(us, &unit{kind: "seedpkg", label: "seed package " + p.Dir, pkg: i, cost: 50})
	}
	// nesting / size probes
	for pi, p := range nestPatterns {
		depths := []int{10, 100, 1000, 10000, 100000}
		switch p.name {
		case "const-fold-product":
			// n=100 takes half a second of CPU, n=10000 hours: nothing in between, so
			// that the 60 s CPU limit cannot fire on a merely slow evaluation
			depths = []int{10, 100, 10000}
		case "const-fold-shift":
			depths = []int{10, 30}
		case "not-expr", "paren-expr":
			if e.thorough {
				depths = append(depths, 2000000, 4000000)
			}
		case "distinct-identifiers":
			if e.thorough {
				depths = append(depths, 1100000)
			}
		case "blank-lines", "comment-lines":
			depths = append(depths, 1100000)
		case "if-nested", "while-nested", "io-limit-nested":
			// the formatter's indentation makes these quadratic: n=10^5 renders 8 GB
			depths = []int{10, 100, 1000, 10000, 30000}
			if e.thorough {
				depths = append(depths, 100000)
			}
		}
		for _, d := range depths {
			us = append(us, &unit{kind: "nest", label: fmt.Sprintf("probe %s n=%d", p.name, d), pattern: pi, depth: d,
				cost: 1e5 + float64(d), heavy: d >= 100000, slow: d >= 10000 && p.name != "const-fold-product"})
		}
	}
	for _, sh := range []string{"1 << 65536", "1 << 0xFFFF_FFFF", "1 << 0xFFFF_FFFF_FFFF_FFFF", "1 << 0x1_0000_0000_0000_0000", "1 >> 0xFFFF_FFFF_FFFF_FFFF",
		"(1 << 65535) * (1 << 65535)", "1 << (1 << 16)", "0 - (1 << 65535)", "1 / 0", "1 % 0", "(1 << 1000) as base.u8"} {
		nestPatterns = append(nestPatterns, nestPattern{"const-expr " + sh, func(n int) []byte {
			return []byte("pri const C : base.u8 = " + sh + "\n")
		}})
		us = append(us, &unit{kind: "nest", label: "probe const-expr " + sh, pattern: len(nestPatterns) - 1, depth: 1, cost: 1e5})
	}
	// (a) token strings
	L, tokSample, declSample := 4, 4, 6
	if e.thorough {
		L, tokSample, declSample = 5, 8, 2
	}
	for ci, c := range tokCtxs {
		us = append(us, &unit{kind: "tok", label: "token strings " + c.name + " (empty)", ctx: ci, maxLen: 0, sample: 1, cost: 1})
		for a := range c.alphabet {
			if e.thorough {
				for b := range c.alphabet {
					us = append(us, &unit{kind: "tok", label: fmt.Sprintf("token strings %s %q %q ...", c.name, c.alphabet[a], c.alphabet[b]),
						ctx: ci, prefix: []int{a, b}, maxLen: L, sample: tokSample, cost: 64000 * 0.004})
				}
				us = append(us, &unit{kind: "tok", label: fmt.Sprintf("token strings %s %q", c.name, c.alphabet[a]), ctx: ci, prefix: []int{a}, maxLen: 1, sample: 1, cost: 1})
			} else {
				us = append(us, &unit{kind: "tok", label: fmt.Sprintf("token strings %s %q ...", c.name, c.alphabet[a]),
					ctx: ci, prefix: []int{a}, maxLen: L, sample: tokSample, cost: 65000 * 0.004})
			}
		}
	}
	// (c) byte strings
	for ci, c := range byteCtxs {
		us = append(us, &unit{kind: "bytes", label: "bytes256 " + c.name + " (empty)", ctx: ci, pattern: 0, maxLen: 0, cost: 1})
		for a := 0; a < 256; a += 16 {
			// one unit per 16 leading bytes would need a range; use one unit per leading byte
			for b := a; b < a+16; b++ {
				us = append(us, &unit{kind: "bytes", label: fmt.Sprintf("bytes256 %s 0x%02x..", c.name, b), ctx: ci, pattern: 0, prefix: []int{b}, maxLen: 2, sample: 4, cost: 2})
			}
		}
		L12 := 5
		if e.thorough {
			L12 = 6
		}
		us = append(us, &unit{kind: "bytes", label: "bytes12 " + c.name + " (empty)", ctx: ci, pattern: 1, maxLen: 0, cost: 1})
		for a := range byteAlphabet12 {
			for b := range byteAlphabet12 {
				us = append(us, &unit{kind: "bytes", label: fmt.Sprintf("bytes12 %s %q..", c.name, string([]byte{byteAlphabet12[a], byteAlphabet12[b]})),
					ctx: ci, pattern: 1, prefix: []int{a, b}, maxLen: L12, sample: 4, cost: 10})
			}
			us = append(us, &unit{kind: "bytes", label: "bytes12 " + c.name + " len 1", ctx: ci, pattern: 1, prefix: []int{a}, maxLen: 1, cost: 1})
		}
	}
	// (b) declaration units, in chunks of token positions
	for di, d := range e.decls {
		n := len(d.target.spans)
		per := float64(14)
		if e.thorough {
			per = 2*float64(len(mutAlphabet)) + 20
		}
		chunk := 4000000 / (n*int(per)/10 + 1) // aim at a similar cost per chunk
		if chunk < 16 {
			chunk = 16
		}
		for lo := 0; lo < n; lo += chunk {
			hi := lo + chunk
			if hi > n {
				hi = n
			}
			us = append(us, &unit{kind: "decl", label: fmt.Sprintf("mutations of %s/%s tokens [%d,%d)", d.pkg, d.name(), lo, hi),
				du: di, lo: lo, hi: hi, sample: declSample, cost: float64(hi-lo) * per * (float64(n)*0.00004 + 0.02)})
		}
	}
	// (d) candidate programs: acceptance is decided here, gen and gcc afterwards
	for lo := 0; lo < len(e.progs); lo += progChunk {
		hi := lo + progChunk
		if hi > len(e.progs) {
			hi = len(e.progs)
		}
		us = append(us, &unit{kind: "prog", label: fmt.Sprintf("generated programs [%d,%d)", lo, hi), lo: lo, hi: hi, cost: 1e6})
	}
	if e.thorough {
		for pi, p := range e.pkgs {
			for fi, f := range p.Files {
				lines := bytes.Count(f.Src, nl1) + 1
				for lo := 0; lo < lines; lo += 200 {
					us = append(us, &unit{kind: "filemut", label: fmt.Sprintf("line mutations of %s [%d,%d)", f.Name, lo, lo+200),
						pkg: pi, file: fi, lo: lo, hi: lo + 200, cost: 800 * float64(len(f.Src)) * 0.00002})
				}
			}
		}
	}
	return filterUnits(us)
}

// filterUnits (development aid): C11_KINDS=prog,nest keeps only those spaces.
func filterUnits(us []*unit) []*unit {
	k := os.Getenv("C11_KINDS")
	if k == "" {
		return us
	}
	var out []*unit
	for _, u := range us {
		if strings.Contains(","+k+",", ","+u.kind+",") {
			out = append(out, u)
		}
	}
	return out
}

func (u *unit) enumerate(e *env, yield func(in *input) bool) {
	switch u.kind {
	case "tok":
		u.enumTok(yield)
	case "bytes":
		u.enumBytes(yield)
	case "nest":
		u.enumNest(yield)
	case "decl":
		u.enumDecl(e, yield)
	case "filemut":
		u.enumFileMut(e, yield)
	case "prog":
		u.enumProg(e, yield)
	}
}
