package main

// ./run.sh replay <file>: re-executes one recorded witness linearly. Source
// witnesses run in a child process (they may kill it); program witnesses go
// through wuffs-c gen and gcc once.

import (
	"encoding/json"
	"fmt"
	"os"
	"os/exec"
	"path/filepath"
	"strings"
	"time"

	"verif/internal/ev"
	"verif/internal/wgen"
)

type replayDoc struct {
	Signature string `json:"signature"`
	What      string `json:"what"`
	Witness   struct {
		Kind        string `json:"kind"`
		Input       string `json:"input"`
		Stage       string `json:"stage"`
		Source      string `json:"source"`
		PackageName string `json:"package_name"`
		Program     string `json:"program"`
		Regenerate  *struct {
			UnitKind string `json:"unit_kind"`
			Pattern  string `json:"pattern"`
			Depth    int    `json:"depth"`
			Package  string `json:"package"`
		} `json:"regenerate"`
	} `json:"witness"`
}

func loadReplay(path string) *replayDoc {
	b, err := os.ReadFile(path)
	if err != nil {
		ev.Fatal("%v", err)
	}
	var d replayDoc
	if err := json.Unmarshal(b, &d); err != nil {
		ev.Fatal("%s: %v", path, err)
	}
	return &d
}

func (d *replayDoc) files(e *env) []srcFile {
	if d.Witness.Source != "" || d.Witness.Regenerate == nil {
		return []srcFile{{Name: "in.wuffs", Src: []byte(d.Witness.Source)}}
	}
	rg := d.Witness.Regenerate
	switch rg.UnitKind {
	case "nest":
		for _, p := range nestPatterns {
			if p.name == rg.Pattern {
				return []srcFile{{Name: "in.wuffs", Src: p.gen(rg.Depth)}}
			}
		}
	case "seedpkg":
		for _, p := range e.pkgs {
			if p.Dir == rg.Package {
				return p.Files
			}
		}
	}
	ev.Fatal("cannot regenerate the witness input (%+v)", *rg)
	return nil
}

func replayChild(path string) {
	d := loadReplay(path)
	e := buildEnv("quick")
	files := d.files(e)
	n := 0
	for _, f := range files {
		n += len(f.Src)
	}
	fmt.Printf("child: running tokenize/parse/render/check on %d file(s), %d bytes\n", len(files), n)
	r := pipeline(files, e.useRes, false)
	fmt.Printf("child: outcome class %q, last stage %s, accepted=%v\n", r.Class, stageName[r.Reached], r.Accepted)
	for _, c := range r.Crashes {
		fmt.Printf("child: VIOLATION signature: %s\n       %s\n", c.Sig, c.What)
	}
	if len(r.Crashes) > 0 {
		os.Exit(1)
	}
}

func replay(path string) {
	d := loadReplay(path)
	fmt.Printf("replaying %s\n recorded signature: %s\n input: %s\n", path, d.Signature, d.Witness.Input+d.Witness.Program)
	if d.Witness.Kind == "program" {
		scratch := os.Getenv("VERIF_SCRATCH")
		if scratch == "" {
			scratch = fmt.Sprintf("/dev/shm/verif-c11-replay.%d", os.Getpid())
			os.MkdirAll(scratch, 0o755)
			defer os.RemoveAll(scratch)
		}
		binDir, err := wgen.BuildTools(scratch)
		if err != nil {
			ev.Fatal("%v", err)
		}
		dir := filepath.Join(scratch, "replay")
		os.MkdirAll(dir, 0o755)
		wc := filepath.Join(binDir, "wuffs-c")
		base, serr, err, _ := runCmd(2*time.Minute, dir, nil, wc, "gen", "-package_name", "base")
		if err != nil {
			ev.Fatal("gen base: %v %s", err, serr)
		}
		os.WriteFile(filepath.Join(dir, "wuffs-base.c"), base, 0o644)
		name := d.Witness.PackageName
		if name == "base" {
			os.WriteFile(filepath.Join(dir, "baseonly.c"), []byte("#define WUFFS_IMPLEMENTATION\n#include \"./wuffs-base.c\"\n"), 0o644)
			_, serr, err, _ := runCmd(10*time.Minute, dir, []string{"LC_ALL=C"}, "gcc", append(append([]string{}, gccFlags...), filepath.Join(dir, "baseonly.c"))...)
			if err == nil {
				fmt.Println(" gcc accepts the generated base code: not reproduced")
				return
			}
			for _, m := range reGccDiag.FindAllStringSubmatch(string(serr), 8) {
				fmt.Printf(" gcc: %s\n  class: gcc:%s\n", m[0], gccClass(m[5]))
			}
			fmt.Println(" gcc rejects the generated base code: reproduced")
			os.Exit(1)
		}
		os.WriteFile(filepath.Join(dir, name+".wuffs"), []byte(d.Witness.Source), 0o644)
		fmt.Printf(" program:\n%s\n", d.Witness.Source)
		out, serr, err, timedOut := runCmd(3*time.Minute, dir, nil, wc, "gen", "-package_name", name, filepath.Join(dir, name+".wuffs"))
		if timedOut {
			fmt.Println(" wuffs-c gen did not finish within 180 s: reproduced")
			os.Exit(1)
		}
		if err != nil {
			fmt.Printf(" wuffs-c gen: %v\n%s\n", err, firstLines(string(serr), 16))
			if strings.Contains(string(serr), "goroutine ") {
				fmt.Println(" crash reproduced")
				os.Exit(1)
			}
			fmt.Println(" (an ordinary error: not a violation)")
			return
		}
		os.WriteFile(filepath.Join(dir, name+".c"), out, 0o644)
		ok, diag := compileBatch(dir, "replaybatch", []string{name}, nil)
		if ok {
			fmt.Println(" gcc accepts the generated C: not reproduced")
			return
		}
		for _, m := range reGccDiag.FindAllStringSubmatch(diag, -1) {
			fmt.Printf(" gcc: %s\n  class: gcc:%s\n", m[0], gccClass(m[5]))
		}
		fmt.Println(" gcc rejects the generated C: reproduced")
		os.Exit(1)
	}

	exe, _ := os.Executable()
	cmd := exec.Command(exe, "replay-child", path)
	cmd.Stdout = os.Stdout
	var tb tailBuf
	cmd.Stderr = &tb
	if err := cmd.Start(); err != nil {
		ev.Fatal("%v", err)
	}
	done := make(chan error, 1)
	go func() { done <- cmd.Wait() }()
	limit := 90 * time.Second
	if strings.HasPrefix(d.Signature, "fatal:") || (d.Witness.Regenerate != nil && d.Witness.Regenerate.Depth >= 100000) {
		limit = 10 * time.Minute
	}
	select {
	case err := <-done:
		stderr := string(tb.b)
		if err == nil {
			fmt.Println(" the pipeline returned normally: not reproduced")
			return
		}
		if strings.Contains(stderr, "goroutine ") {
			msg, where := classifyDeath(stderr, err)
			fmt.Printf(" the child process died: %s (innermost wuffs frame %s)\n%s\n reproduced\n", msg, where, firstLines(stderr, 10))
		} else {
			fmt.Printf(" child exit: %v (violation printed above): reproduced\n", err)
		}
		os.Exit(1)
	case <-time.After(limit):
		cmd.Process.Kill()
		fmt.Printf(" still running after %v: non-termination reproduced\n", limit)
		os.Exit(1)
	}
}
