package main

// Candidate programs of space (d). A candidate is a whole small package; the
// worker sub-processes decide (check.Check) which are accepted. Families:
//
//	grid     signature grid x body fragments (progs.go)
//	loops    one or two loops (while / iterate, labelled or not, in sequence or
//	         nested) with break/continue at every position (body, else-round,
//	         inside an inner while / iterate / io_limit / io_bind), by own or
//	         outer label
//	status   status declarations over an alphabet of sigils, letters, digits,
//	         punctuation and the empty string; pairs that differ only in what C
//	         name mangling folds
//	names    method, field, struct, variable and const names that the generated C
//	         also uses
//	fields   each field type in either field section of a `?` struct
//	returns  each return type for pub/pri x pure/impure methods with an empty body
//	types    each type as a local variable (unused, used, live across a yield) and
//	         as a parameter
//	arith    every binary / compound-assignment operator x u8..u64 x operand shape
//	ioargs   an io_reader / io_writer / slice argument in every role (receiver or
//	         argument of a built-in, argument of a method, io_limit / io_bind, unused)
//
// Candidates of the grid, loops, arith and ioargs families that share a header (helpers +
// struct) are packed, 16 methods to a package, for wuffs-c gen and gcc; a pack
// with an error that cannot be pinned on one method is re-run program by program.

import (
	"fmt"
	"strings"
)

type cand struct {
	family  string
	shape   string // goes into gcc / gen signatures
	feature string // histogram key
	desc    string
	header  string // top-level declarations before the method
	method  string // the method under test, its name spelled MNAME ("" if none)
	pack    bool
}

func (c cand) text() string { return c.header + strings.ReplaceAll(c.method, "MNAME", "m") }

func (s progSpec) cand() cand {
	return cand{family: "grid", shape: s.structShape(), feature: s.shape(), desc: s.describe(),
		header: pHelpers + pStructs[s.sv].decl + "\n", method: s.methodText(),
		// not packed: the non-classy variants (their helper methods fail too) and the
		// return types for which wuffs-c gen may refuse the whole package
		pack: s.structShape() == "classy-struct" && pRets[s.ret].typ != "base.bool" && pRets[s.ret].typ != "base.empty_struct"}
}

// ---------------------------------------------------------------- loops

type loopSpec struct{ kw, label string }

type jumpSpec struct {
	pos    int    // 0: loop body, 1: else-round (iterate only)
	wrap   string // direct | while | iterate | io_limit | io_bind
	kw     string // break | continue
	target string // "" or a label
}

func (j *jumpSpec) String() string {
	if j == nil {
		return "-"
	}
	t := j.kw
	if j.target != "" {
		t += "." + j.target
	}
	return fmt.Sprintf("%s@%s/%s", t, []string{"body", "else-round"}[j.pos], j.wrap)
}

func (j *jumpSpec) render() string {
	if j == nil {
		return ""
	}
	t := j.kw
	if j.target != "" {
		t += "." + j.target
	}
	guarded := "if v == 3 {\n" + t + "\n}\n"
	switch j.wrap {
	case "while":
		return "while v < 5 {\nv ~mod+= 1\n" + guarded + "}\n"
	case "iterate":
		return "iterate (q = args.s)(length: 1, advance: 1, unroll: 1) {\nv ~mod+= q[0] as base.u32\n" + guarded + "}\n"
	case "io_limit":
		return "io_limit (io: args.r, limit: 4) {\n" + guarded + "}\n"
	case "io_bind":
		return "io_bind (io: w, data: args.s, history_position: 0) {\n" + guarded + "}\n"
	}
	return guarded
}

// renderLoop: inner is placed in the body after the jump (a nested loop or "").
func renderLoop(l loopSpec, j *jumpSpec, inner string) string {
	dot := ""
	if l.label != "" {
		dot = "." + l.label
	}
	body, els := "", ""
	if j != nil && j.pos == 0 {
		body = j.render()
	} else if j != nil {
		els = j.render()
	}
	if l.kw == "while" {
		return "while" + dot + " v < 9 {\nv ~mod+= 1\n" + body + inner + "}" + dot + "\n"
	}
	return "iterate" + dot + " (p = args.s)(length: 2, advance: 2, unroll: 2) {\nv ~mod+= p[1] as base.u32\n" + body + inner +
		"} else (length: 1, advance: 1, unroll: 1) {\nv ~mod+= p[0] as base.u32\n" + els + "}\n"
}

func loopCand(desc, body string) cand {
	var b strings.Builder
	b.WriteString("pub func foo.MNAME!(s: slice base.u8, r: base.io_reader) {\n    var v : base.u32\n    var p : slice base.u8\n    var q : slice base.u8\n    var w : base.io_writer\n")
	for _, ln := range strings.Split(strings.TrimSuffix(body, "\n"), "\n") {
		b.WriteString("    " + ln + "\n")
	}
	b.WriteString("}\n")
	return cand{family: "loops", shape: "loop-labels-and-jumps", feature: "loops", desc: "loops: " + desc,
		header: pHelpers + pStructs[0].decl + "\n", method: b.String(), pack: true}
}

func loopCands(thorough bool) []cand {
	var out []cand
	first := []loopSpec{{"while", ""}, {"while", "a"}, {"iterate", ""}, {"iterate", "a"}}
	second := []loopSpec{{"while", ""}, {"while", "a"}, {"while", "b"}, {"iterate", ""}, {"iterate", "a"}, {"iterate", "b"}}
	wraps := []string{"direct", "while", "iterate", "io_limit", "io_bind"}
	jumpsFor := func(l loopSpec, outer string, ws []string) []*jumpSpec {
		var js []*jumpSpec
		npos := 1
		if l.kw == "iterate" {
			npos = 2
		}
		targets := []string{""}
		if l.label != "" {
			targets = append(targets, l.label)
		}
		if outer != "" && outer != l.label {
			targets = append(targets, outer)
		}
		for pos := 0; pos < npos; pos++ {
			for _, w := range ws {
				for _, kw := range []string{"break", "continue"} {
					for _, t := range targets {
						js = append(js, &jumpSpec{pos, w, kw, t})
					}
				}
			}
		}
		return js
	}
	// one loop, a jump at every position
	for _, l := range first {
		out = append(out, loopCand(fmt.Sprintf("%s.%s no jump", l.kw, l.label), renderLoop(l, nil, "")))
		for _, j := range jumpsFor(l, "", wraps) {
			out = append(out, loopCand(fmt.Sprintf("%s.%s %v", l.kw, l.label, j), renderLoop(l, j, "")))
		}
	}
	// two loops in sequence, the same kind of jump in both (equal and different labels)
	seqWraps := []string{"direct", "while"}
	if thorough {
		seqWraps = wraps
	}
	for _, l1 := range first {
		for _, l2 := range second {
			for _, w := range seqWraps {
				for _, kw := range []string{"break", "continue"} {
					for _, own := range []bool{false, true} {
						if own && (l1.label == "" || l2.label == "") {
							continue
						}
						j1 := &jumpSpec{0, w, kw, ""}
						j2 := &jumpSpec{0, w, kw, ""}
						if own {
							j1.target, j2.target = l1.label, l2.label
						}
						out = append(out, loopCand(fmt.Sprintf("%s.%s %v ; %s.%s %v", l1.kw, l1.label, j1, l2.kw, l2.label, j2),
							renderLoop(l1, j1, "")+renderLoop(l2, j2, "")))
					}
				}
			}
		}
	}
	// two loops nested, a jump at every position of the inner one (and, thorough, one in the outer one too)
	nestWraps := []string{"direct", "while"}
	if thorough {
		nestWraps = wraps
	}
	for _, l1 := range first {
		for _, l2 := range second {
			out = append(out, loopCand(fmt.Sprintf("%s.%s { %s.%s }", l1.kw, l1.label, l2.kw, l2.label), renderLoop(l1, nil, renderLoop(l2, nil, ""))))
			for _, j2 := range jumpsFor(l2, l1.label, nestWraps) {
				out = append(out, loopCand(fmt.Sprintf("%s.%s { %s.%s %v }", l1.kw, l1.label, l2.kw, l2.label, j2),
					renderLoop(l1, nil, renderLoop(l2, j2, ""))))
				if thorough {
					j1 := &jumpSpec{0, "direct", j2.kw, l1.label}
					out = append(out, loopCand(fmt.Sprintf("%s.%s %v { %s.%s %v }", l1.kw, l1.label, j1, l2.kw, l2.label, j2),
						renderLoop(l1, j1, renderLoop(l2, j2, ""))))
				}
			}
		}
	}
	return out
}

// ---------------------------------------------------------------- statuses

const tinyStruct = "pub struct foo?(\n    f : base.u32,\n)\n"

func statusCands(thorough bool) []cand {
	var out []cand
	alphabet := []string{"a", "B", "1", " ", "-", "_"}
	bodies := []string{""}
	bodies = append(bodies, alphabet...)
	if thorough {
		for _, x := range alphabet {
			for _, y := range alphabet {
				bodies = append(bodies, x+y)
			}
		}
	}
	bodies = append(bodies, "a b", "?!", "é", "a.b")
	mk := func(desc string, decls []string, use string) cand {
		h := strings.Join(decls, "\n") + "\n\n" + tinyStruct + "\n"
		m := ""
		if use != "" {
			m = "pub func foo.MNAME!() base.status {\n    return " + use + "\n}\n"
		}
		return cand{family: "status", shape: "status-names", feature: "status", desc: "status: " + desc, header: h, method: m}
	}
	for _, sigil := range []string{"#", "$", "@"} {
		for _, b := range bodies {
			lit := `"` + sigil + b + `"`
			for _, vis := range []string{"pri", "pub"} {
				if vis == "pub" && !thorough && len(b) > 1 {
					continue
				}
				out = append(out, mk(vis+" "+lit, []string{vis + " status " + lit}, ""))
			}
			if sigil != "$" {
				out = append(out, mk("pri "+lit+" returned", []string{"pri status " + lit}, lit))
			}
		}
	}
	// pairs that the C name mangling may fold together
	fold := []string{"a b", "a-b", "a_b", "A B", "ab", "a  b", "a b ", " a b", "a.b", "a b1", "a b 1"}
	for i := range fold {
		for j := i + 1; j < len(fold); j++ {
			a, b := `"#`+fold[i]+`"`, `"#`+fold[j]+`"`
			out = append(out, mk("pri "+a+" and pri "+b, []string{"pri status " + a, "pri status " + b}, ""))
			if thorough || j == i+1 {
				out = append(out, mk("pub "+a+" and pri "+b, []string{"pub status " + a, "pri status " + b}, ""))
				out = append(out, mk("pub "+a+" and pub "+b, []string{"pub status " + a, "pub status " + b}, ""))
			}
		}
	}
	for _, p := range [][2]string{{"#", "$"}, {"#", "@"}, {"$", "@"}} {
		a, b := `"`+p[0]+`a b"`, `"`+p[1]+`a b"`
		out = append(out, mk("pri "+a+" and pri "+b, []string{"pri status " + a, "pri status " + b}, ""))
	}
	// a status of this package against the same message in base
	out = append(out, mk(`pub "#bad argument" (also a base status)`, []string{`pub status "#bad argument"`}, `"#bad argument"`))
	out = append(out, mk(`pub "$short read" (also a base status)`, []string{`pub status "$short read"`}, ""))
	return out
}

// ---------------------------------------------------------------- names

func nameCands(thorough bool) []cand {
	var out []cand
	mk := func(desc, header, method string) cand {
		return cand{family: "names", shape: "names-used-by-generated-c", feature: "names", desc: "names: " + desc, header: header, method: method}
	}
	cnames := []string{"alloc", "sizeof", "magic", "self", "status", "vtable", "upcast", "unique_ptr", "private_impl", "private_data",
		"null_vtable", "NULL", "int", "main", "memset", "free", "malloc", "error", "bad", "ok", "coro_susp_point", "get_quirk", "initialize_", "struct_"}
	for _, n := range cnames {
		out = append(out, mk("method "+n, tinyStruct+"\npub func foo."+n+"!() {\n    this.f = 1\n}\n", ""))
		out = append(out, mk("coroutine method "+n, tinyStruct+"\npub func foo."+n+"?() {\n    yield? base.\"$short read\"\n    this.f = 1\n}\n", ""))
		out = append(out, mk("field "+n, "pub struct foo?(\n    "+n+" : base.u32,\n)\n\npub func foo.go!() {\n    this."+n+" = 1\n}\n", ""))
		out = append(out, mk("variable and argument "+n, tinyStruct+"\npub func foo.go?("+n+": base.u32) {\n    var "+n+"_ : base.u32\n    "+n+"_ = args."+n+
			"\n    yield? base.\"$short read\"\n    this.f = "+n+"_\n}\n", ""))
		out = append(out, mk("variable "+n, tinyStruct+"\npub func foo.go?() {\n    var "+n+" : base.u32\n    "+n+" = 1\n    yield? base.\"$short read\"\n    this.f = "+n+"\n}\n", ""))
	}
	for _, sn := range []string{"error", "note", "suspension", "status", "int", "empty_struct", "slice_u8", "vtable", "base_", "utility", "foo"} {
		for _, st := range []string{"#bad", "@bad", "$bad"} {
			out = append(out, mk(fmt.Sprintf("struct %s with method bad and status %q", sn, st),
				"pub status \""+st+"\"\n\npub struct "+sn+"?(\n    f : base.u32,\n)\n\npub func "+sn+".bad!() {\n    this.f = 1\n}\n", ""))
		}
	}
	// a method of one struct against a struct whose name is the concatenation
	out = append(out, mk("struct foo with method bar_baz and struct foo_bar with method baz",
		tinyStruct+"\npub struct foo_bar?(\n    g : base.u32,\n)\n\npub func foo.bar_baz!() {\n    this.f = 1\n}\n\npub func foo_bar.baz!() {\n    this.g = 1\n}\n", ""))
	for _, p := range [][2]string{{"AB", "A_B"}, {"A_B", "A__B"}, {"A_B", "A_B_"}, {"A1", "A_1"}} {
		for _, vis := range []string{"pri", "pub"} {
			out = append(out, mk(fmt.Sprintf("%s consts %s and %s", vis, p[0], p[1]),
				vis+" const "+p[0]+" : base.u32 = 1\n"+vis+" const "+p[1]+" : base.u32 = 2\n\n"+tinyStruct+"\npub func foo.go!() {\n    this.f = "+p[0]+" + "+p[1]+"\n}\n", ""))
		}
	}
	for _, cn := range []string{"INCLUDE_GUARD", "VERSION", "IMPLEMENTATION", "INITIALIZE", "NULL", "EOF", "INT_MAX", "A"} {
		out = append(out, mk("pub const "+cn, "pub const "+cn+" : base.u32 = 1\n\n"+tinyStruct+"\npub func foo.go!() {\n    this.f = "+cn+"\n}\n", ""))
	}
	_ = thorough
	return out
}

// ---------------------------------------------------------------- fields

func fieldCands(thorough bool) []cand {
	var out []cand
	type ft struct{ typ, use string }
	types := []ft{
		{"base.u32", "this.x = 1"}, {"base.u32[..= 9]", "this.x = 1"}, {"base.u32[1 ..= 9]", ""}, {"base.bool", "this.x = true"},
		{"base.status", ""}, {"array[4] base.u8", "this.x[1] = 1"}, {"array[300] base.u8", "this.x[1] = 1"},
		{"array[2] array[3] base.u16", "this.x[1][2] = 1"}, {"array[4] base.u8[..= 9]", "this.x[1] = 1"}, {"slice base.u8", ""}, {"table base.u8", ""},
		{"base.range_ii_u32", ""}, {"base.rect_ie_u32", ""}, {"base.utility", ""}, {"base.io_reader", ""}, {"base.empty_struct", ""},
		{"bar", ""}, {"nbar", ""}, {"array[2] bar", ""}, {"array[2] nbar", ""}, {"array[2] array[2] bar", ""}, {"ptr bar", ""}, {"nptr bar", ""},
		{"foo", ""}, {"base.hasher_u32", ""}, {"base.pixel_swizzler", ""}, {"array[2] base.pixel_swizzler", ""},
	}
	for _, t := range types {
		for sec := 0; sec < 2; sec++ {
			for other := 0; other < 2; other++ {
				h := ""
				if strings.Contains(t.typ, "nbar") {
					h += "pri struct nbar(\n    y : base.u8,\n)\n\n"
				} else if strings.Contains(t.typ, "bar") {
					h += "pub struct bar?(\n    y : base.u8,\n)\n\n"
				}
				field := "    x : " + t.typ + ",\n"
				pad := "    pad : array[8] base.u8,\n"
				var s1, s2 string
				if sec == 0 {
					s1 = field
					if other == 1 {
						s2 = pad
					}
				} else {
					s2 = field
					s1 = "    f : base.u32,\n"
					if other == 1 {
						s1 += pad
					}
				}
				h += "pub struct foo?(\n" + s1 + ")"
				if s2 != "" {
					h += " + (\n" + s2 + ")"
				}
				h += "\n"
				if t.use != "" {
					h += "\npub func foo.go!() {\n    " + t.use + "\n}\n"
				}
				desc := fmt.Sprintf("fields: x : %s in the %s section%s", t.typ, []string{"first", "second (+)"}[sec],
					[]string{"", ", the other section holds an array"}[other])
				out = append(out, cand{family: "fields", shape: "struct-field-sections", feature: "fields", desc: desc, header: h})
			}
		}
	}
	_ = thorough
	return out
}

// ---------------------------------------------------------------- return types

func returnCands(thorough bool) []cand {
	var out []cand
	rets := []string{"base.bool", "base.empty_struct", "base.u8", "base.i32", "base.u64[..= 9]", "base.status", "slice base.u8", "roslice base.u8",
		"table base.u8", "array[2] base.u8", "base.io_reader", "base.io_writer", "nptr foo", "ptr foo", "base.pixel_format", "base.more_information",
		"base.range_ii_u64", "base.rect_ii_u32", "base.optional_u63", "base.bitvec256", "base.utility", "foo", "base.token_reader", "base.frame_config"}
	for _, vis := range []string{"pub", "pri"} {
		for _, eff := range []string{"", "!"} {
			for _, rt := range rets {
				m := vis + " func foo.MNAME" + eff + "() " + rt + " {\n}\n"
				out = append(out, cand{family: "returns", shape: "return-types", feature: "returns",
					desc: fmt.Sprintf("returns: %s func foo.m%s() %s with an empty body", vis, eff, rt), header: tinyStruct + "\n", method: m})
			}
		}
	}
	_ = thorough
	return out
}

// ---------------------------------------------------------------- arithmetic

const arithHeader = "pub struct foo?(\n    r8 : base.u8,\n    r16 : base.u16,\n    r32 : base.u32,\n    r64 : base.u64,\n)\n\n"

// arithCands: every binary and compound-assignment operator x operand width x
// operand shape (argument, literal, field); check.Check decides which are in bounds.
func arithCands(thorough bool) []cand {
	var out []cand
	ops := []string{"+", "-", "*", "/", "%", "<<", ">>", "&", "|", "^", "~mod+", "~mod-", "~mod*", "~mod<<", "~sat+", "~sat-"}
	for _, w := range []string{"8", "16", "32", "64"} {
		typ := "base.u" + w
		sig := "pub func foo.MNAME!(x: " + typ + "[..= 5], y: " + typ + "[1 ..= 5]) {\n    var v : " + typ + "\n"
		mk := func(desc, body string) {
			out = append(out, cand{family: "arith", shape: "arithmetic-operators", feature: "arith", desc: "arith: " + typ + ": " + desc,
				header: arithHeader, method: sig + body + "    this.r" + w + " = v\n}\n", pack: true})
		}
		for _, op := range ops {
			for _, sh := range [][2]string{{"args.x", "args.y"}, {"7", "args.y"}, {"args.x", "3"}, {"this.r" + w, "args.y"}, {"v", "v"}} {
				e := sh[0] + " " + op + " " + sh[1]
				mk("v = "+e, "    v = "+e+"\n")
			}
			mk("v "+op+"= args.y", "    v = args.x\n    v "+op+"= args.y\n")
			mk("this.r "+op+"= args.y", "    this.r"+w+" "+op+"= args.y\n")
			if thorough {
				mk("nested "+op, "    v = (args.x "+op+" args.y) "+op+" (7 "+op+" args.y)\n")
			}
		}
		for _, w2 := range []string{"8", "16", "32", "64"} {
			mk("as base.u"+w2, "    this.r"+w2+" = (args.x as base.u"+w2+") ~mod+ (this.r"+w+" as base.u"+w2+")\n")
		}
		mk("unary minus and comparison", "    if (args.x < args.y) and (not (args.x == 3)) {\n        v = args.y - 1\n    }\n")
	}
	return out
}

// ---------------------------------------------------------------- io arguments

const ioHeader = "pub struct foo?(\n    f : base.u32,\n    swz : base.pixel_swizzler,\n)\n\n" +
	"pri func foo.co?(r: base.io_reader) {\n    var c : base.u8\n    c = args.r.read_u8?()\n    this.f = (c & 7) as base.u32\n}\n\n" +
	"pri func foo.wr?(w: base.io_writer) {\n    args.w.write_u8?(a: 1)\n}\n\n" +
	"pri func foo.peek!(r: base.io_reader) {\n    if args.r.length() > 0 {\n        this.f = args.r.peek_u8() as base.u32\n    }\n}\n\n"

// ioArgCands: an I/O (or slice) argument in every role: receiver of a built-in,
// argument of a built-in of another object, argument of a method of this
// package, subject of io_limit / io_bind, or unused.
func ioArgCands(thorough bool) []cand {
	var out []cand
	type st struct {
		name, body string
		coro       bool
	}
	stmts := []st{
		{"unused", "", false},
		{"writer.limited_copy_u32_from_reader(r: args.src)", "n = args.dst.limited_copy_u32_from_reader!(up_to: 2, r: args.src)\n", false},
		{"reader.limited_copy_u32_to_slice(s: args.s)", "n = args.src.limited_copy_u32_to_slice!(up_to: 2, s: args.s)\n", false},
		{"writer.copy_from_slice(s: args.s)", "m = args.dst.copy_from_slice!(s: args.s)\n", false},
		{"writer.limited_copy_u32_from_slice(s: args.s)", "n = args.dst.limited_copy_u32_from_slice!(up_to: 2, s: args.s)\n", false},
		{"swizzler.swizzle_interleaved_from_reader(src: args.src)", "m = this.swz.swizzle_interleaved_from_reader!(dst: args.s, dst_palette: args.s, src: args.src)\n", false},
		{"this.peek!(r: args.src)", "this.peek!(r: args.src)\n", false},
		{"this.co?(r: args.src)", "this.co?(r: args.src)\n", true},
		{"this.wr?(w: args.dst)", "this.wr?(w: args.dst)\n", true},
		{"io_limit around this.co?", "io_limit (io: args.src, limit: 4) {\nthis.co?(r: args.src)\n}\n", true},
		{"io_limit around a copy", "io_limit (io: args.src, limit: 4) {\nn = args.dst.limited_copy_u32_from_reader!(up_to: 2, r: args.src)\n}\n", false},
		{"io_bind over args.s, then copy from args.src", "io_bind (io: w, data: args.s, history_position: 0) {\nn = w.limited_copy_u32_from_reader!(up_to: 2, r: args.src)\n}\n", false},
		{"io_bind reader over args.s, copy to args.dst", "io_bind (io: r, data: args.s, history_position: 0) {\nn = args.dst.limited_copy_u32_from_reader!(up_to: 2, r: r)\n}\n", false},
		{"reader.skip_u32?", "args.src.skip_u32?(n: 2)\n", true},
		{"writer.write_u8? and reader.read_u8?", "c = args.src.read_u8?()\nargs.dst.write_u8?(a: c)\n", true},
	}
	also := []struct{ name, body string }{
		{"", ""},
		{" + reader used as a receiver too", "if args.src.length() > 0 {\nc = args.src.peek_u8()\n}\n"},
		{" + writer used as a receiver too", "m = args.dst.length()\n"},
	}
	for _, s := range stmts {
		for _, eff := range []string{"!", "?"} {
			if s.coro && eff == "!" {
				continue
			}
			for _, a := range also {
				for _, order := range []int{0, 1} {
					if a.body == "" && order == 1 {
						continue
					}
					if order == 1 && !thorough && s.coro {
						continue
					}
					body := s.body + a.body
					if order == 1 {
						body = a.body + s.body
					}
					var b strings.Builder
					b.WriteString("pub func foo.MNAME" + eff + "(dst: base.io_writer, src: base.io_reader, s: slice base.u8) {\n" +
						"    var n : base.u32\n    var m : base.u64\n    var c : base.u8\n    var w : base.io_writer\n    var r : base.io_reader\n")
					for _, ln := range strings.Split(strings.TrimSuffix(body, "\n"), "\n") {
						if ln != "" {
							b.WriteString("    " + ln + "\n")
						}
					}
					b.WriteString("}\n")
					out = append(out, cand{family: "ioargs", shape: "io-argument-roles", feature: "ioargs",
						desc:   fmt.Sprintf("ioargs: func foo.m%s: %s%s%s", eff, s.name, a.name, []string{"", " (first)"}[order]),
						header: ioHeader, method: b.String(), pack: true})
				}
			}
		}
	}
	return out
}

// ---------------------------------------------------------------- types in every role

// typeCands: each type as a local variable (used or not, also live across a
// yield), and as a parameter of a pub / pri method.
func typeCands(thorough bool) []cand {
	var out []cand
	type tt struct{ typ, write, read string }
	num := func(t string) tt { return tt{t, "e = 1", "this.f = e as base.u32"} }
	types := []tt{
		num("base.u8"), num("base.u16"), num("base.u64"), num("base.u32[..= 9]"), {"base.u32[1 ..= 9]", "", ""},
		{"base.bool", "e = true", "if e {\nthis.f = 1\n}"}, {"base.status", "e = \"#bad\"", "if e.is_ok() {\nthis.f = 1\n}"},
		{"array[4] base.u8", "e[1] = 1", "this.f = e[1] as base.u32"}, {"array[300] base.u8", "e[1] = 1", "this.f = e[1] as base.u32"},
		{"array[1] base.u8", "e[0] = 1", "this.f = e[0] as base.u32"}, {"array[0] base.u8", "", ""},
		{"array[2] array[3] base.u8", "e[1][2] = 1", "this.f = e[1][2] as base.u32"}, {"array[4] base.u8[..= 3]", "e[1] = 1", "this.f = e[1] as base.u32"},
		{"array[4] base.u32", "e[1] = 1", "this.f = e[1]"}, {"array[4] base.bool", "e[1] = true", ""},
		{"slice base.u8", "", "this.f = (e.length() & 3) as base.u32"}, {"roslice base.u8", "", "this.f = (e.length() & 3) as base.u32"},
		{"slice base.u8[..= 3]", "", ""}, {"slice base.u16", "", ""}, {"slice base.u32", "", ""}, {"slice base.bool", "", ""},
		{"slice array[2] base.u8", "", ""}, {"slice slice base.u8", "", ""}, {"slice bar", "", ""},
		{"table base.u8", "", "this.f = (e.width() & 3) as base.u32"}, {"rotable base.u8", "", ""}, {"table base.u16", "", ""},
		{"bar", "e.y = 1", "this.f = e.y as base.u32"}, {"array[2] bar", "e[1].y = 1", "this.f = e[1].y as base.u32"},
		{"nbar", "e.y = 1", "this.f = e.y as base.u32"}, {"ptr bar", "", ""}, {"nptr bar", "", ""}, {"nptr foo", "", ""}, {"foo", "", ""},
		{"base.io_reader", "", ""}, {"base.io_writer", "", ""}, {"base.token_reader", "", ""}, {"base.token_writer", "", ""},
		{"base.range_ii_u32", "", ""}, {"base.rect_ie_u32", "", ""}, {"base.utility", "", ""}, {"base.empty_struct", "", ""},
		{"base.bitvec256", "", ""}, {"base.optional_u63", "", ""}, {"base.pixel_format", "", ""}, {"base.more_information", "", ""},
		{"base.hasher_u32", "", ""}, {"base.pixel_swizzler", "", ""}, {"base.image_config", "", ""}, {"nptr base.image_config", "", ""},
	}
	indent := func(body string) string {
		var b strings.Builder
		for _, ln := range strings.Split(body, "\n") {
			if ln != "" {
				b.WriteString("    " + ln + "\n")
			}
		}
		return b.String()
	}
	for _, t := range types {
		h := ""
		if strings.Contains(t.typ, "nbar") {
			h = "pri struct nbar(\n    y : base.u8,\n)\n\n"
		} else if strings.Contains(t.typ, "bar") {
			h = "pub struct bar?(\n    y : base.u8,\n)\n\n"
		}
		h += "pri status \"#bad\"\n\n" + tinyStruct + "\n"
		mk := func(role, method string) {
			out = append(out, cand{family: "types", shape: "types-in-every-role", feature: "types",
				desc: fmt.Sprintf("types: %s as %s", t.typ, role), header: h, method: method})
		}
		mk("an unused local variable", "pub func foo.MNAME!() {\n    var e : "+t.typ+"\n}\n")
		mk("an unused local variable of a coroutine", "pub func foo.MNAME?() {\n    var e : "+t.typ+"\n    yield? base.\"$short read\"\n}\n")
		if t.write != "" || t.read != "" {
			mk("a local variable, written and read", "pub func foo.MNAME!() {\n    var e : "+t.typ+"\n"+indent(t.write)+indent(t.read)+"}\n")
			mk("a local variable live across a yield", "pub func foo.MNAME?() {\n    var e : "+t.typ+"\n"+indent(t.write)+"    yield? base.\"$short read\"\n"+indent(t.read)+"}\n")
		}
		mk("a parameter of a pub method", "pub func foo.MNAME!(e: "+t.typ+") {\n}\n")
		mk("a parameter of a pub coroutine", "pub func foo.MNAME?(e: "+t.typ+") {\n    yield? base.\"$short read\"\n}\n")
		if thorough {
			mk("a parameter of a pri method", "pri func foo.MNAME!(e: "+t.typ+") {\n}\n")
			mk("a parameter of a pub method with a body", "pub func foo.MNAME!(e: "+t.typ+") {\n    this.f = 1\n}\n")
		}
	}
	return out
}

func buildCands(thorough bool) []cand {
	var out []cand
	for _, s := range progSpecs(thorough) {
		out = append(out, s.cand())
	}
	out = append(out, loopCands(thorough)...)
	out = append(out, statusCands(thorough)...)
	out = append(out, nameCands(thorough)...)
	out = append(out, fieldCands(thorough)...)
	out = append(out, returnCands(thorough)...)
	out = append(out, arithCands(thorough)...)
	out = append(out, ioArgCands(thorough)...)
	out = append(out, typeCands(thorough)...)
	return out
}
