package main

// Space (d): a family of small programs, enumerated from a signature grid
// (visibility x effect x parameters x return type x struct variant) crossed
// with body fragments (arithmetic, loops, iterate, choose, calls, coroutine
// yields and I/O, consts, statuses, io_limit, asserts, arrays and slices).
// Candidates that check.Check accepts (decided in the worker sub-processes,
// unit kind "prog") go through the freshly built `wuffs-c gen` and, in batches,
// through gcc -fsyntax-only together with the freshly generated base code.

import (
	"bytes"
	"context"
	"fmt"
	"os"
	"os/exec"
	"path/filepath"
	"regexp"
	"strings"
	"time"
)

type progSpec struct {
	sv, vis, eff, par, ret int
	frags                  []int
}

var pVis = []string{"pub", "pri"}
var pEff = []string{"", "!", "?"}

type parSpec struct {
	decl string
	has  string // space-separated capabilities: a32 a8 refined s r w b rs t p
}

var pPars = []parSpec{
	{"", ""},
	{"a: base.u32", "a32"},
	{"a: base.u32[..= 5]", "a32 refined"},
	{"a: base.u8, b: base.u64[1 ..= 9]", "a8 refined"},
	{"s: slice base.u8", "s"},
	{"r: base.io_reader", "r"},
	{"w: base.io_writer", "w"},
	{"b: base.bool", "b"},
	{"a: base.u32[..= 5], s: slice base.u8", "a32 refined s"},
	{"r: base.io_reader, w: base.io_writer", "r w"},
	{"rs: roslice base.u8", "rs"},
	{"x: base.u16, y: base.u16[..= 300]", "refined"},
	{"t: table base.u8", "t"},
	{"a: base.u32[2 ..= 5]", "a32 refined"},
}

type retSpec struct{ typ, expr string }

var pRets = []retSpec{
	{"", ""},
	{"base.u32", "v"},
	{"base.u32[..= 7]", "v & 7"},
	{"base.bool", "v > 2"},
	{"base.status", "ok"},
	{"base.status", "zs"}, // a status VARIABLE as the only return (no literal "return ok" anywhere)
	{"base.u64", "v as base.u64"},
	{"slice base.u8", "this.g[.. 2]"},
	{"base.u8", "c"},
	{"base.rect_ie_u32", "this.util.empty_rect_ie_u32()"},
	{"base.empty_struct", ""},
}

type fragSpec struct {
	name string
	need string // capabilities: pure impure coroutine notcoroutine status a32 a8 s r w b rs t
	vars string
	body string
}

var pFrags = []fragSpec{
	{"empty", "", "", ""},
	{"arith", "", "", "v = 3\nv = v ~mod+ 1\nv ~sat+= 2\nv = (v >> 1) | ((v & 0xF) << 3)\nc = (v & 0xFF) as base.u8\n"},
	{"while", "", "i : base.u32[..= 4]", "while i < 4 {\ni += 1\nv ~mod+= 1\n}\n"},
	{"if-a32", "a32", "", "if args.a > 3 {\nv = 1\n} else if args.a == 1 {\nv = 2\n} else {\nv = args.a\n}\n"},
	{"if-a8", "a8", "", "if args.a > 3 {\nv = 1\n} else {\nv = args.a as base.u32\n}\nv ~mod+= (args.b & 0xFF) as base.u32\n"},
	{"field", "impure", "", "this.f = 1\nv = this.f\n"},
	{"array-field", "impure", "", "this.g[v & 3] = 7\nc = this.g[1]\n"},
	{"slice-arg", "s", "", "if args.s.length() > 0 {\nc = args.s[0]\n}\nv = c as base.u32\n"},
	{"iterate-ro", "s pure", "p : roslice base.u8", "iterate (p = args.s)(length: 4, advance: 4, unroll: 2) {\nv ~mod+= p[3] as base.u32\n} else (length: 1, advance: 1, unroll: 1) {\nv ~mod+= p[0] as base.u32\n}\n"},
	{"iterate", "s impure notcoroutine", "p : slice base.u8", "iterate (p = args.s)(length: 4, advance: 4, unroll: 2) {\nv ~mod+= p[3] as base.u32\n} else (length: 1, advance: 1, unroll: 1) {\nv ~mod+= p[0] as base.u32\n}\n"},
	{"choose", "impure", "", "choose up = [up_alt]\nthis.up!(v: 1)\n"},
	{"yield", "coroutine", "", "yield? base.\"$short read\"\nv = 1\nyield? \"$wait\"\n"},
	{"read-u8", "coroutine r", "", "c = args.r.read_u8?()\nv = c as base.u32\n"},
	{"call-pure", "", "", "v = this.h(x: 1)\n"},
	{"call-impure", "impure", "", "this.k!()\n"},
	{"call-coroutine", "coroutine r", "", "this.co?(r: args.r)\n"},
	{"consts", "", "", "v = C\nc = TBL[v & 3]\n"},
	{"return-error", "status", "", "if v > 100 {\nreturn \"#bad\"\n}\n"},
	{"labeled-loops", "", "", "while.outer true {\nwhile true {\nv ~mod+= 1\nif v > 3 {\nbreak.outer\n} else if v == 2 {\ncontinue.outer\n}\nbreak\n}\n}.outer\n"},
	{"io-limit", "coroutine r", "", "io_limit (io: args.r, limit: 4) {\nc = args.r.read_u8?()\n}\n"},
	{"assert-via", "", "", "if v < 5 {\nassert v < 10 via \"a < b: a < c; c <= b\"(c: 5)\n}\n"},
	{"write-u8", "coroutine w", "", "args.w.write_u8?(a: 1)\n"},
	{"local-array", "", "arr : array[4] base.u8", "arr[1] = 2\nc = arr[v & 3]\n"},
	{"slice-of-field", "impure", "sl : slice base.u8", "sl = this.g[.. 2]\nif sl.length() > 0 {\nc = sl[0]\n}\n"},
	{"yield-in-loop", "coroutine", "i : base.u32[..= 4]", "while i < 4 {\nyield? base.\"$short read\"\ni += 1\n}\nv = i\n"},
	{"copy-from-slice", "impure s", "", "v = (args.s.copy_from_slice!(s: this.g[..]) & 0xFF) as base.u32\n"},
	{"reader-peek", "r", "", "if args.r.length() >= 1 {\nc = args.r.peek_u8()\n}\n"},
	{"bool-arg", "b", "", "if args.b {\nv = 1\n}\nif (not args.b) and (v < 3) {\nv = 2\n}\n"},
	{"roslice-arg", "rs", "", "if args.rs.length() > 1 {\nc = args.rs[1]\n}\n"},
	{"table-arg", "t", "", "v = (args.t.width() & 0xFF) as base.u32\n"},
	{"status-var", "coroutine r", "st : base.status", "st =? this.co?(r: args.r)\nif not st.is_ok() {\nreturn st\n}\n"},
	{"double-curly-while", "", "", "while true {{\nv ~mod+= 1\nbreak\n}}\n"},
}

var pStructs = []struct{ name, decl string }{
	{"classy", "pub struct foo?(\n    f : base.u32,\n    g : array[4] base.u8,\n    util : base.utility,\n)\n"},
	{"plain", "pub struct foo(\n    f : base.u32,\n    g : array[4] base.u8,\n    util : base.utility,\n)\n"},
	{"private-data", "pub struct foo?(\n    f : base.u32,\n    g : array[4] base.u8,\n    util : base.utility,\n) + (\n    buf : array[300] base.u8,\n)\n"},
	{"refined-field", "pub struct foo?(\n    f : base.u32[..= 9],\n    g : array[4] base.u8,\n    util : base.utility,\n)\n"},
	{"nested-struct", "pri struct bar(\n    x : base.u8,\n)\n\npub struct foo?(\n    f : base.u32,\n    g : array[4] base.u8,\n    util : base.utility,\n    inner : bar,\n)\n"},
	{"array-2d", "pub struct foo?(\n    f : base.u32,\n    g : array[4] base.u8,\n    util : base.utility,\n    hh : array[2] array[3] base.u16,\n)\n"},
	{"private-struct", "pri struct foo?(\n    f : base.u32,\n    g : array[4] base.u8,\n    util : base.utility,\n)\n"},
}

const pHelpers = `pri const C : base.u32 = 7
pub const TBL : roarray[4] base.u8 = [1, 2, 3, 4]
pri status "#bad"
pub status "$wait"
pub status "@note"

pri func foo.h(x: base.u32) base.u32 {
    return args.x & 3
}

pri func foo.k!() {
    this.f = 2
}

pri func foo.co?(r: base.io_reader) {
    var c : base.u8
    c = args.r.read_u8?()
    this.f = (c & 7) as base.u32
}

pri func foo.up!(v: base.u32),
        choosy,
{
    this.f = args.v & 7
}

pri func foo.up_alt!(v: base.u32) {
    this.f = (args.v & 3) + 1
}

`

func has(set, item string) bool {
	for _, s := range strings.Fields(set) {
		if s == item {
			return true
		}
	}
	return false
}

// compatible reports whether the fragment's needs are met by the signature.
func (s progSpec) compatible() bool {
	if s.eff == 2 && s.ret != 0 {
		return false // a coroutine has no explicit return type
	}
	caps := pPars[s.par].has
	switch s.eff {
	case 1:
		caps += " impure notcoroutine"
	case 2:
		caps += " impure coroutine"
	default:
		caps += " pure notcoroutine"
	}
	if s.eff == 2 || pRets[s.ret].typ == "base.status" {
		caps += " status"
	}
	for _, f := range s.frags {
		for _, n := range strings.Fields(pFrags[f].need) {
			if !has(caps, n) {
				return false
			}
		}
	}
	if pRets[s.ret].typ == "slice base.u8" && s.eff == 0 {
		return false // returning a slice of a field from a pure function: keep the grid to impure ones
	}
	return true
}

// methodText is the method under test, its name spelled MNAME.
func (s progSpec) methodText() string {
	var b strings.Builder
	fmt.Fprintf(&b, "%s func foo.MNAME%s(%s)", pVis[s.vis], pEff[s.eff], pPars[s.par].decl)
	if pRets[s.ret].typ != "" {
		b.WriteString(" " + pRets[s.ret].typ)
	}
	b.WriteString(" {\n    var v : base.u32\n    var c : base.u8\n")
	if pRets[s.ret].expr == "zs" {
		b.WriteString("    var zs : base.status\n")
	}
	seenVar := map[string]bool{}
	for _, f := range s.frags {
		if v := pFrags[f].vars; v != "" && !seenVar[v] {
			seenVar[v] = true
			b.WriteString("    var " + v + "\n")
		}
	}
	for _, f := range s.frags {
		for _, ln := range strings.Split(strings.TrimSuffix(pFrags[f].body, "\n"), "\n") {
			if ln != "" {
				b.WriteString("    " + ln + "\n")
			}
		}
	}
	if e := pRets[s.ret].expr; e != "" {
		b.WriteString("    return " + e + "\n")
	}
	b.WriteString("}\n")
	return b.String()
}

func (s progSpec) describe() string {
	var fr []string
	for _, f := range s.frags {
		fr = append(fr, pFrags[f].name)
	}
	return fmt.Sprintf("struct=%s %s func foo.m%s(%s) %s body=%s", pStructs[s.sv].name, pVis[s.vis], pEff[s.eff], pPars[s.par].decl,
		pRets[s.ret].typ, strings.Join(fr, "+"))
}

// shape is the abstract form used in gcc signatures' witnesses and histograms.
func (s progSpec) shape() string {
	p := "no-params"
	if has(pPars[s.par].has, "refined") {
		p = "refined-param"
	} else if has(pPars[s.par].has, "r") || has(pPars[s.par].has, "w") {
		p = "io-param"
	} else if pPars[s.par].decl != "" {
		p = "plain-params"
	}
	r := "no-result"
	if s.ret != 0 {
		r = "result"
	}
	return fmt.Sprintf("%s/%s/%s/%s", pVis[s.vis], []string{"pure", "impure", "coroutine"}[s.eff], p, r)
}

func fragIdx(names ...string) []int {
	var out []int
	for _, n := range names {
		found := false
		for i, f := range pFrags {
			if f.name == n {
				out = append(out, i)
				found = true
			}
		}
		if !found {
			panic("no fragment " + n)
		}
	}
	return out
}

func progSpecs(thorough bool) []progSpec {
	var out []progSpec
	seen := map[string]bool{}
	add := func(s progSpec) {
		k := fmt.Sprint(s)
		if s.compatible() && !seen[k] {
			seen[k] = true
			out = append(out, s)
		}
	}
	// every signature (visibility x effect x parameters x return type) with two bodies
	for vis := range pVis {
		for eff := range pEff {
			for par := range pPars {
				for ret := range pRets {
					add(progSpec{0, vis, eff, par, ret, []int{0}})
					add(progSpec{0, vis, eff, par, ret, []int{1}})
				}
			}
		}
	}
	// every body fragment with every effect, both visibilities, three return
	// types, and every parameter list that provides what the fragment needs
	// (quick: at most three of them, always including a refined one if any fits)
	for f := range pFrags {
		for vis := range pVis {
			for eff := range pEff {
				for _, ret := range []int{0, 1, 4, 5} { // none, u32, status literal, status variable
					n := 0
					for _, par := range []int{2, 8, 3, 0, 1, 4, 5, 6, 7, 9, 10, 11, 12, 13} {
						s := progSpec{0, vis, eff, par, ret, []int{f}}
						if !s.compatible() {
							continue
						}
						if n++; n > 3 && !thorough {
							break
						}
						add(s)
					}
				}
			}
		}
	}
	if thorough {
		for vis := range pVis {
			for eff := range pEff {
				for par := range pPars {
					for ret := range pRets {
						for f := range pFrags {
							add(progSpec{0, vis, eff, par, ret, []int{f}})
						}
					}
				}
			}
		}
	}
	for sv := 1; sv < len(pStructs); sv++ {
		for eff := range pEff {
			pars := []int{0, 2, 5}
			if pStructs[sv].name == "plain" || pStructs[sv].name == "nested-struct" {
				pars = []int{0, 1} // keep the non-classy corner apart from the argument-check code
			}
			for _, par := range pars {
				for _, ret := range []int{0, 1} {
					for _, f := range fragIdx("empty", "field", "array-field", "yield", "yield-in-loop", "consts") {
						add(progSpec{sv, 0, eff, par, ret, []int{f}})
						add(progSpec{sv, 1, eff, par, ret, []int{f}})
					}
				}
			}
		}
	}
	if thorough {
		for eff := range pEff {
			for _, par := range []int{0, 2, 8, 9} {
				for _, ret := range []int{0, 1, 4, 5} { // none, u32, status literal, status variable
					for f1 := range pFrags {
						for f2 := f1 + 1; f2 < len(pFrags); f2++ {
							if pFrags[f1].vars != "" && pFrags[f1].vars == pFrags[f2].vars {
								continue
							}
							add(progSpec{0, 0, eff, par, ret, []int{f1, f2}})
						}
					}
				}
			}
		}
	}
	return out
}

const progChunk = 256

func (u *unit) enumProg(e *env, yield func(in *input) bool) {
	for i := u.lo; i < u.hi; i++ {
		s := e.progs[i]
		if !yield(&input{text: []byte(s.text()), desc: func() string { return "generated program: " + s.desc }}) {
			return
		}
	}
}

// ---------------------------------------------------------------- gen + gcc

type progStats struct {
	generated, accepted, genOK, genErr, gccOK, gccBad int64
	genRuns, gccRuns, gccChecked                      int64
	genCrash, packs, singleReruns, packDisagreements  int64
	complete                                          bool
	samples                                           []string
	diagClasses                                       map[string]int64
	features                                          map[string]int64
	gccVersion                                        string
}

var reGccDiag = regexp.MustCompile(`(?m)^([^:\n]+):(\d+):(\d+): (error|fatal error): (.*)$`)
var reGccQuoted = regexp.MustCompile(`'[^']*'|‘[^’]*’`)
var reAka = regexp.MustCompile(` \{aka [^}]*\}`)

// gccClass abstracts a diagnostic: quoted names are replaced by T unless they
// name something in the base library (wuffs_base__...).
func gccClass(msg string) string {
	msg = reAka.ReplaceAllString(msg, "")
	msg = reGccQuoted.ReplaceAllStringFunc(msg, func(q string) string {
		in := strings.Trim(q, "'‘’")
		if strings.HasPrefix(in, "wuffs_base__") && !strings.Contains(in, " ") {
			return "'" + in + "'"
		}
		return "T"
	})
	msg = reExpected.ReplaceAllString(msg, "but T was expected")
	msg = strings.NewReplacer("__sat_add'", "__sat_OP'", "__sat_sub'", "__sat_OP'").Replace(msg) // one code path for ~sat+ and ~sat-
	if i := strings.Index(msg, "; did you mean"); i >= 0 {                                       // the suggestion depends on the gcc version
		j := strings.Index(msg[i:], "?")
		if j >= 0 {
			msg = msg[:i] + msg[i+j+1:]
		}
	}
	return reDigits.ReplaceAllString(msg, "N")
}

var reExpected = regexp.MustCompile(`but '[^']*' was expected`)

// structShape: the part of the program's shape that goes into a gcc signature.
func (s progSpec) structShape() string {
	switch pStructs[s.sv].name {
	case "plain":
		return "non-classy-receiver"
	case "nested-struct":
		return "non-classy-struct-field"
	}
	return "classy-struct"
}

func runCmd(timeout time.Duration, dir string, env []string, name string, args ...string) (stdout, stderr []byte, err error, timedOut bool) {
	ctx, cancel := context.WithTimeout(context.Background(), timeout)
	defer cancel()
	cmd := exec.CommandContext(ctx, name, args...)
	cmd.Dir = dir
	cmd.Env = append(os.Environ(), env...)
	var o, e bytes.Buffer
	cmd.Stdout, cmd.Stderr = &o, &e
	err = cmd.Run()
	return o.Bytes(), e.Bytes(), err, ctx.Err() != nil
}

var gccFlags = []string{"-fsyntax-only", "-Wall", "-Werror=implicit"}

func pkgName(i int) string { return fmt.Sprintf("p%05d", i) }

// compileBatch writes <tag>.c that defines the module macros and includes the
// named generated files, and runs gcc on it.
func compileBatch(dir, tag string, names []string, macroOverride map[string]string) (bool, string) {
	var b strings.Builder
	b.WriteString("#define WUFFS_IMPLEMENTATION\n#define WUFFS_CONFIG__MODULES\n#define WUFFS_CONFIG__MODULE__BASE\n")
	for _, n := range names {
		m := strings.ToUpper(n)
		if o, ok := macroOverride[n]; ok {
			m = o
		}
		fmt.Fprintf(&b, "#define WUFFS_CONFIG__MODULE__%s\n", m)
	}
	for _, n := range names {
		fmt.Fprintf(&b, "#include \"./%s.c\"\n", n)
	}
	path := filepath.Join(dir, tag+".c")
	os.WriteFile(path, []byte(b.String()), 0o644)
	_, serr, err, timedOut := runCmd(10*time.Minute, dir, []string{"LC_ALL=C"}, "gcc", append(append([]string{}, gccFlags...), path)...)
	os.Remove(path)
	if timedOut {
		return false, "gcc timed out"
	}
	return err == nil, string(serr)
}
