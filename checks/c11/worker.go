package main

// Worker sub-processes. The coordinator re-executes this binary as
// "worker <tier> <journal> <slot>" and feeds it unit indices on stdin. Before
// every evaluation the worker stores (unit, input index, stage) into its slot
// of a shared memory-mapped journal, so that when it dies (stack overflow,
// fatal error, kill) or stalls, the coordinator can name the input.

import (
	"bufio"
	"encoding/json"
	"fmt"
	"os"
	"runtime"
	"runtime/debug"
	"strconv"
	"strings"
	"sync/atomic"
	"syscall"
	"time"
	"unsafe"

	"verif/internal/ev"
)

const journalCells = 8 // int64 cells per slot: unit, input index, stage, evaluation seq, spare...

type journal struct {
	mem   []byte
	cells []int64
}

func openJournal(path string, slots int, create bool) *journal {
	flags := os.O_RDWR
	if create {
		flags |= os.O_CREATE | os.O_TRUNC
	}
	f, err := os.OpenFile(path, flags, 0o644)
	if err != nil {
		ev.Fatal("journal: %v", err)
	}
	size := slots * journalCells * 8
	if create {
		if err := f.Truncate(int64(size)); err != nil {
			ev.Fatal("journal: %v", err)
		}
	}
	mem, err := syscall.Mmap(int(f.Fd()), 0, size, syscall.PROT_READ|syscall.PROT_WRITE, syscall.MAP_SHARED)
	if err != nil {
		ev.Fatal("journal mmap: %v", err)
	}
	f.Close()
	cells := unsafe.Slice((*int64)(unsafe.Pointer(&mem[0])), slots*journalCells)
	return &journal{mem: mem, cells: cells}
}

func (j *journal) slot(i int) []int64 { return j.cells[i*journalCells : (i+1)*journalCells] }

type crashRec struct {
	Sig   string `json:"sig"`
	What  string `json:"what"`
	Stage string `json:"stage"`
	Idx   int64  `json:"idx"`
	Desc  string `json:"desc"`
	Text  string `json:"text,omitempty"` // the input (omitted when larger than 256 KiB; Desc regenerates it)
	Ctx   bool   `json:"with_context"`
}

type unitResult struct {
	Unit        int              `json:"unit"`
	Inputs      int64            `json:"inputs"`
	Evals       int64            `json:"evals"`
	Reached     [5]int64         `json:"reached"`
	ParsedOK    int64            `json:"parsed_ok"`
	Accepted    int64            `json:"accepted"`
	Classes     map[string]int64 `json:"classes"`
	Crashes     []crashRec       `json:"crashes,omitempty"`
	Sample      string           `json:"sample,omitempty"`
	BaseOK      int              `json:"base_ok"` // decl units: 1 = unmutated unit accepted, -1 = not
	MaxMillis   int64            `json:"max_ms"`
	CPUMillis   int64            `json:"cpu_ms"`
	Hang        bool             `json:"hang,omitempty"`
	HangIdx     int64            `json:"hang_idx,omitempty"`
	HangStage   string           `json:"hang_stage,omitempty"`
	HangWhy     string           `json:"hang_why,omitempty"`
	HangWhere   string           `json:"hang_where,omitempty"`
	AcceptedIdx []int64          `json:"accepted_idx,omitempty"` // prog units
}

func topWuffsFrame(dump string, needle string) string {
	// goroutine blocks are separated by blank lines; pick the one running the pipeline
	for _, blk := range strings.Split(dump, "\n\n") {
		if needle != "" && !strings.Contains(blk, needle) {
			continue
		}
		for _, ln := range strings.Split(blk, "\n") {
			if strings.HasPrefix(ln, "github.com/google/wuffs/") {
				fn := strings.TrimPrefix(ln, "github.com/google/wuffs/")
				if i := strings.LastIndex(fn, "("); i > 0 {
					fn = fn[:i]
				}
				return fn
			}
		}
	}
	return "?"
}

func cpuMillis() int64 {
	var ru syscall.Rusage
	syscall.Getrusage(syscall.RUSAGE_SELF, &ru)
	return (ru.Utime.Sec+ru.Stime.Sec)*1000 + int64(ru.Utime.Usec+ru.Stime.Usec)/1000
}

func workerMain(args []string) {
	tier, jpath := args[0], args[1]
	slotIdx, _ := strconv.Atoi(args[2])
	nslots, _ := strconv.Atoi(args[3])
	e := buildEnv(tier)
	units := buildUnits(e)
	j := openJournal(jpath, nslots, false)
	cells := j.slot(slotIdx)
	curStage = &cells[2]
	out := bufio.NewWriterSize(os.Stdout, 1<<16)

	curUnit := int64(-1)
	var seq int64
	// Termination oracle. Wall-clock time is not trusted (the machine may be
	// heavily shared): the verdict "does not return" is given when one
	// evaluation has consumed cpuLimit seconds of this process's CPU time (60 s;
	// 900 s for the n >= 10^4 probes), i.e. >= 10^4 times the typical cost. ev.Watch
	// is the outer guard: 900 s of wall-clock stall, or a runaway heap.
	watch := ev.NewWatch(1)
	var hangOnce atomic.Bool
	onHang := func(_ int, _ int64, why string) {
		if hangOnce.Swap(true) {
			select {}
		}
		buf := make([]byte, 4<<20)
		n := runtime.Stack(buf, true)
		res := unitResult{Unit: int(atomic.LoadInt64(&curUnit)), Hang: true, HangIdx: atomic.LoadInt64(&cells[1]),
			HangStage: stageName[atomic.LoadInt64(curStage)], HangWhy: why, HangWhere: topWuffsFrame(string(buf[:n]), "main.pipeline")}
		b, _ := json.Marshal(res)
		os.Stdout.Write(append(b, '\n'))
	}
	watch.Start(900*time.Second, 24<<30, onHang, func() {})
	var cpuLimitMs atomic.Int64
	cpuLimitMs.Store(60000)
	var seqNow atomic.Int64 // 0 when idle
	go func() {
		last, cpuAt := int64(0), int64(0)
		for {
			time.Sleep(250 * time.Millisecond)
			cur := seqNow.Load()
			now := cpuMillis()
			if cur != last {
				last, cpuAt = cur, now
				continue
			}
			if cur != 0 && now-cpuAt >= cpuLimitMs.Load() {
				onHang(0, cur, fmt.Sprintf("one evaluation has consumed %d s of CPU time", (now-cpuAt)/1000))
				os.Exit(1)
			}
		}
	}()

	sc := bufio.NewScanner(os.Stdin)
	for sc.Scan() {
		f := strings.Fields(sc.Text())
		if len(f) != 2 {
			continue
		}
		ui, _ := strconv.Atoi(f[0])
		resume, _ := strconv.ParseInt(f[1], 10, 64)
		u := units[ui]
		atomic.StoreInt64(&curUnit, int64(ui))
		atomic.StoreInt64(&cells[0], int64(ui))
		res := unitResult{Unit: ui, Classes: map[string]int64{}}
		cpu0 := cpuMillis()
		cpuLimitMs.Store(60000)
		if u.slow {
			cpuLimitMs.Store(900000)
		}
		if u.heavy {
			debug.SetGCPercent(400)
		}
		seen := map[string]bool{}
		record := func(in *input, idx int64, text []byte, withCtx bool, r *result) {
			res.Evals++
			res.Reached[r.Reached]++
			res.Classes[r.Class]++
			if r.Accepted {
				res.Accepted++
			}
			for _, c := range r.Crashes {
				if seen[c.Sig] {
					continue
				}
				seen[c.Sig] = true
				cr := crashRec{Sig: c.Sig, What: c.What, Stage: c.Stage, Idx: idx, Desc: in.desc(), Ctx: withCtx}
				if len(text) <= 256<<10 {
					cr.Text = string(text)
				}
				res.Crashes = append(res.Crashes, cr)
			}
		}
		eval := func(idx, phase int64, f func() result) result {
			seq++
			atomic.StoreInt64(&cells[1], idx)
			atomic.StoreInt64(&cells[3], phase)
			watch.EnterFast(0, seq)
			seqNow.Store(seq)
			t0 := time.Now()
			r := f()
			seqNow.Store(0)
			if ms := time.Since(t0).Milliseconds(); ms > res.MaxMillis {
				res.MaxMillis = ms
			}
			watch.Leave(0)
			return r
		}
		var idx int64 = -1
		if u.kind == "seedpkg" {
			p := e.pkgs[u.pkg]
			idx = 0
			res.Inputs = 1
			if resume <= 0 {
				r := eval(0, 0, func() result { return pipeline(p.Files, e.useRes, false) })
				in := &input{desc: func() string { return "unmodified seed package " + p.Dir }}
				record(in, 0, nil, false, &r)
				res.Sample = fmt.Sprintf("%s -> %s", in.desc(), r.Class)
			}
		} else {
			u.enumerate(e, func(in *input) bool {
				idx++
				res.Inputs++
				if idx < resume {
					return true
				}
				noCheck := in.ctx != nil || in.noCheck || u.kind == "filemut"
				r := eval(idx, 0, func() result {
					return pipeline([]srcFile{{Name: "in.wuffs", Src: in.text}}, e.useRes, noCheck)
				})
				if u.kind == "prog" && r.Accepted {
					res.AcceptedIdx = append(res.AcceptedIdx, int64(u.lo)+idx)
				}
				record(in, idx, in.text, false, &r)
				if r.ParsedOK {
					res.ParsedOK++
				}
				if in.ctx != nil && !in.noCheck && r.ParsedOK && len(r.Crashes) == 0 {
					full := joinUnit(in.text, in.ctx)
					r2 := eval(idx, 1, func() result {
						return pipeline([]srcFile{{Name: "in.wuffs", Src: full}}, e.useRes, false)
					})
					record(in, idx, full, true, &r2)
					if idx == 0 && u.kind == "decl" && u.lo == 0 {
						res.BaseOK = -1
						if r2.Accepted {
							res.BaseOK = 1
						}
					}
					r = r2
				}
				if res.Sample == "" && (idx == 7 || u.kind == "nest") {
					res.Sample = fmt.Sprintf("%s -> %s", in.desc(), r.Class)
				}
				return true
			})
		}
		if u.heavy {
			debug.SetGCPercent(100)
			debug.FreeOSMemory()
		}
		atomic.StoreInt64(&curUnit, -1)
		atomic.StoreInt64(&cells[0], -1)
		res.CPUMillis = cpuMillis() - cpu0
		b, _ := json.Marshal(res)
		out.Write(b)
		out.WriteByte('\n')
		out.Flush()
	}
}
