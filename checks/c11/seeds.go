package main

// Seeds: every .wuffs file of the tree under check, split into top-level
// declarations. A "decl unit" is one declaration (the mutation target) plus a
// reduced rest-of-package (all structs and statuses, the consts it needs, and
// the other functions with their bodies emptied) so that a mutant that parses
// can be type/bounds-checked at a cost proportional to the target, not to the
// package. The reduction is validated at start-up: the unmutated unit must be
// accepted by check.Check, else the unit falls back to the full package.

import (
	"bytes"
	"fmt"
	"path/filepath"

	"verif/internal/ev"

	t "github.com/google/wuffs/lang/token"
)

type span struct {
	off, end int
	id       t.ID
}

// spansOf recovers byte offsets for the tokens that token.Tokenize reports
// (implicit semicolons have no text and are dropped). Any disagreement between
// the token's text and the source at the computed offset is a harness error.
func spansOf(tm *t.Map, name string, src []byte) ([]span, error) {
	toks, _, err := t.Tokenize(tm, name, src)
	if err != nil {
		return nil, err
	}
	out := make([]span, 0, len(toks))
	pos := 0
	skip := func() {
		for pos < len(src) {
			if src[pos] <= ' ' {
				pos++
			} else if src[pos] == '/' && pos+1 < len(src) && src[pos+1] == '/' {
				for pos < len(src) && src[pos] != '\n' {
					pos++
				}
			} else {
				break
			}
		}
	}
	for _, tok := range toks {
		skip()
		s := tm.ByID(tok.ID)
		if tok.ID == t.IDSemicolon && (pos >= len(src) || src[pos] != ';') {
			continue // implicit
		}
		if !bytes.HasPrefix(src[pos:], []byte(s)) {
			return nil, fmt.Errorf("span recovery lost sync in %s at byte %d: token %q", name, pos, s)
		}
		out = append(out, span{pos, pos + len(s), tok.ID})
		pos += len(s)
	}
	skip()
	if pos != len(src) {
		return nil, fmt.Errorf("span recovery: %d trailing bytes in %s", len(src)-pos, name)
	}
	return out, nil
}

type decl struct {
	file     string
	kind     string // use | const | status | struct | func | other
	name     string // const/struct/status name, or func name
	recv     string
	public   bool
	text     []byte // whole lines, from the line of the first token up to the next decl
	spans    []span // relative to text
	bodyOpen int    // func: index in spans of the body's "{" (-1 if none)
	idents   map[string]bool
}

func (d *decl) stub() []byte {
	if d.kind != "func" || d.bodyOpen < 0 {
		return d.text
	}
	var b []byte
	b = append(b, d.text[:d.spans[d.bodyOpen].off]...)
	b = append(b, "{\n}\n"...)
	return b
}

func depthDelta(id t.ID) int {
	switch id {
	case t.IDOpenParen, t.IDOpenBracket, t.IDOpenCurly, t.IDOpenDoubleCurly:
		return 1
	case t.IDCloseParen, t.IDCloseBracket, t.IDCloseCurly, t.IDCloseDoubleCurly:
		return -1
	}
	return 0
}

// splitDecls cuts one file into declarations.
func splitDecls(tm *t.Map, f srcFile) ([]*decl, error) {
	sp, err := spansOf(tm, f.Name, f.Src)
	if err != nil {
		return nil, err
	}
	var starts []int
	depth := 0
	for i, s := range sp {
		if depth == 0 && (s.id == t.IDPub || s.id == t.IDPri || s.id == t.IDUse) {
			starts = append(starts, i)
		}
		depth += depthDelta(s.id)
	}
	if depth != 0 {
		return nil, fmt.Errorf("%s: unbalanced brackets in a seed", f.Name)
	}
	lineStart := func(off int) int {
		for off > 0 && f.Src[off-1] != '\n' {
			off--
		}
		return off
	}
	var out []*decl
	for k, st := range starts {
		a := lineStart(sp[st].off)
		if k == 0 {
			a = lineStart(sp[st].off) // the file header (comments) is dropped
		}
		e, endTok := len(f.Src), len(sp)
		if k+1 < len(starts) {
			e, endTok = lineStart(sp[starts[k+1]].off), starts[k+1]
		}
		if a > sp[st].off || e < sp[endTok-1].end {
			return nil, fmt.Errorf("%s: declaration %d does not start on its own line", f.Name, k)
		}
		d := &decl{file: f.Name, text: f.Src[a:e], bodyOpen: -1, idents: map[string]bool{}, kind: "other"}
		for _, s := range sp[st:endTok] {
			d.spans = append(d.spans, span{s.off - a, s.end - a, s.id})
			if s.id.IsIdent(tm) {
				d.idents[tm.ByID(s.id)] = true
			}
		}
		tok := func(i int) string {
			if i < len(d.spans) {
				return tm.ByID(d.spans[i].id)
			}
			return ""
		}
		d.public = d.spans[0].id == t.IDPub
		switch {
		case d.spans[0].id == t.IDUse:
			d.kind, d.name = "use", tok(1)
		case tok(1) == "const":
			d.kind, d.name = "const", tok(2)
		case tok(1) == "status":
			d.kind, d.name = "status", tok(2)
		case tok(1) == "struct":
			d.kind, d.name = "struct", tok(2)
		case tok(1) == "func":
			d.kind = "func"
			if tok(3) == "." {
				d.recv, d.name = tok(2), tok(4)
			} else {
				d.name = tok(2)
			}
			dep := 0
			for i, s := range d.spans {
				if dep == 0 && s.id == t.IDOpenCurly {
					d.bodyOpen = i
					break
				}
				dep += depthDelta(s.id)
			}
		}
		out = append(out, d)
	}
	return out, nil
}

// declUnit is a mutation target with its context.
type declUnit struct {
	pkg     string
	target  *decl
	tindex  int    // index of the target among the package's declarations
	context []byte // appended after the (mutated) target for the check stage
	reduced bool   // context is the reduced package (else: every other declaration in full)
}

func (u *declUnit) name() string {
	return fmt.Sprintf("%s#%d(%s %s)", filepath.Base(u.target.file), u.tindex, u.target.kind, u.target.name)
}

// buildDeclUnits splits every seed package. useRes is used to validate that the
// unmutated unit is accepted.
func buildDeclUnits(pkgs []seedPkg, useRes useResolver, validate bool) (units []*declUnit, nReduced, nFull, nRejected int) {
	for _, p := range pkgs {
		tm := &t.Map{}
		var decls []*decl
		for _, f := range p.Files {
			ds, err := splitDecls(tm, f)
			if err != nil {
				ev.Fatal("seed split: %v", err)
			}
			// self-check: the pieces tile the file from the first declaration on
			if len(ds) > 0 {
				var cat []byte
				for _, d := range ds {
					cat = append(cat, d.text...)
				}
				if !bytes.HasSuffix(f.Src, cat) {
					ev.Fatal("seed split: pieces of %s do not tile the file", f.Name)
				}
			}
			decls = append(decls, ds...)
		}
		for ti, target := range decls {
			needed := map[string]bool{}
			addIdents := func(d *decl) {
				for k := range d.idents {
					needed[k] = true
				}
			}
			in := make([]bool, len(decls))
			stubbed := make([]bool, len(decls))
			in[ti] = true
			addIdents(target)
			for i, d := range decls {
				switch d.kind {
				case "use", "status", "struct", "other":
					in[i] = true
					addIdents(d)
				case "func":
					if i != ti && d.public {
						in[i], stubbed[i] = true, true
					}
				}
			}
			for changed := true; changed; {
				changed = false
				for i, d := range decls {
					if in[i] {
						continue
					}
					if (d.kind == "const" || d.kind == "func") && needed[d.name] {
						in[i], changed = true, true
						if d.kind == "func" {
							stubbed[i] = true
							// only the signature's identifiers matter
							for _, s := range d.spans[:maxInt(d.bodyOpen, 0)] {
								if s.id.IsIdent(tm) {
									needed[tm.ByID(s.id)] = true
								}
							}
						} else {
							addIdents(d)
						}
					}
				}
				// signatures of the stubs that were added up front
				for i, d := range decls {
					if in[i] && stubbed[i] && d.bodyOpen > 0 {
						for _, s := range d.spans[:d.bodyOpen] {
							if s.id.IsIdent(tm) && !needed[tm.ByID(s.id)] {
								needed[tm.ByID(s.id)] = true
								changed = true
							}
						}
					}
				}
			}
			var ctx []byte
			for i, d := range decls {
				if !in[i] || i == ti {
					continue
				}
				if stubbed[i] {
					ctx = append(ctx, d.stub()...)
				} else {
					ctx = append(ctx, d.text...)
				}
			}
			u := &declUnit{pkg: p.Dir, target: target, tindex: ti, context: ctx, reduced: true}
			if validate {
				r := pipeline([]srcFile{{Name: "unit.wuffs", Src: joinUnit(target.text, ctx)}}, useRes, false)
				if !r.Accepted {
					var full []byte
					for i, d := range decls {
						if i != ti {
							full = append(full, d.text...)
						}
					}
					u.context, u.reduced = full, false
					r = pipeline([]srcFile{{Name: "unit.wuffs", Src: joinUnit(target.text, full)}}, useRes, false)
					if !r.Accepted {
						nRejected++
					} else {
						nFull++
					}
				} else {
					nReduced++
				}
			}
			units = append(units, u)
		}
	}
	return
}

func joinUnit(target, ctx []byte) []byte {
	b := make([]byte, 0, len(target)+len(ctx)+1)
	b = append(b, target...)
	b = append(b, '\n')
	b = append(b, ctx...)
	return b
}

func maxInt(a, b int) int {
	if a > b {
		return a
	}
	return b
}
