// Self-check of the oracle (run at every start; a mismatch is a HARNESS-ERROR,
// never a violation):
//
//	checksums  my CRC-32 / Adler-32 == hash/crc32, hash/adler32
//	inflate    my inflate == input for compress/zlib output at levels 0,1,6,9,HuffmanOnly
//	framing    for a small image, EVERY partition of the raw data into stored blocks x
//	           EVERY 2-way split of the zlib stream over IDATs (+ 1-byte IDATs, empty
//	           IDATs, empty blocks, ancillary chunks), with arbitrary filter types 0..4:
//	           walker and image/png.Decode both accept and agree pixel for pixel
//	encoders   image/png.Encode output (all 6 Go image types, 3 compression levels)
//	           walks fine and gives the source pixels
//	rejection  named corruptions (re-CRC'd where needed) are rejected with the expected
//	           clause; every proper prefix and every single-bit flip of a valid file is
//	           rejected
//	oracle     checkOutput passes equal pixels (also RGBX delivered as opaque RGBA) and
//	           flags a one-sample difference, for every format
package main

import (
	"bytes"
	"compress/flate"
	"compress/zlib"
	"encoding/binary"
	"hash/adler32"
	"hash/crc32"
	"image"
	"image/png"
	"strings"

	"verif/internal/ev"
)

func scBytes(n, seed int) []byte {
	b := make([]byte, n)
	for i := range b {
		b[i] = posCode(seed, i)
	}
	return b
}

// scChunk builds one chunk with the STANDARD LIBRARY's CRC.
func scChunk(typ string, body []byte) []byte {
	var b []byte
	b = binary.BigEndian.AppendUint32(b, uint32(len(body)))
	b = append(b, typ...)
	b = append(b, body...)
	return binary.BigEndian.AppendUint32(b, crc32.ChecksumIEEE(b[4:]))
}

func scIHDR(w, h, depth, ct int) []byte {
	var b []byte
	b = binary.BigEndian.AppendUint32(b, uint32(w))
	b = binary.BigEndian.AppendUint32(b, uint32(h))
	return append(b, byte(depth), byte(ct), 0, 0, 0)
}

// scStoredZlib frames raw as stored blocks of the given sizes (sum == len(raw)).
func scStoredZlib(raw []byte, sizes []int) []byte {
	z := []byte{0x78, 0x01}
	p := 0
	for i, n := range sizes {
		fin := byte(0)
		if i == len(sizes)-1 {
			fin = 1
		}
		z = append(z, fin, byte(n), byte(n>>8), ^byte(n), ^byte(n>>8))
		z = append(z, raw[p:p+n]...)
		p += n
	}
	return binary.BigEndian.AppendUint32(z, adler32.Checksum(raw))
}

// scPNG assembles a file: IHDR, extra chunks, the zlib stream cut at the given
// offsets into IDATs, IEND.
func scPNG(ihdr []byte, z []byte, cuts []int, textBefore, textAfter bool) []byte {
	out := []byte("\x89PNG\r\n\x1a\n")
	out = append(out, scChunk("IHDR", ihdr)...)
	if textBefore {
		out = append(out, scChunk("tEXt", []byte("k\x00v"))...)
	}
	prev := 0
	for _, c := range append(append([]int{}, cuts...), len(z)) {
		out = append(out, scChunk("IDAT", z[prev:c])...)
		prev = c
	}
	if textAfter {
		out = append(out, scChunk("tIME", []byte{7, 232, 1, 1, 0, 0, 0})...)
	}
	return append(out, scChunk("IEND", nil)...)
}

// scAgree: both decoders accept and agree on every pixel.
func scAgree(what string, file []byte, ws *walkScratch) *pngInfo {
	info, we := walkPNG(file, ws)
	img, derr := png.Decode(bytes.NewReader(file))
	if we != nil || derr != nil {
		ev.Fatal("self-check %s: walker=%v image/png=%v", what, we, derr)
	}
	b := img.Bounds()
	if b.Dx() != info.W || b.Dy() != info.H || !info.comparable() {
		ev.Fatal("self-check %s: dimensions %v vs %dx%d", what, b, info.W, info.H)
	}
	for y := 0; y < info.H; y++ {
		for x := 0; x < info.W; x++ {
			g, ok := got16(img, x, y)
			if w := info.sample16(x, y); !ok || g != w {
				ev.Fatal("self-check %s: pixel (%d,%d) image/png=%04X walker=%04X (%T)", what, x, y, g, w, img)
			}
		}
	}
	return info
}

func scReject(what string, file []byte, ws *walkScratch, clauses ...string) {
	_, we := walkPNG(file, ws)
	if we == nil {
		ev.Fatal("self-check rejection %s: walker accepts", what)
	}
	if len(clauses) == 0 {
		return
	}
	for _, c := range clauses {
		if we.Clause == c || (strings.HasSuffix(c, "*") && strings.HasPrefix(we.Clause, strings.TrimSuffix(c, "*"))) {
			return
		}
	}
	ev.Fatal("self-check rejection %s: walker says %q (%s), expected one of %v", what, we.Clause, we.Detail, clauses)
}

func selfCheck() {
	ws := &walkScratch{}

	// -- checksums
	for _, n := range []int{0, 1, 2, 7, 8, 9, 63, 64, 65, 5552, 5553, 65536 + 3, 300000} {
		for _, b := range [][]byte{scBytes(n, 1), bytes.Repeat([]byte{0xFF}, n)} {
			if myCRC32(b) != crc32.ChecksumIEEE(b) || myCRC32Bytewise(b) != crc32.ChecksumIEEE(b) {
				ev.Fatal("self-check: CRC-32 differs from hash/crc32 (n=%d)", n)
			}
			if myAdler32(b) != adler32.Checksum(b) {
				ev.Fatal("self-check: Adler-32 differs from hash/adler32 (n=%d)", n)
			}
		}
	}

	// -- inflate against compress/zlib
	blockTypes := map[int]int{}
	smooth := make([]byte, 70000)
	for i := range smooth {
		smooth[i] = byte(i / 300)
	}
	for _, in := range [][]byte{nil, {0}, scBytes(100, 2), scBytes(70000, 3), smooth, bytes.Repeat([]byte("abcabcabd"), 9000), bytes.Repeat([]byte{0xFF}, 200000)} {
		for _, lvl := range []int{zlib.NoCompression, zlib.BestSpeed, zlib.DefaultCompression, zlib.BestCompression, flate.HuffmanOnly} {
			var buf bytes.Buffer
			zw, _ := zlib.NewWriterLevel(&buf, lvl)
			// several Write+Flush calls so that sync-flush empty stored blocks appear too
			half := len(in) / 2
			zw.Write(in[:half])
			zw.Flush()
			zw.Write(in[half:])
			zw.Close()
			raw, blocks, e := walkZlib(buf.Bytes(), len(in), nil)
			if e != nil || !bytes.Equal(raw, in) {
				ev.Fatal("self-check: inflate of compress/zlib level %d output (len %d): %v, equal=%v", lvl, len(in), e, bytes.Equal(raw, in))
			}
			for _, b := range blocks {
				blockTypes[b.Type]++
			}
			// one byte too few allowed -> must be refused
			if len(in) > 0 {
				if _, _, e := walkZlib(buf.Bytes(), len(in)-1, nil); e == nil || e.Clause != "inflated-size" {
					ev.Fatal("self-check: inflate does not enforce the output bound")
				}
			}
		}
	}
	if blockTypes[0] == 0 || blockTypes[1] == 0 || blockTypes[2] == 0 {
		ev.Fatal("self-check: compress/zlib corpus did not exercise all three block types: %v", blockTypes)
	}

	// -- framing: every stored-block partition x every 2-way IDAT split
	{
		// gray8 3x3 with filter types 0,1,4 ; rgb8 2x3 with 2,3,1 ; rgba16 1x2 with 4,3
		type img struct {
			w, h, depth, ct int
			raw             []byte
		}
		imgs := []img{
			{3, 3, 8, 0, []byte{0, 10, 200, 31, 1, 5, 250, 9, 4, 77, 3, 180}},
			{2, 3, 8, 2, append([]byte{2}, append(append(scBytes(6, 5), 3), append(scBytes(6, 6), append([]byte{1}, scBytes(6, 7)...)...)...)...)},
			{1, 2, 16, 6, append([]byte{4}, append(scBytes(8, 8), append([]byte{3}, scBytes(8, 9)...)...)...)},
			{5, 1, 16, 0, append([]byte{1}, scBytes(10, 10)...)},
			{2, 2, 8, 4, []byte{4, 1, 2, 3, 4, 2, 9, 8, 7, 6}},
			{2, 2, 8, 6, append([]byte{0}, append(scBytes(8, 11), append([]byte{4}, scBytes(8, 12)...)...)...)},
			{2, 1, 16, 2, append([]byte{1}, scBytes(12, 13)...)},
		}
		nFramings := 0
		for ii, im := range imgs {
			n := len(im.raw)
			ihdr := scIHDR(im.w, im.h, im.depth, im.ct)
			var ref *pngInfo
			var refPix []byte
			maxMask := 1 << uint(n-1)
			stepMask := 1
			if n > 13 {
				stepMask = (maxMask / 4096) | 1 // odd stride through the partitions of long rows
			}
			for mask := 0; mask < maxMask; mask += stepMask {
				var sizes []int
				last := 0
				for i := 1; i < n; i++ {
					if mask>>(uint(i-1))&1 == 1 {
						sizes = append(sizes, i-last)
						last = i
					}
				}
				sizes = append(sizes, n-last)
				if mask%5 == 1 {
					sizes = append([]int{0}, sizes...) // leading empty block
				}
				if mask%7 == 2 {
					sizes = append(sizes, 0) // trailing empty final block
				}
				z := scStoredZlib(im.raw, sizes)
				var cutSets [][]int
				if mask%16 == 0 || mask == maxMask-1 {
					for c := 0; c <= len(z); c++ {
						cutSets = append(cutSets, []int{c})
					}
					all := []int{}
					for c := 1; c < len(z); c++ {
						all = append(all, c)
					}
					cutSets = append(cutSets, all, []int{0, 0, 3, 3, 3, len(z), len(z)})
				} else {
					cutSets = [][]int{nil, {mask % (len(z) + 1)}}
				}
				for ci, cuts := range cutSets {
					file := scPNG(ihdr, z, cuts, ci%2 == 1, ci%3 == 1)
					info := scAgree("framing", file, ws)
					nFramings++
					if len(info.Blocks) != len(sizes) || len(info.IDATLens) != len(cuts)+1 {
						ev.Fatal("self-check framing: walker reports %d blocks / %d IDATs, built %d / %d", len(info.Blocks), len(info.IDATLens), len(sizes), len(cuts)+1)
					}
					if ref == nil {
						ref = info
						refPix = append([]byte{}, info.Pix...)
					} else if !bytes.Equal(refPix, info.Pix) {
						ev.Fatal("self-check framing: pixels depend on the framing (image %d)", ii)
					}
				}
			}
			// the same raw data through compress/zlib at level 9 and HuffmanOnly
			for _, lvl := range []int{zlib.BestCompression, flate.HuffmanOnly} {
				var buf bytes.Buffer
				zw, _ := zlib.NewWriterLevel(&buf, lvl)
				zw.Write(im.raw)
				zw.Close()
				info := scAgree("framing/compressed", scPNG(ihdr, buf.Bytes(), []int{1}, false, false), ws)
				if !bytes.Equal(refPix, info.Pix) {
					ev.Fatal("self-check framing: pixels differ for compressed framing")
				}
			}
		}
		if nFramings < 5000 {
			ev.Fatal("self-check framing: only %d framings", nFramings)
		}
	}

	// -- image/png.Encode output
	{
		filtersSeen := map[byte]bool{}
		for _, sz := range [][2]int{{1, 1}, {5, 3}, {64, 47}, {300, 200}} {
			w, h := sz[0], sz[1]
			r := image.Rect(0, 0, w, h)
			fill := func(pix []byte, opaqueEvery int, depth16 bool) {
				for i := range pix {
					pix[i] = byte(i/7) + byte((i%13)*(i%3))
				}
				if opaqueEvery > 0 {
					for i := 0; i+opaqueEvery <= len(pix); i += opaqueEvery {
						pix[i+opaqueEvery-1] = 0xFF
						if depth16 {
							pix[i+opaqueEvery-2] = 0xFF
						}
					}
				}
			}
			g, g16, rgba, rgba64, nrgba, nrgba64 := image.NewGray(r), image.NewGray16(r), image.NewRGBA(r), image.NewRGBA64(r), image.NewNRGBA(r), image.NewNRGBA64(r)
			fill(g.Pix, 0, false)
			fill(g16.Pix, 0, false)
			fill(rgba.Pix, 4, false)
			fill(rgba64.Pix, 8, true)
			fill(nrgba.Pix, 0, false)
			fill(nrgba64.Pix, 0, false)
			for _, src := range []image.Image{g, g16, rgba, rgba64, nrgba, nrgba64} {
				for _, lvl := range []png.CompressionLevel{png.NoCompression, png.BestSpeed, png.DefaultCompression} {
					var buf bytes.Buffer
					if err := (&png.Encoder{CompressionLevel: lvl}).Encode(&buf, src); err != nil {
						ev.Fatal("self-check: png.Encode: %v", err)
					}
					info, we := walkPNG(buf.Bytes(), ws)
					if we != nil || info.W != w || info.H != h || !info.comparable() {
						ev.Fatal("self-check: walker on image/png.Encode output (%T %dx%d): %v", src, w, h, we)
					}
					for y := 0; y < h; y++ {
						filtersSeen[info.Raw[y*(info.RowBytes+1)]] = true
						for x := 0; x < w; x++ {
							want, _ := got16(src, x, y)
							if got := info.sample16(x, y); got != want {
								ev.Fatal("self-check: walker pixel (%d,%d) of image/png.Encode output (%T): %04X, source %04X", x, y, src, got, want)
							}
						}
					}
				}
			}
		}
		_ = filtersSeen // all five filter types are covered deterministically by the framing images above
	}

	// -- rejections
	{
		raw := []byte{0, 10, 200, 31, 0, 5, 250, 9, 0, 77, 3, 180} // gray8 3x3, filter 0
		ihdr := scIHDR(3, 3, 8, 0)
		z := scStoredZlib(raw, []int{5, 7})
		good := scPNG(ihdr, z, []int{2 + 5 + 5}, false, false)
		scAgree("rejection base", good, ws)
		mod := func(f func(z []byte) []byte) []byte {
			return scPNG(ihdr, f(append([]byte{}, z...)), []int{12}, false, false)
		}
		scReject("signature", append([]byte{0x88}, good[1:]...), ws, "signature")
		{
			b := append([]byte{}, good...)
			b[8+25+8+3] ^= 1 // a byte inside the first IDAT, CRC left alone
			scReject("crc", b, ws, "chunk-crc")
		}
		scReject("LEN without NLEN", mod(func(z []byte) []byte { z[3] = 4; return z }), ws, "stored-len-nlen")
		scReject("NLEN without LEN", mod(func(z []byte) []byte { z[5] ^= 0x10; return z }), ws, "stored-len-nlen")
		scReject("BFINAL on the first block", mod(func(z []byte) []byte { z[2] = 1; return z }), ws, "adler32", "zlib-trailing-bytes", "inflated-size")
		scReject("no BFINAL on the last block", mod(func(z []byte) []byte { z[2+5+5] = 0; return z }), ws, "deflate-*", "stored-len-nlen", "inflated-size")
		scReject("BTYPE 3", mod(func(z []byte) []byte { z[2] = 6; return z }), ws, "deflate-btype-3")
		scReject("adler", mod(func(z []byte) []byte { z[len(z)-1] ^= 1; return z }), ws, "adler32")
		scReject("adler halves swapped", mod(func(z []byte) []byte {
			n := len(z)
			z[n-4], z[n-3], z[n-2], z[n-1] = z[n-2], z[n-1], z[n-4], z[n-3]
			return z
		}), ws, "adler32")
		scReject("zlib FLG", mod(func(z []byte) []byte { z[1]++; return z }), ws, "zlib-header")
		scReject("zlib CM", mod(func(z []byte) []byte { z[0] = 0x79; z[1] = 0; return z }), ws, "zlib-header")
		scReject("byte after the Adler-32", mod(func(z []byte) []byte { return append(z, 0) }), ws, "zlib-trailing-bytes")
		scReject("adler missing", mod(func(z []byte) []byte { return z[:len(z)-4] }), ws, "adler-missing")
		scReject("one raw byte short", scPNG(ihdr, scStoredZlib(raw[:11], []int{11}), nil, false, false), ws, "inflated-size")
		scReject("one raw byte long", scPNG(ihdr, scStoredZlib(append(append([]byte{}, raw...), 0), []int{13}), nil, false, false), ws, "inflated-size")
		scReject("one row short", scPNG(ihdr, scStoredZlib(raw[:8], []int{8}), nil, false, false), ws, "inflated-size")
		{
			bad := append([]byte{}, raw...)
			bad[4] = 5
			scReject("filter type 5", scPNG(ihdr, scStoredZlib(bad, []int{12}), nil, false, false), ws, "filter-type")
		}
		scReject("byte after IEND", append(append([]byte{}, good...), 0), ws, "bytes-after-IEND", "chunk-truncated")
		scReject("second IEND", append(append([]byte{}, good...), scChunk("IEND", nil)...), ws, "bytes-after-IEND")
		scReject("no IEND", good[:len(good)-12], ws, "no-IEND")
		{
			f := []byte("\x89PNG\r\n\x1a\n")
			f = append(f, scChunk("IHDR", ihdr)...)
			f = append(f, scChunk("IDAT", z[:12])...)
			f = append(f, scChunk("tEXt", []byte("k\x00v"))...)
			f = append(f, scChunk("IDAT", z[12:])...)
			f = append(f, scChunk("IEND", nil)...)
			scReject("IDATs not consecutive", f, ws, "chunk-order")
			f = []byte("\x89PNG\r\n\x1a\n")
			f = append(f, scChunk("IDAT", z)...)
			f = append(f, scChunk("IHDR", ihdr)...)
			f = append(f, scChunk("IEND", nil)...)
			scReject("IDAT before IHDR", f, ws, "chunk-order")
			f = []byte("\x89PNG\r\n\x1a\n")
			f = append(f, scChunk("IHDR", ihdr)...)
			f = append(f, scChunk("IDA\x00", z)...)
			f = append(f, scChunk("IEND", nil)...)
			scReject("chunk type with a NUL", f, ws, "chunk-type")
			f = []byte("\x89PNG\r\n\x1a\n")
			f = append(f, scChunk("IHDR", ihdr)...)
			f = append(f, scChunk("IDAT", z)...)
			f = append(f, scChunk("IEND", []byte{0})...)
			scReject("IEND with payload", f, ws, "iend")
			f = []byte("\x89PNG\r\n\x1a\n")
			f = append(f, scChunk("IHDR", ihdr)...)
			f = append(f, scChunk("IEND", nil)...)
			scReject("no IDAT", f, ws, "chunk-order")
		}
		scReject("IHDR width 0", scPNG(scIHDR(0, 3, 8, 0), z, nil, false, false), ws, "ihdr")
		scReject("IHDR depth 3", scPNG(scIHDR(3, 3, 3, 0), z, nil, false, false), ws, "ihdr")
		scReject("IHDR wider", scPNG(scIHDR(4, 3, 8, 0), z, nil, false, false), ws, "inflated-size")
		scReject("IHDR taller", scPNG(scIHDR(3, 4, 8, 0), z, nil, false, false), ws, "inflated-size")
		for n := 0; n < len(good); n++ {
			scReject("prefix", good[:n], ws)
		}
		for i := 0; i < len(good)*8; i++ {
			b := append([]byte{}, good...)
			b[i/8] ^= 1 << uint(i%8)
			scReject("bit flip", b, ws)
		}
	}

	// -- the whole oracle
	{
		st := newWstate()
		for _, f := range formats {
			c := Call{Format: f.name, W: 3, H: 2, StrideExtra: 1, Content: "pos:9"}
			pix, stride, _ := buildPix(c, f, nil)
			build := func(pix []byte, ct, depth int, alpha byte) []byte {
				var raw []byte
				sb := int(f.depth) / 8
				for y := 0; y < c.H; y++ {
					raw = append(raw, 0)
					for x := 0; x < c.W; x++ {
						o := y*stride + x*f.inBPP
						switch {
						case ct == f.natCT:
							raw = append(raw, pix[o:o+f.outBPP]...)
						case ct == 6 && f.natCT == 2: // RGBX delivered as RGBA with the given alpha
							raw = append(raw, pix[o:o+f.outBPP]...)
							for k := 0; k < sb; k++ {
								raw = append(raw, alpha)
							}
						}
					}
				}
				return scPNG(scIHDR(c.W, c.H, depth, ct), scStoredZlib(raw, []int{len(raw)}), nil, false, false)
			}
			st.out = build(pix, f.natCT, f.natDepth, 0)
			if _, fl := checkOutput(st, c, f, pix, stride, false); fl != nil {
				ev.Fatal("self-check oracle: correct %s output refused: %s %s", f.name, fl.Clause, fl.Detail)
			}
			// one sample changed (every sample position in turn, X channel excluded)
			for y := 0; y < c.H; y++ {
				for i := 0; i < f.inBPP*c.W; i++ {
					isX := f.natCT == 2 && (i%f.inBPP) >= f.outBPP
					p2 := append([]byte{}, pix...)
					p2[y*stride+i] ^= 0x40
					st.out = build(p2, f.natCT, f.natDepth, 0)
					_, fl := checkOutput(st, c, f, pix, stride, false)
					if isX && fl != nil {
						ev.Fatal("self-check oracle: %s X channel is compared", f.name)
					}
					if !isX && (fl == nil || !strings.HasSuffix(fl.Clause, "pixel-mismatch")) {
						ev.Fatal("self-check oracle: %s changed byte %d of row %d not flagged (%v)", f.name, i, y, fl)
					}
				}
			}
			// padding bytes must not matter
			p2 := append([]byte{}, pix...)
			p2[f.inBPP*c.W] ^= 0xFF
			st.out = build(pix, f.natCT, f.natDepth, 0)
			if _, fl := checkOutput(st, c, f, p2, stride, false); fl != nil {
				ev.Fatal("self-check oracle: %s padding byte is compared", f.name)
			}
			if f.natCT == 2 {
				st.out = build(pix, 6, f.natDepth, 0xFF)
				if _, fl := checkOutput(st, c, f, pix, stride, false); fl != nil {
					ev.Fatal("self-check oracle: RGBX as opaque RGBA refused: %s %s", fl.Clause, fl.Detail)
				}
				st.out = build(pix, 6, f.natDepth, 0xFE)
				if _, fl := checkOutput(st, c, f, pix, stride, false); fl == nil {
					ev.Fatal("self-check oracle: RGBX with non-opaque alpha accepted")
				}
			}
			// wrong dimensions
			c2 := Call{Format: f.name, W: 2, H: 3, StrideExtra: 1, Content: "pos:9"}
			pix2, stride2, _ := buildPix(c2, f, nil)
			st.out = build(pix, f.natCT, f.natDepth, 0)
			if _, fl := checkOutput(st, c2, f, pix2, stride2, false); fl == nil || !strings.HasSuffix(fl.Clause, "dimensions") {
				ev.Fatal("self-check oracle: transposed dimensions not flagged (%v)", fl)
			}
		}
	}
}
