// Independent PNG / zlib / DEFLATE validator ("walker"), written from
// the PNG specification (W3C REC-PNG-20031110), RFC 1950 and RFC 1951. It shares
// no code with lib/uncompng, image/png, compress/zlib or hash/*.
//
// It accepts ANY spec-valid framing: zlib data split over IDAT chunks at any
// byte, any number of (possibly empty) IDAT chunks, any number of DEFLATE
// blocks per IDAT, stored / fixed / dynamic blocks, any filter type, ancillary
// chunks. It rejects: bad signature, bad chunk length / type / CRC, missing or
// misplaced IHDR / IDAT / IEND, bytes after IEND, bad zlib header, stored block
// with LEN != ~NLEN, stream ending without a BFINAL block, bytes between the
// final block and the Adler-32 or after it, wrong Adler-32, wrong inflated size,
// bad filter type.
package main

import (
	"fmt"
)

// ---- checksums --------------------------------------------------------------

var crcTab = func() (t [256]uint32) {
	// PNG spec annex D: polynomial 0xEDB88320, reflected.
	for n := 0; n < 256; n++ {
		c := uint32(n)
		for k := 0; k < 8; k++ {
			if c&1 != 0 {
				c = 0xEDB88320 ^ (c >> 1)
			} else {
				c >>= 1
			}
		}
		t[n] = c
	}
	return
}()

// crcTab8 is a slicing-by-8 extension of crcTab (derived from it, so still
// independent of the encoder's literal table); validated against the bytewise
// form and against hash/crc32 in the self-check.
var crcTab8 = func() (t [8][256]uint32) {
	t[0] = crcTab
	for n := 0; n < 256; n++ {
		c := crcTab[n]
		for k := 1; k < 8; k++ {
			c = crcTab[c&0xFF] ^ (c >> 8)
			t[k][n] = c
		}
	}
	return
}()

func myCRC32Bytewise(b []byte) uint32 {
	c := uint32(0xFFFFFFFF)
	for _, v := range b {
		c = crcTab[(c^uint32(v))&0xFF] ^ (c >> 8)
	}
	return c ^ 0xFFFFFFFF
}

func myCRC32(b []byte) uint32 {
	c := uint32(0xFFFFFFFF)
	for len(b) >= 8 {
		c ^= uint32(b[0]) | uint32(b[1])<<8 | uint32(b[2])<<16 | uint32(b[3])<<24
		c = crcTab8[7][c&0xFF] ^ crcTab8[6][(c>>8)&0xFF] ^ crcTab8[5][(c>>16)&0xFF] ^ crcTab8[4][c>>24] ^
			crcTab8[3][b[4]] ^ crcTab8[2][b[5]] ^ crcTab8[1][b[6]] ^ crcTab8[0][b[7]]
		b = b[8:]
	}
	for _, v := range b {
		c = crcTab[(c^uint32(v))&0xFF] ^ (c >> 8)
	}
	return c ^ 0xFFFFFFFF
}

// myAdler32: RFC 1950 section 8.2, with 64-bit accumulators reduced every 2^16
// bytes (2^16 * 255 * 2^16 < 2^63: no overflow argument about 5552 needed).
func myAdler32(b []byte) uint32 {
	var s1, s2 uint64 = 1, 0
	for len(b) > 0 {
		n := len(b)
		if n > 1<<16 {
			n = 1 << 16
		}
		for _, v := range b[:n] {
			s1 += uint64(v)
			s2 += s1
		}
		s1 %= 65521
		s2 %= 65521
		b = b[n:]
	}
	return uint32(s2<<16 | s1)
}

// ---- errors -----------------------------------------------------------------

// walkErr carries a clause (stable class used in violation signatures) and a
// concrete detail.
type walkErr struct {
	Clause string
	Detail string
}

func (e *walkErr) Error() string { return e.Clause + ": " + e.Detail }

func werr(clause, format string, a ...any) *walkErr {
	return &walkErr{clause, fmt.Sprintf(format, a...)}
}

// ---- DEFLATE (RFC 1951) -----------------------------------------------------

type blockInfo struct {
	HeaderOff int  // byte offset (in the zlib stream) of the byte holding the block's first header bit
	Type      int  // 0 stored, 1 fixed, 2 dynamic
	Final     bool // BFINAL
	OutLen    int  // inflated bytes produced by this block
	OutStart  int  // offset of the block's first byte in the inflated data
}

type bitReader struct {
	d []byte
	p int // bit position
}

func (b *bitReader) bits(n int) (uint32, bool) {
	var v uint32
	for i := 0; i < n; i++ {
		by := b.p >> 3
		if by >= len(b.d) {
			return 0, false
		}
		v |= uint32((b.d[by]>>(uint(b.p)&7))&1) << uint(i)
		b.p++
	}
	return v, true
}

// huff is a canonical Huffman code in the count/symbol form of RFC 1951 3.2.2.
type huff struct {
	count [16]int
	sym   []int
}

// buildHuff returns (code, left) where left<0 means over-subscribed, left>0
// incomplete.
func buildHuff(lengths []int) (h huff, left int) {
	for _, l := range lengths {
		h.count[l]++
	}
	left = 1
	for l := 1; l <= 15; l++ {
		left <<= 1
		left -= h.count[l]
		if left < 0 {
			return h, left
		}
	}
	var offs [16]int
	for l := 1; l < 15; l++ {
		offs[l+1] = offs[l] + h.count[l]
	}
	h.sym = make([]int, len(lengths))
	for s, l := range lengths {
		if l != 0 {
			h.sym[offs[l]] = s
			offs[l]++
		}
	}
	if h.count[0] == len(lengths) {
		left = 0 // no codes at all; handled by the caller
	}
	return h, left
}

func (h *huff) decode(b *bitReader) (int, bool) {
	code, first, index := 0, 0, 0
	for l := 1; l <= 15; l++ {
		bit, ok := b.bits(1)
		if !ok {
			return 0, false
		}
		code |= int(bit)
		c := h.count[l]
		if code-c < first {
			return h.sym[index+(code-first)], true
		}
		index += c
		first += c
		first <<= 1
		code <<= 1
	}
	return -1, true // invalid code
}

var (
	lenBase  = [29]int{3, 4, 5, 6, 7, 8, 9, 10, 11, 13, 15, 17, 19, 23, 27, 31, 35, 43, 51, 59, 67, 83, 99, 115, 131, 163, 195, 227, 258}
	lenExtra = [29]int{0, 0, 0, 0, 0, 0, 0, 0, 1, 1, 1, 1, 2, 2, 2, 2, 3, 3, 3, 3, 4, 4, 4, 4, 5, 5, 5, 5, 0}
	dstBase  = [30]int{1, 2, 3, 4, 5, 7, 9, 13, 17, 25, 33, 49, 65, 97, 129, 193, 257, 385, 513, 769, 1025, 1537, 2049, 3073, 4097, 6145, 8193, 12289, 16385, 24577}
	dstExtra = [30]int{0, 0, 0, 0, 1, 1, 2, 2, 3, 3, 4, 4, 5, 5, 6, 6, 7, 7, 8, 8, 9, 9, 10, 10, 11, 11, 12, 12, 13, 13}
	clOrder  = [19]int{16, 17, 18, 0, 8, 7, 9, 6, 10, 5, 11, 4, 12, 3, 13, 2, 14, 1, 15}
)

var fixedLit, fixedDst = func() (huff, huff) {
	l := make([]int, 288)
	for i := range l {
		switch {
		case i < 144:
			l[i] = 8
		case i < 256:
			l[i] = 9
		case i < 280:
			l[i] = 7
		default:
			l[i] = 8
		}
	}
	d := make([]int, 30)
	for i := range d {
		d[i] = 5
	}
	a, _ := buildHuff(l)
	b, _ := buildHuff(d)
	return a, b
}()

// inflate decodes a raw DEFLATE stream starting at byte `start` of z. It returns
// the output, the block list and the byte offset just after the final block
// (rounded up to a byte boundary). window is the zlib LZ77 window size.
// maxOut bounds the output (a larger output is an error, to keep memory bounded).
func inflate(z []byte, start int, window int, maxOut int, out []byte) ([]byte, []blockInfo, int, *walkErr) {
	br := &bitReader{d: z, p: start * 8}
	var blocks []blockInfo
	out = out[:0]
	for {
		hdrOff := br.p >> 3
		final, ok := br.bits(1)
		if !ok {
			return out, blocks, 0, werr("deflate-no-final-block", "stream ends after %d blocks (%d bytes inflated) without a block with BFINAL=1", len(blocks), len(out))
		}
		typ, ok := br.bits(2)
		if !ok {
			return out, blocks, 0, werr("deflate-truncated", "stream ends inside a block header (block %d)", len(blocks))
		}
		bi := blockInfo{HeaderOff: hdrOff, Type: int(typ), Final: final == 1, OutStart: len(out)}
		switch typ {
		case 0:
			p := (br.p + 7) >> 3 // skip to the next byte boundary
			if p+4 > len(z) {
				return out, blocks, 0, werr("deflate-truncated", "stored block %d: LEN/NLEN cut off (zlib offset %d of %d)", len(blocks), p, len(z))
			}
			ln := int(z[p]) | int(z[p+1])<<8
			nln := int(z[p+2]) | int(z[p+3])<<8
			if ln != (^nln)&0xFFFF {
				return out, blocks, 0, werr("stored-len-nlen", "stored block %d at zlib offset %d: LEN=0x%04X NLEN=0x%04X are not complements", len(blocks), hdrOff, ln, nln)
			}
			p += 4
			if p+ln > len(z) {
				return out, blocks, 0, werr("deflate-truncated", "stored block %d at zlib offset %d: LEN=%d but only %d bytes follow", len(blocks), hdrOff, ln, len(z)-p)
			}
			if len(out)+ln > maxOut {
				return out, blocks, 0, werr("inflated-size", "inflated data exceeds the %d bytes the IHDR implies (at stored block %d)", maxOut, len(blocks))
			}
			out = append(out, z[p:p+ln]...)
			br.p = (p + ln) * 8
		case 1, 2:
			lit, dst := &fixedLit, &fixedDst
			if typ == 2 {
				var dl, dd huff
				if e := readDynamic(br, &dl, &dd); e != nil {
					return out, blocks, 0, e
				}
				lit, dst = &dl, &dd
			}
			for {
				s, ok := lit.decode(br)
				if !ok {
					return out, blocks, 0, werr("deflate-truncated", "stream ends inside compressed block %d", len(blocks))
				}
				if s < 0 || s > 285 {
					return out, blocks, 0, werr("deflate-bad-code", "invalid literal/length code in block %d", len(blocks))
				}
				if s < 256 {
					if len(out)+1 > maxOut {
						return out, blocks, 0, werr("inflated-size", "inflated data exceeds the %d bytes the IHDR implies", maxOut)
					}
					out = append(out, byte(s))
					continue
				}
				if s == 256 {
					break
				}
				s -= 257
				eb, ok := br.bits(lenExtra[s])
				if !ok {
					return out, blocks, 0, werr("deflate-truncated", "stream ends inside compressed block %d", len(blocks))
				}
				length := lenBase[s] + int(eb)
				ds, ok := dst.decode(br)
				if !ok {
					return out, blocks, 0, werr("deflate-truncated", "stream ends inside compressed block %d", len(blocks))
				}
				if ds < 0 || ds > 29 {
					return out, blocks, 0, werr("deflate-bad-code", "invalid distance code in block %d", len(blocks))
				}
				eb, ok = br.bits(dstExtra[ds])
				if !ok {
					return out, blocks, 0, werr("deflate-truncated", "stream ends inside compressed block %d", len(blocks))
				}
				dist := dstBase[ds] + int(eb)
				if dist > len(out) || dist > window {
					return out, blocks, 0, werr("deflate-bad-distance", "distance %d beyond start of data / window %d in block %d", dist, window, len(blocks))
				}
				if len(out)+length > maxOut {
					return out, blocks, 0, werr("inflated-size", "inflated data exceeds the %d bytes the IHDR implies", maxOut)
				}
				for i := 0; i < length; i++ {
					out = append(out, out[len(out)-dist])
				}
			}
		default:
			return out, blocks, 0, werr("deflate-btype-3", "block %d at zlib offset %d has reserved BTYPE=3", len(blocks), hdrOff)
		}
		bi.OutLen = len(out) - bi.OutStart
		blocks = append(blocks, bi)
		if bi.Final {
			return out, blocks, (br.p + 7) >> 3, nil
		}
	}
}

func readDynamic(br *bitReader, lit, dst *huff) *walkErr {
	hlit, ok1 := br.bits(5)
	hdist, ok2 := br.bits(5)
	hclen, ok3 := br.bits(4)
	if !ok1 || !ok2 || !ok3 {
		return werr("deflate-truncated", "stream ends inside a dynamic block header")
	}
	nlen, ndist, ncode := int(hlit)+257, int(hdist)+1, int(hclen)+4
	if nlen > 286 || ndist > 30 {
		return werr("deflate-bad-code", "dynamic block: HLIT/HDIST out of range")
	}
	cl := make([]int, 19)
	for i := 0; i < ncode; i++ {
		v, ok := br.bits(3)
		if !ok {
			return werr("deflate-truncated", "stream ends inside a dynamic block header")
		}
		cl[clOrder[i]] = int(v)
	}
	clh, left := buildHuff(cl)
	if left != 0 {
		return werr("deflate-bad-code", "dynamic block: code-length code is not complete")
	}
	lengths := make([]int, nlen+ndist)
	for i := 0; i < nlen+ndist; {
		s, ok := clh.decode(br)
		if !ok {
			return werr("deflate-truncated", "stream ends inside a dynamic block header")
		}
		if s < 0 {
			return werr("deflate-bad-code", "dynamic block: invalid code-length code")
		}
		if s < 16 {
			lengths[i] = s
			i++
			continue
		}
		prev, rep := 0, 0
		switch s {
		case 16:
			if i == 0 {
				return werr("deflate-bad-code", "dynamic block: repeat with no previous length")
			}
			prev = lengths[i-1]
			v, ok := br.bits(2)
			if !ok {
				return werr("deflate-truncated", "stream ends inside a dynamic block header")
			}
			rep = 3 + int(v)
		case 17:
			v, ok := br.bits(3)
			if !ok {
				return werr("deflate-truncated", "stream ends inside a dynamic block header")
			}
			rep = 3 + int(v)
		default:
			v, ok := br.bits(7)
			if !ok {
				return werr("deflate-truncated", "stream ends inside a dynamic block header")
			}
			rep = 11 + int(v)
		}
		if i+rep > nlen+ndist {
			return werr("deflate-bad-code", "dynamic block: repeat runs past the code lengths")
		}
		for ; rep > 0; rep-- {
			lengths[i] = prev
			i++
		}
	}
	if lengths[256] == 0 {
		return werr("deflate-bad-code", "dynamic block: no end-of-block code")
	}
	var left2 int
	*lit, left2 = buildHuff(lengths[:nlen])
	if left2 < 0 || (left2 > 0 && nlen-lit.count[0] != 1) {
		return werr("deflate-bad-code", "dynamic block: bad literal/length code")
	}
	*dst, left2 = buildHuff(lengths[nlen:])
	if left2 < 0 || (left2 > 0 && ndist-dst.count[0] != 1) {
		return werr("deflate-bad-code", "dynamic block: bad distance code")
	}
	return nil
}

// walkZlib validates a complete zlib stream (RFC 1950): header, DEFLATE blocks
// up to and including the first BFINAL one, Adler-32, and nothing after it.
func walkZlib(z []byte, maxOut int, rawBuf []byte) ([]byte, []blockInfo, *walkErr) {
	if len(z) < 2 {
		return rawBuf[:0], nil, werr("zlib-header", "zlib stream has %d bytes", len(z))
	}
	cmf, flg := z[0], z[1]
	if cmf&0x0F != 8 || cmf>>4 > 7 || (uint(cmf)<<8|uint(flg))%31 != 0 || flg&0x20 != 0 {
		return rawBuf[:0], nil, werr("zlib-header", "CMF=0x%02X FLG=0x%02X", cmf, flg)
	}
	window := 1 << (uint(cmf>>4) + 8)
	raw, blocks, end, e := inflate(z, 2, window, maxOut, rawBuf)
	if e != nil {
		return raw, blocks, e
	}
	if end+4 > len(z) {
		return raw, blocks, werr("adler-missing", "only %d bytes follow the final DEFLATE block; the Adler-32 needs 4", len(z)-end)
	}
	stored := be32(z[end:])
	if got := myAdler32(raw); got != stored {
		return raw, blocks, werr("adler32", "stored Adler-32 0x%08X, computed 0x%08X over %d inflated bytes", stored, got, len(raw))
	}
	if end+4 != len(z) {
		return raw, blocks, werr("zlib-trailing-bytes", "%d bytes follow the Adler-32 inside the IDAT data", len(z)-end-4)
	}
	return raw, blocks, nil
}

// ---- PNG --------------------------------------------------------------------

type pngInfo struct {
	W, H       int
	Depth, CT  int
	Interlace  int
	Chunks     []string // chunk types in order
	IDATLens   []int    // payload length of every IDAT
	Blocks     []blockInfo
	BlocksPer  []int  // number of DEFLATE block headers starting inside each IDAT
	Raw        []byte // inflated, still filtered, scanlines
	Pix        []byte // unfiltered samples, rowBytes*H, only when Interlace==0
	RowBytes   int
	AllFilter0 bool
	AfterIEND  int
}

func be32(b []byte) uint32 {
	return uint32(b[0])<<24 | uint32(b[1])<<16 | uint32(b[2])<<8 | uint32(b[3])
}

func isLetter(c byte) bool { return (c >= 'A' && c <= 'Z') || (c >= 'a' && c <= 'z') }

// walkScratch holds reusable buffers (one per worker).
type walkScratch struct {
	z, raw, pix []byte
}

// walkPNG validates data as a complete PNG datastream.
func walkPNG(data []byte, ws *walkScratch) (*pngInfo, *walkErr) {
	sig := [8]byte{137, 80, 78, 71, 13, 10, 26, 10}
	if len(data) < 8 {
		return nil, werr("signature", "only %d bytes written", len(data))
	}
	for i := range sig {
		if data[i] != sig[i] {
			return nil, werr("signature", "byte %d is 0x%02X", i, data[i])
		}
	}
	info := &pngInfo{}
	z := ws.z[:0]
	p := 8
	seenIHDR, seenIEND, seenPLTE := false, false, false
	idatState := 0 // 0 before, 1 inside the IDAT run, 2 after
	for p < len(data) {
		if seenIEND {
			return nil, werr("bytes-after-IEND", "%d bytes follow the IEND chunk", len(data)-p)
		}
		if len(data)-p < 12 {
			return nil, werr("chunk-truncated", "%d stray bytes at offset %d (a chunk needs at least 12)", len(data)-p, p)
		}
		ln := be32(data[p:])
		if ln > 0x7FFFFFFF {
			return nil, werr("chunk-length", "chunk at offset %d has length 0x%08X > 2^31-1", p, ln)
		}
		typ := data[p+4 : p+8]
		for _, c := range typ {
			if !isLetter(c) {
				return nil, werr("chunk-type", "chunk at offset %d has type bytes % X (not ASCII letters)", p, typ)
			}
		}
		if uint64(p)+12+uint64(ln) > uint64(len(data)) {
			return nil, werr("chunk-length", "chunk %q at offset %d claims %d payload bytes but only %d bytes remain in the file", typ, p, ln, len(data)-p-12)
		}
		body := data[p+8 : p+8+int(ln)]
		want := be32(data[p+8+int(ln):])
		if got := myCRC32(data[p+4 : p+8+int(ln)]); got != want {
			return nil, werr("chunk-crc", "chunk %q #%d at offset %d (length %d): stored CRC 0x%08X, computed 0x%08X", typ, len(info.Chunks), p, ln, want, got)
		}
		t := string(typ)
		info.Chunks = append(info.Chunks, t)
		if !seenIHDR && t != "IHDR" {
			return nil, werr("chunk-order", "first chunk is %q, not IHDR", t)
		}
		if idatState == 1 && t != "IDAT" {
			idatState = 2
		}
		switch t {
		case "IHDR":
			if seenIHDR {
				return nil, werr("chunk-order", "second IHDR")
			}
			seenIHDR = true
			if ln != 13 {
				return nil, werr("ihdr", "IHDR length %d", ln)
			}
			w, h := be32(body[0:]), be32(body[4:])
			if w == 0 || h == 0 || w > 0x7FFFFFFF || h > 0x7FFFFFFF {
				return nil, werr("ihdr", "dimensions %d x %d", w, h)
			}
			info.W, info.H = int(w), int(h)
			info.Depth, info.CT = int(body[8]), int(body[9])
			okDepth := false
			switch info.CT {
			case 0:
				okDepth = info.Depth == 1 || info.Depth == 2 || info.Depth == 4 || info.Depth == 8 || info.Depth == 16
			case 3:
				okDepth = info.Depth == 1 || info.Depth == 2 || info.Depth == 4 || info.Depth == 8
			case 2, 4, 6:
				okDepth = info.Depth == 8 || info.Depth == 16
			}
			if !okDepth {
				return nil, werr("ihdr", "colour type %d with bit depth %d", info.CT, info.Depth)
			}
			if body[10] != 0 || body[11] != 0 || body[12] > 1 {
				return nil, werr("ihdr", "compression %d filter %d interlace %d", body[10], body[11], body[12])
			}
			info.Interlace = int(body[12])
		case "PLTE":
			if seenPLTE || idatState != 0 || ln%3 != 0 || ln == 0 || ln > 768 || info.CT == 0 || info.CT == 4 {
				return nil, werr("plte", "misplaced or malformed PLTE (length %d, colour type %d)", ln, info.CT)
			}
			seenPLTE = true
		case "IDAT":
			if idatState == 2 {
				return nil, werr("chunk-order", "IDAT chunks are not consecutive (chunk #%d)", len(info.Chunks)-1)
			}
			idatState = 1
			info.IDATLens = append(info.IDATLens, int(ln))
			z = append(z, body...)
		case "IEND":
			if ln != 0 {
				return nil, werr("iend", "IEND length %d", ln)
			}
			seenIEND = true
		default:
			if typ[0]&0x20 == 0 {
				return nil, werr("chunk-type", "unknown critical chunk %q", t)
			}
		}
		p += 12 + int(ln)
	}
	ws.z = z
	if !seenIHDR {
		return nil, werr("chunk-order", "no IHDR")
	}
	if !seenIEND {
		return nil, werr("no-IEND", "datastream ends without IEND (chunks: %v)", summarise(info.Chunks))
	}
	if len(info.IDATLens) == 0 {
		return nil, werr("chunk-order", "no IDAT")
	}
	if info.CT == 3 && !seenPLTE {
		return nil, werr("plte", "colour type 3 without PLTE")
	}

	chans := 1
	switch info.CT {
	case 2:
		chans = 3
	case 4:
		chans = 2
	case 6:
		chans = 4
	}
	bitsPP := chans * info.Depth
	info.RowBytes = (info.W*bitsPP + 7) / 8
	expect := -1
	maxOut := 1 << 31
	if info.Interlace == 0 {
		expect = (info.RowBytes + 1) * info.H
		maxOut = expect
	}
	raw, blocks, e := walkZlib(z, maxOut, ws.raw)
	ws.raw = raw
	if e != nil {
		return nil, e
	}
	info.Blocks, info.Raw = blocks, raw
	// Which IDAT does every block header start in?
	info.BlocksPer = make([]int, len(info.IDATLens))
	{
		k, lim := 0, info.IDATLens[0]
		for _, b := range blocks {
			for b.HeaderOff >= lim && k+1 < len(info.IDATLens) {
				k++
				lim += info.IDATLens[k]
			}
			info.BlocksPer[k]++
		}
	}
	if info.Interlace != 0 {
		return info, nil
	}
	if len(raw) != expect {
		return nil, werr("inflated-size", "inflated data has %d bytes; %d x %d at %d bytes per row needs %d", len(raw), info.W, info.H, info.RowBytes+1, expect)
	}
	// Unfilter (PNG spec section 9).
	bpp := (bitsPP + 7) / 8
	rb := info.RowBytes
	if cap(ws.pix) < rb*info.H {
		ws.pix = make([]byte, rb*info.H)
	}
	pix := ws.pix[:rb*info.H]
	info.AllFilter0 = true
	for y := 0; y < info.H; y++ {
		ft := raw[y*(rb+1)]
		src := raw[y*(rb+1)+1 : (y+1)*(rb+1)]
		cur := pix[y*rb : (y+1)*rb]
		var up []byte
		if y > 0 {
			up = pix[(y-1)*rb : y*rb]
		}
		if ft != 0 {
			info.AllFilter0 = false
		}
		switch ft {
		case 0:
			copy(cur, src)
		case 1:
			for i := range cur {
				a := byte(0)
				if i >= bpp {
					a = cur[i-bpp]
				}
				cur[i] = src[i] + a
			}
		case 2:
			for i := range cur {
				b := byte(0)
				if up != nil {
					b = up[i]
				}
				cur[i] = src[i] + b
			}
		case 3:
			for i := range cur {
				a, b := 0, 0
				if i >= bpp {
					a = int(cur[i-bpp])
				}
				if up != nil {
					b = int(up[i])
				}
				cur[i] = src[i] + byte((a+b)/2)
			}
		case 4:
			for i := range cur {
				a, b, c := 0, 0, 0
				if i >= bpp {
					a = int(cur[i-bpp])
				}
				if up != nil {
					b = int(up[i])
					if i >= bpp {
						c = int(up[i-bpp])
					}
				}
				pp := a + b - c
				pa, pb, pc := abs(pp-a), abs(pp-b), abs(pp-c)
				pr := c
				if pa <= pb && pa <= pc {
					pr = a
				} else if pb <= pc {
					pr = b
				}
				cur[i] = src[i] + byte(pr)
			}
		default:
			return nil, werr("filter-type", "row %d has filter type %d", y, ft)
		}
	}
	info.Pix = pix
	return info, nil
}

func abs(x int) int {
	if x < 0 {
		return -x
	}
	return x
}

func summarise(chunks []string) string {
	// run-length form: IHDR IDATx3 IEND
	s := ""
	for i := 0; i < len(chunks); {
		j := i
		for j < len(chunks) && chunks[j] == chunks[i] {
			j++
		}
		if s != "" {
			s += " "
		}
		if j-i > 1 {
			s += fmt.Sprintf("%sx%d", chunks[i], j-i)
		} else {
			s += chunks[i]
		}
		i = j
	}
	return s
}

// sample16 returns pixel (x,y) of a walked, non-interlaced, non-palette image
// of depth 8 or 16 as non-premultiplied 16-bit R,G,B,A (8-bit samples are
// scaled by 0x101, which is injective). ok=false when the format is outside
// what this comparison supports (then only image/png compares pixels).
func (in *pngInfo) comparable() bool {
	return in.Interlace == 0 && in.CT != 3 && (in.Depth == 8 || in.Depth == 16)
}

func (in *pngInfo) sample16(x, y int) (px [4]uint16) {
	chans := 1
	switch in.CT {
	case 2:
		chans = 3
	case 4:
		chans = 2
	case 6:
		chans = 4
	}
	var s [4]uint16
	if in.Depth == 8 {
		o := y*in.RowBytes + x*chans
		for c := 0; c < chans; c++ {
			s[c] = uint16(in.Pix[o+c]) * 0x101
		}
	} else {
		o := y*in.RowBytes + x*chans*2
		for c := 0; c < chans; c++ {
			s[c] = uint16(in.Pix[o+2*c])<<8 | uint16(in.Pix[o+2*c+1])
		}
	}
	switch in.CT {
	case 0:
		return [4]uint16{s[0], s[0], s[0], 0xFFFF}
	case 2:
		return [4]uint16{s[0], s[1], s[2], 0xFFFF}
	case 4:
		return [4]uint16{s[0], s[0], s[0], s[1]}
	}
	return s
}
