// C19: the uncompressed PNG encoder (lib/uncompng) emits valid PNGs that decode
// to exactly the input pixels, however rows fall across its fixed 64 KiB buffer,
// also when one Encoder is reused.
//
// Bounded-exhaustive exploration on the real Encoder.Encode:
//
//	grid      every format x w x h x stride in {row,row+1,row+5}, position-coded bytes
//	contents  every content over {00,01,FF} (bytes / samples / pixels) for w*h <= 4
//	boundary  every tall-narrow (w<=8) and wide-short (h<=3) shape whose raw data
//	          length lies within +-24 bytes of the first flush thresholds and of the
//	          points where IEND stops fitting, x 3 strides x 3 contents
//	dense     every width of one-row images (and, thorough, every height of narrow
//	          ones) up to just past the third threshold
//	sequences all ordered pairs / triples of representative configurations on ONE
//	          Encoder, plus reuse after an injected Write error
//	adler     large all-0xFF images (worst case for the deferred Adler-32 modulo)
//
// Oracle (both must hold): image/png.Decode gives the same dimensions and pixel
// values (alpha opaque for RGBX), and the independent walker (walker.go)
// accepts the datastream and reconstructs the same pixels.
package main

import (
	"bytes"
	"encoding/hex"
	"encoding/json"
	"errors"
	"fmt"
	"image"
	"image/png"
	"os"
	"sort"
	"strconv"
	"strings"
	"sync"
	"time"

	"verif/internal/ev"

	"github.com/google/wuffs/lib/uncompng"
)

// ---- formats ----------------------------------------------------------------

type format struct {
	name     string
	ct       uncompng.ColorType
	depth    uncompng.Depth
	inBPP    int // bytes per pixel in the caller's buffer
	outBPP   int // bytes per pixel in the PNG scanline
	natCT    int // PNG colour type one expects (not demanded)
	natDepth int
}

var formats = []format{
	{"gray8", uncompng.ColorTypeGray, uncompng.Depth8, 1, 1, 0, 8},
	{"rgbx8", uncompng.ColorTypeRGBX, uncompng.Depth8, 4, 3, 2, 8},
	{"nrgba8", uncompng.ColorTypeNRGBA, uncompng.Depth8, 4, 4, 6, 8},
	{"gray16", uncompng.ColorTypeGray, uncompng.Depth16, 2, 2, 0, 16},
	{"rgbx16", uncompng.ColorTypeRGBX, uncompng.Depth16, 8, 6, 2, 16},
	{"nrgba16", uncompng.ColorTypeNRGBA, uncompng.Depth16, 8, 8, 6, 16},
}

func formatByName(n string) (format, bool) {
	for _, f := range formats {
		if f.name == n {
			return f, true
		}
	}
	return format{}, false
}

// Thresholds derived by READING lib/uncompng/uncompng.go (eiFirst=0x30,
// eiLater=0x0D, ejMax=0xFFF8, len(buf)=0x10000, IEND = 12 bytes after the 4-byte
// Adler-32 and the 4-byte CRC). They only steer which sizes are explored; the
// oracle never refers to them. probeThresholds() re-derives them by observation.
const (
	codeCapFirst = 0xFFF8 - 0x30       // 65480 payload bytes in the first IDAT's stored block
	codeCapLater = 0xFFF8 - 0x0D       // 65515 in every later one
	codeFitFirst = 0x10000 - 20 - 0x30 // 65468: largest final first block after which IEND still fits
	codeFitLater = 0x10000 - 20 - 0x0D // 65503: same for a later block
)

// ---- calls and contents -----------------------------------------------------

// Call is one Encode call; a witness is a list of Calls made on one Encoder.
type Call struct {
	Format      string `json:"format"`
	W           int    `json:"w"`
	H           int    `json:"h"`
	StrideExtra int    `json:"stride_extra"` // stride = row bytes + this
	// Content: "pos:<seed>" position code, "uniform:<byte>", "hex:<bytes>" (row-major
	// pixel bytes; stride padding is position-coded).
	Content     string `json:"content"`
	FailAtWrite int    `json:"fail_at_write,omitempty"` // the n-th Write returns an error (1-based)
}

func posCode(seed, i int) byte {
	return byte((i%251)*167 + (i/251)*29 + seed*53 + 13)
}

// buildPix returns the caller-side buffer of minimal length (h-1)*stride+row.
func buildPix(c Call, f format, buf []byte) ([]byte, int, error) {
	row := f.inBPP * c.W
	stride := row + c.StrideExtra
	n := (c.H-1)*stride + row
	if cap(buf) < n {
		buf = make([]byte, n)
	}
	buf = buf[:n]
	kind, arg, _ := strings.Cut(c.Content, ":")
	switch kind {
	case "pos":
		seed, err := strconv.Atoi(arg)
		if err != nil {
			return nil, 0, err
		}
		for i := range buf {
			buf[i] = posCode(seed, i)
		}
	case "uniform":
		v, err := strconv.Atoi(arg)
		if err != nil {
			return nil, 0, err
		}
		for i := range buf {
			buf[i] = byte(v)
		}
	case "hex":
		b, err := hex.DecodeString(arg)
		if err != nil || len(b) != row*c.H {
			return nil, 0, fmt.Errorf("bad hex content")
		}
		for i := range buf {
			buf[i] = posCode(7, i)
		}
		for y := 0; y < c.H; y++ {
			copy(buf[y*stride:y*stride+row], b[y*row:(y+1)*row])
		}
	default:
		return nil, 0, fmt.Errorf("bad content %q", c.Content)
	}
	return buf, stride, nil
}

// want16 is the expected pixel as non-premultiplied 16-bit RGBA, straight from
// the property: gray -> (Y,Y,Y,opaque), RGBX -> (R,G,B,opaque), NRGBA -> as is;
// 8-bit samples v are represented as v*0x101.
func want16(f format, pix []byte, stride, x, y int) [4]uint16 {
	o := y*stride + x*f.inBPP
	s8 := func(i int) uint16 { return uint16(pix[o+i]) * 0x101 }
	s16 := func(i int) uint16 { return uint16(pix[o+2*i])<<8 | uint16(pix[o+2*i+1]) }
	switch f.name {
	case "gray8":
		return [4]uint16{s8(0), s8(0), s8(0), 0xFFFF}
	case "rgbx8":
		return [4]uint16{s8(0), s8(1), s8(2), 0xFFFF}
	case "nrgba8":
		return [4]uint16{s8(0), s8(1), s8(2), s8(3)}
	case "gray16":
		return [4]uint16{s16(0), s16(0), s16(0), 0xFFFF}
	case "rgbx16":
		return [4]uint16{s16(0), s16(1), s16(2), 0xFFFF}
	}
	return [4]uint16{s16(0), s16(1), s16(2), s16(3)}
}

// got16 reads pixel (x,y) of an image returned by image/png.Decode.
func got16(m image.Image, x, y int) (px [4]uint16, ok bool) {
	switch m := m.(type) {
	case *image.Gray:
		v := uint16(m.Pix[m.PixOffset(x, y)]) * 0x101
		return [4]uint16{v, v, v, 0xFFFF}, true
	case *image.Gray16:
		o := m.PixOffset(x, y)
		v := uint16(m.Pix[o])<<8 | uint16(m.Pix[o+1])
		return [4]uint16{v, v, v, 0xFFFF}, true
	case *image.RGBA:
		// image/png yields RGBA only for opaque truecolour; a non-opaque value is
		// reported as it stands (and will not match).
		o := m.PixOffset(x, y)
		return [4]uint16{uint16(m.Pix[o]) * 0x101, uint16(m.Pix[o+1]) * 0x101, uint16(m.Pix[o+2]) * 0x101, uint16(m.Pix[o+3]) * 0x101}, true
	case *image.NRGBA:
		o := m.PixOffset(x, y)
		return [4]uint16{uint16(m.Pix[o]) * 0x101, uint16(m.Pix[o+1]) * 0x101, uint16(m.Pix[o+2]) * 0x101, uint16(m.Pix[o+3]) * 0x101}, true
	case *image.RGBA64:
		o := m.PixOffset(x, y)
		p := m.Pix[o : o+8]
		return [4]uint16{uint16(p[0])<<8 | uint16(p[1]), uint16(p[2])<<8 | uint16(p[3]), uint16(p[4])<<8 | uint16(p[5]), uint16(p[6])<<8 | uint16(p[7])}, true
	case *image.NRGBA64:
		o := m.PixOffset(x, y)
		p := m.Pix[o : o+8]
		return [4]uint16{uint16(p[0])<<8 | uint16(p[1]), uint16(p[2])<<8 | uint16(p[3]), uint16(p[4])<<8 | uint16(p[5]), uint16(p[6])<<8 | uint16(p[7])}, true
	}
	return px, false
}

// ---- per-worker state ---------------------------------------------------------

type wstate struct {
	enc    *uncompng.Encoder
	out    []byte
	writes []int
	pix    []byte
	ws     walkScratch
	hist   map[string]map[string]int64

	evals, nontrivial int64
	outcomes          map[string]struct{}
}

func newWstate() *wstate {
	return &wstate{enc: new(uncompng.Encoder), hist: map[string]map[string]int64{}, outcomes: map[string]struct{}{}}
}

func (s *wstate) h(hist, key string) {
	m := s.hist[hist]
	if m == nil {
		m = map[string]int64{}
		s.hist[hist] = m
	}
	m[key]++
}

var errInjected = errors.New("injected write error")

type recWriter struct {
	st     *wstate
	failAt int
}

func (w *recWriter) Write(b []byte) (int, error) {
	w.st.writes = append(w.st.writes, len(b))
	if w.failAt > 0 && len(w.st.writes) == w.failAt {
		return 0, errInjected
	}
	w.st.out = append(w.st.out, b...)
	return len(b), nil
}

// failure is one broken clause of the property.
type failure struct {
	Clause string
	Detail string
}

// outcome describes how a valid output was framed (vacuity guards only).
type outcome struct {
	nIDAT   int
	sepIEND bool
	writes  int
	outLen  int
	hash    string
}

func digitsOut(s string) string {
	var b []byte
	for i := 0; i < len(s) && len(b) < 70; i++ {
		c := s[i]
		if c >= '0' && c <= '9' {
			continue
		}
		b = append(b, c)
	}
	return string(b)
}

const iendChunk = "\x00\x00\x00\x00IEND\xAE\x42\x60\x82"

// encodeOnce performs one Encode call on enc (panics become failures).
func encodeOnce(enc *uncompng.Encoder, st *wstate, c Call, f format, pix []byte, stride int) (fail *failure, encErr error) {
	st.out = st.out[:0]
	st.writes = st.writes[:0]
	w := &recWriter{st: st, failAt: c.FailAtWrite}
	defer func() {
		if e := recover(); e != nil {
			fail = &failure{"panic:Encode", fmt.Sprint(e)}
		}
	}()
	encErr = enc.Encode(w, pix, c.W, c.H, stride, f.depth, f.ct)
	return nil, encErr
}

// checkOutput is the oracle for one completed Encode call.
func checkOutput(st *wstate, c Call, f format, pix []byte, stride int, wantHash bool) (*outcome, *failure) {
	out := st.out
	// (1) independent walker
	info, we := walkPNG(out, &st.ws)
	// (2) the standard decoder
	var img image.Image
	var derr error
	func() {
		defer func() {
			if e := recover(); e != nil {
				derr = fmt.Errorf("panic in image/png: %v", e)
			}
		}()
		img, derr = png.Decode(bytes.NewReader(out))
	}()
	pngState := "image/png.Decode accepts it"
	if derr != nil {
		pngState = "image/png.Decode: " + derr.Error()
	}
	if we != nil {
		return nil, &failure{"walker:" + we.Clause, we.Detail + " [" + pngState + "]"}
	}
	if derr != nil {
		return nil, &failure{"png.Decode-rejects:" + digitsOut(derr.Error()), derr.Error() + " [walker accepts it: " + summarise(info.Chunks) + "]"}
	}
	if info.W != c.W || info.H != c.H {
		return nil, &failure{"walker:dimensions", fmt.Sprintf("IHDR says %dx%d, input is %dx%d", info.W, info.H, c.W, c.H)}
	}
	if b := img.Bounds(); b.Min.X != 0 || b.Min.Y != 0 || b.Dx() != c.W || b.Dy() != c.H {
		return nil, &failure{"png.Decode:dimensions", fmt.Sprintf("decoded bounds %v, input is %dx%d", b, c.W, c.H)}
	}
	// pixels, walker side
	rowIn := f.inBPP * c.W
	if info.comparable() {
		// fast paths (row / pixel byte compares) for the expected IHDR; anything they do
		// not prove equal is re-examined pixel by pixel in the generic form below.
		fast := false
		if info.CT == f.natCT && info.Depth == f.natDepth {
			fast = true
			if f.inBPP == f.outBPP {
				for y := 0; y < c.H && fast; y++ {
					fast = bytes.Equal(info.Pix[y*info.RowBytes:(y+1)*info.RowBytes], pix[y*stride:y*stride+rowIn])
				}
			} else {
				for y := 0; y < c.H && fast; y++ {
					fast = rgbxRowEqual(info.Pix[y*info.RowBytes:(y+1)*info.RowBytes], f.outBPP, pix[y*stride:y*stride+rowIn], f.inBPP, c.W, f.outBPP, false)
				}
			}
		}
		if !fast {
			for y := 0; y < c.H; y++ {
				for x := 0; x < c.W; x++ {
					if g, w := info.sample16(x, y), want16(f, pix, stride, x, y); g != w {
						return nil, &failure{"walker:pixel-mismatch", fmt.Sprintf("pixel (%d,%d): datastream holds %04X, input is %04X (16-bit RGBA) [%s]", x, y, g, w, pngState)}
					}
				}
			}
		}
	} else {
		st.h("walker_pixel_compare", "delegated-to-image/png(ct/depth/interlace outside walker compare)")
	}
	// pixels, image/png side
	{
		fast := false
		switch m := img.(type) {
		case *image.Gray:
			fast = f.name == "gray8" && rowsEqual(m.Pix, m.Stride, pix, stride, rowIn, c.H)
		case *image.Gray16:
			fast = f.name == "gray16" && rowsEqual(m.Pix, m.Stride, pix, stride, rowIn, c.H)
		case *image.NRGBA:
			fast = f.name == "nrgba8" && rowsEqual(m.Pix, m.Stride, pix, stride, rowIn, c.H)
		case *image.NRGBA64:
			fast = f.name == "nrgba16" && rowsEqual(m.Pix, m.Stride, pix, stride, rowIn, c.H)
		case *image.RGBA:
			fast = f.name == "rgbx8"
			for y := 0; y < c.H && fast; y++ {
				fast = rgbxRowEqual(m.Pix[y*m.Stride:y*m.Stride+rowIn], 4, pix[y*stride:y*stride+rowIn], 4, c.W, 3, true)
			}
		case *image.RGBA64:
			fast = f.name == "rgbx16"
			for y := 0; y < c.H && fast; y++ {
				fast = rgbxRowEqual(m.Pix[y*m.Stride:y*m.Stride+rowIn], 8, pix[y*stride:y*stride+rowIn], 8, c.W, 6, true)
			}
		}
		if !fast {
			for y := 0; y < c.H; y++ {
				for x := 0; x < c.W; x++ {
					g, ok := got16(img, x, y)
					if !ok {
						return nil, &failure{"png.Decode:unexpected-image-type", fmt.Sprintf("decoded to %T", img)}
					}
					if w := want16(f, pix, stride, x, y); g != w {
						return nil, &failure{"png.Decode:pixel-mismatch", fmt.Sprintf("pixel (%d,%d): decoded %04X, input is %04X (16-bit RGBA, %T)", x, y, g, w, img)}
					}
				}
			}
		}
	}
	oc := &outcome{nIDAT: len(info.IDATLens), writes: len(st.writes), outLen: len(out)}
	nw := len(st.writes)
	oc.sepIEND = nw >= 2 && st.writes[nw-1] == len(iendChunk) && string(out[len(out)-len(iendChunk):]) == iendChunk
	if wantHash {
		oc.hash = ev.Hash(out)
	}
	// vacuity histograms
	st.h("format", f.name)
	st.h("ihdr_colour_type/depth", fmt.Sprintf("%d/%d", info.CT, info.Depth))
	st.h("decoded_go_type", fmt.Sprintf("%T", img))
	st.h("idat_chunks", capKey(oc.nIDAT, 8))
	if oc.sepIEND {
		st.h("iend", "separate-write")
	} else {
		st.h("iend", "same-write-as-last-idat")
	}
	for i, n := range info.BlocksPer {
		_ = i
		st.h("deflate_blocks_starting_in_one_idat", capKey(n, 4))
	}
	rowOut := info.RowBytes + 1
	for i, b := range info.Blocks {
		st.h("deflate_block_type", []string{"stored", "fixed", "dynamic"}[b.Type])
		if i+1 < len(info.Blocks) {
			end := b.OutStart + b.OutLen // a block boundary inside the image data
			r := end % rowOut
			switch {
			case r == 0:
				st.h("block_boundary_position", "between-rows(before filter byte)")
			case r == 1:
				st.h("block_boundary_position", "after-filter-byte")
			case (r-1)%f.outBPP == 0:
				st.h("block_boundary_position", "mid-row,between-pixels")
			default:
				st.h("block_boundary_position", "inside-a-pixel")
			}
			st.h("nonfinal_block_len", lenClass(b.OutLen))
		} else {
			st.h("final_block_len", lenClass(b.OutLen))
		}
	}
	if !info.AllFilter0 {
		st.h("filter", "non-zero")
	}
	return oc, nil
}

func lenClass(n int) string {
	switch {
	case n == 0:
		return "0"
	case n <= 8:
		return "1..8"
	case n < 65468-64:
		return "9..65403"
	case n <= 65468:
		return "65404..65468"
	case n <= 65480:
		return "65469..65480"
	case n < 65503:
		return "65481..65502"
	case n == 65503:
		return "65503"
	case n <= 65515:
		return "65504..65515"
	}
	return ">65515"
}

func capKey(n, limit int) string {
	if n > limit {
		return fmt.Sprintf(">%d", limit)
	}
	return strconv.Itoa(n)
}

// rgbxRowEqual compares the first n colour bytes of w pixels (a has aStep bytes
// per pixel, b has bStep); with opaqueA the remaining bytes of a's pixel must be 0xFF.
func rgbxRowEqual(a []byte, aStep int, b []byte, bStep int, w, n int, opaqueA bool) bool {
	for x := 0; x < w; x++ {
		pa, pb := a[x*aStep:x*aStep+aStep], b[x*bStep:x*bStep+n]
		for i := 0; i < n; i++ {
			if pa[i] != pb[i] {
				return false
			}
		}
		if opaqueA {
			for i := n; i < aStep; i++ {
				if pa[i] != 0xFF {
					return false
				}
			}
		}
	}
	return true
}

func rowsEqual(a []byte, as int, b []byte, bs int, row, h int) bool {
	for y := 0; y < h; y++ {
		if !bytes.Equal(a[y*as:y*as+row], b[y*bs:y*bs+row]) {
			return false
		}
	}
	return true
}

// ---- running a witness (sequence of calls on one Encoder) --------------------

type callResult struct {
	fail *failure
	oc   *outcome
}

type witness struct {
	Calls       []Call `json:"calls_on_one_encoder"`
	FailingCall int    `json:"failing_call_index"`
	Clause      string `json:"clause"`
	Detail      string `json:"detail"`
	Note        string `json:"note,omitempty"`
}

func rawLen(f format, c Call) int { return (f.outBPP*c.W + 1) * c.H }

func sizeClass(n int) string {
	switch {
	case n <= codeFitFirst:
		return "raw<=65468(one IDAT,IEND fits)"
	case n <= codeCapFirst:
		return "raw=65469..65480(one IDAT,IEND does not fit)"
	}
	return "raw>65480(several IDATs)"
}

// runSeq executes the calls on one fresh Encoder and applies the oracle to
// every call without an injected failure. It stops at the first broken call.
func runSeq(st *wstate, calls []Call, wantHash bool) (res []callResult, failedAt int) {
	enc := st.enc
	*enc = uncompng.Encoder{} // the zero value, i.e. a fresh Encoder, without a 64 KiB allocation per run
	for i, c := range calls {
		f, ok := formatByName(c.Format)
		if !ok {
			ev.Fatal("bad format %q", c.Format)
		}
		pix, stride, err := buildPix(c, f, st.pix)
		if err != nil {
			ev.Fatal("bad call %+v: %v", c, err)
		}
		st.pix = pix
		fail, encErr := encodeOnce(enc, st, c, f, pix, stride)
		if c.FailAtWrite > 0 {
			// an Encode that was made to fail: nothing is demanded of it except not to panic
			if fail != nil {
				return append(res, callResult{fail: fail}), i
			}
			res = append(res, callResult{})
			continue
		}
		if fail == nil && encErr != nil {
			fail = &failure{"Encode-returns-error", encErr.Error()}
		}
		var oc *outcome
		if fail == nil {
			oc, fail = checkOutput(st, c, f, pix, stride, wantHash)
		}
		st.evals++
		res = append(res, callResult{fail, oc})
		if fail != nil {
			return res, i
		}
		if oc.nIDAT >= 2 || oc.sepIEND {
			st.nontrivial++
		}
		st.outcomes[fmt.Sprintf("%s/idat=%d/sepIEND=%v/writes=%d", c.Format, oc.nIDAT, oc.sepIEND, oc.writes)] = struct{}{}
	}
	return res, -1
}

var reportMu sync.Mutex

// explore runs a sequence and reports a violation with a minimised witness and a
// root-cause signature: operation + broken clause + abstract shape of the input.
// The shape is the size class of the image for a defect that shows on a fresh
// Encoder (the format and the concrete size are in the witness only), or the
// history class when the same call is fine on a fresh Encoder:
// ":only-after-reuse" (an earlier successful Encode is enough) or
// ":only-after-failed-encode" (needs an earlier Encode whose Writer failed).
func explore(r *ev.Run, st *wstate, calls []Call, wantHash bool) []callResult {
	res, at := runSeq(st, calls, wantHash)
	if at < 0 {
		return res
	}
	fl := res[at].fail
	c := calls[at]
	f, _ := formatByName(c.Format)
	wit := witness{Calls: calls[:at+1], FailingCall: at, Clause: fl.Clause, Detail: fl.Detail}
	shape := sizeClass(rawLen(f, c))
	if at > 0 {
		tmp := newWstate()
		same := func(seq []Call) (string, bool) { // does seq break the same clause at its last call?
			rr, k := runSeq(tmp, seq, false)
			if k == len(seq)-1 && rr[k].fail.Clause == fl.Clause {
				return rr[k].fail.Detail, true
			}
			return "", false
		}
		solo := c
		solo.FailAtWrite = 0
		if d, ok := same([]Call{solo}); ok {
			wit = witness{Calls: []Call{solo}, FailingCall: 0, Clause: fl.Clause, Detail: d, Note: "found inside a longer call sequence; fails on a fresh Encoder too"}
		} else {
			shape = "only-after-reuse"
			hist := append([]Call{}, calls[:at+1]...)
			injected := false
			for i := range hist {
				injected = injected || hist[i].FailAtWrite > 0
			}
			if injected {
				clean := append([]Call{}, hist...)
				for i := range clean {
					clean[i].FailAtWrite = 0
				}
				if d, ok := same(clean); ok {
					hist = clean
					wit = witness{Calls: hist, FailingCall: at, Clause: fl.Clause, Detail: d, Note: "the injected write error is not needed"}
				} else {
					shape = "only-after-failed-encode"
				}
			}
			// shorten the history to the last predecessor if that is enough
			if len(hist) > 2 {
				if d, ok := same(hist[len(hist)-2:]); ok {
					wit = witness{Calls: hist[len(hist)-2:], FailingCall: 1, Clause: fl.Clause, Detail: d}
				}
			}
		}
	}
	sig := fmt.Sprintf("Encode:%s:%s", fl.Clause, shape)
	what := fmt.Sprintf("Encode(%s %dx%d stride=row+%d content=%s) as call #%d of %d on one Encoder: %s: %s", c.Format, c.W, c.H, c.StrideExtra, short(c.Content), at+1, len(calls), fl.Clause, fl.Detail)
	r.Violation(sig, what, wit)
	return res
}

func short(s string) string {
	if len(s) > 40 {
		return s[:40] + "..."
	}
	return s
}

// ---- the pool ---------------------------------------------------------------

type pool struct {
	r  *ev.Run
	st []*wstate
}

func newPool(r *ev.Run) *pool {
	p := &pool{r: r}
	for i := 0; i < ev.Workers(); i++ {
		p.st = append(p.st, newWstate())
	}
	return p
}

// each runs n jobs; f gets the worker state and job index.
func (p *pool) each(n int, f func(st *wstate, i int)) {
	ev.ParFor(n, func(w, i int) {
		if p.r.Expired() {
			return
		}
		f(p.st[w], i)
	})
}

func (p *pool) totals() (evals, nontrivial int64, outcomes int) {
	all := map[string]struct{}{}
	for _, s := range p.st {
		evals += s.evals
		nontrivial += s.nontrivial
		for k := range s.outcomes {
			all[k] = struct{}{}
		}
	}
	return evals, nontrivial, len(all)
}

func (p *pool) mergeHists() {
	for _, s := range p.st {
		for name, m := range s.hist {
			p.r.MergeHist(name, m)
		}
	}
}

// ---- threshold probing --------------------------------------------------------

type thresholds struct {
	capFirst, capLater int // observed block capacities
	fitFirst, fitLater int // observed largest final block after which IEND shares the Write
	points             []int
	matchCode          bool
}

// probeThresholds observes, on one-row gray8 images (every unit is one byte, so
// raw length N = w+1 moves in steps of 1), the smallest N at which the IDAT count
// becomes 2, 3, 4, ... and the largest final block for which IEND is written
// together with the last IDAT.
func probeThresholds(r *ev.Run, st *wstate, nThresholds int) thresholds {
	framing := func(n int) (idat int, sep bool, ok bool) {
		res := explore(r, st, []Call{{Format: "gray8", W: n - 1, H: 1, Content: "pos:3"}}, false)
		if res[0].fail != nil {
			return 0, false, false
		}
		return res[0].oc.nIDAT, res[0].oc.sepIEND, true
	}
	th := thresholds{capFirst: codeCapFirst, capLater: codeCapLater, fitFirst: codeFitFirst, fitLater: codeFitLater}
	first := make([]int, nThresholds+2) // first[k] = smallest N with >= k IDATs
	lo := 2
	for k := 2; k <= nThresholds+1; k++ {
		l, h := lo, lo+(1<<18)
		for l < h { // smallest N in [l,h] with idat >= k
			m := (l + h) / 2
			n, _, ok := framing(m)
			if !ok {
				return th // the probe itself found a violation; keep the code-derived values
			}
			if n >= k {
				h = m
			} else {
				l = m + 1
			}
		}
		first[k] = l
		lo = l
	}
	th.capFirst = first[2] - 1
	if nThresholds >= 2 {
		th.capLater = first[3] - first[2]
	}
	// IEND: scan the 40 sizes below each of the first two thresholds
	scan := func(top int) int {
		fit := -1
		for n := top - 40; n <= top; n++ {
			if n < 2 {
				continue
			}
			_, sep, ok := framing(n)
			if ok && !sep {
				fit = n
			}
		}
		return fit
	}
	if v := scan(first[2] - 1); v > 0 {
		th.fitFirst = v
	}
	if nThresholds >= 2 {
		if v := scan(first[3] - 1); v > 0 {
			th.fitLater = v - th.capFirst
		}
	}
	th.matchCode = th.capFirst == codeCapFirst && th.capLater == codeCapLater && th.fitFirst == codeFitFirst && th.fitLater == codeFitLater
	return th
}

type window struct{ lo, hi int }

// windows returns, for the first n thresholds, the raw-length intervals to
// explore: +-margin around each flush threshold and each IEND-fit point, widened
// downwards by the packing slack (a block is closed up to 7 bytes early when the
// next pixel does not fit, once per earlier block).
func windows(th thresholds, n, margin int) []window {
	var ws []window
	add := func(capF, capL, fitF, fitL int) {
		for k := 1; k <= n; k++ {
			flush := capF + (k-1)*capL
			fit := fitF
			if k > 1 {
				fit = capF + (k-2)*capL + fitL
			}
			slack := 7 * k
			ws = append(ws, window{fit - slack - margin, fit + margin}, window{flush - slack - margin, flush + margin})
		}
	}
	add(codeCapFirst, codeCapLater, codeFitFirst, codeFitLater)
	if !th.matchCode {
		add(th.capFirst, th.capLater, th.fitFirst, th.fitLater)
	}
	// merge
	sort.Slice(ws, func(i, j int) bool { return ws[i].lo < ws[j].lo })
	var out []window
	for _, w := range ws {
		if w.lo < 1 {
			w.lo = 1
		}
		if len(out) > 0 && w.lo <= out[len(out)-1].hi+1 {
			if w.hi > out[len(out)-1].hi {
				out[len(out)-1].hi = w.hi
			}
			continue
		}
		out = append(out, w)
	}
	return out
}

// ---- main -------------------------------------------------------------------

func pow(b, e int) int {
	v := 1
	for ; e > 0; e-- {
		v *= b
	}
	return v
}

func main() {
	if len(os.Args) > 2 && os.Args[1] == "replay" {
		replay(os.Args[2])
		return
	}
	r := ev.Start("C19", "exploration")
	r.SetBudget(8*time.Minute, 45*time.Minute)
	tsc := time.Now()
	selfCheck()
	r.Add("selfcheck_ms", time.Since(tsc).Milliseconds())
	T := r.Thorough()
	p := newPool(r)
	t0 := time.Now()
	prev := int64(0)
	phase := func(name string) {
		e, _, _ := p.totals()
		r.Add("phase_ms_"+name, time.Since(t0).Milliseconds())
		r.Add("evaluations_"+name, e-prev)
		prev = e
		t0 = time.Now()
	}
	strides := []int{0, 1, 5}

	// -- thresholds ---------------------------------------------------------
	nThr := 3
	if T {
		nThr = 6
	}
	th := probeThresholds(r, p.st[0], nThr)
	phase("probe")

	// -- grid ---------------------------------------------------------------
	{
		maxW, maxH := 12, 8
		if T {
			maxW, maxH = 40, 24
		}
		var jobs []Call
		for _, f := range formats {
			for w := 1; w <= maxW; w++ {
				for h := 1; h <= maxH; h++ {
					for _, s := range strides {
						jobs = append(jobs, Call{Format: f.name, W: w, H: h, StrideExtra: s, Content: "pos:1"})
					}
				}
			}
		}
		p.each(len(jobs), func(st *wstate, i int) { explore(r, st, jobs[i:i+1], false) })
		r.Sample(map[string]any{"phase": "grid", "call": jobs[len(jobs)/2]})
		phase("grid")
	}

	// -- contents -----------------------------------------------------------
	{
		type shape struct {
			f             format
			w, h, s       int
			level         string
			units, unitSz int
			alpha         []byte
		}
		// finest level (bytes, else 8/16-bit samples, else whole pixels) whose number of
		// units stays within the bound: 3 symbols up to B3 units, 2 symbols up to B2.
		B3, B2 := 8, 12
		if T {
			B3, B2 = 12, 16
		}
		var shapes []shape
		alpha3 := []byte{0x00, 0x01, 0xFF}
		alpha2 := []byte{0x00, 0xFF}
		alpha5 := []byte{0x00, 0x01, 0x7F, 0x80, 0xFF}
		for _, f := range formats {
			for w := 1; w <= 4; w++ {
				for h := 1; w*h <= 4; h++ {
					nb := f.inBPP * w * h
					sampleSz := int(f.depth) / 8
					levels := []shape{
						{level: "bytes", units: nb, unitSz: 1},
						{level: "samples", units: nb / sampleSz, unitSz: sampleSz},
						{level: "pixels", units: w * h, unitSz: f.inBPP},
					}
					finest := func(bound int) int {
						for i, l := range levels {
							if l.units <= bound {
								return i
							}
						}
						return len(levels) - 1
					}
					for _, s := range strides {
						if s != 0 && nb > 8 {
							continue // the big enumerations run with stride = row only (padding is covered by grid/boundary)
						}
						l3, l2 := finest(B3), finest(B2)
						sh := levels[l3]
						sh.f, sh.w, sh.h, sh.s, sh.alpha = f, w, h, s, alpha3
						sh.level += "/3-symbols"
						shapes = append(shapes, sh)
						if l2 < l3 {
							sh = levels[l2]
							sh.f, sh.w, sh.h, sh.s, sh.alpha = f, w, h, s, alpha2
							sh.level += "/2-symbols"
							shapes = append(shapes, sh)
						}
						if T && nb <= 8 && s == 0 {
							sh = levels[0]
							sh.f, sh.w, sh.h, sh.s, sh.alpha = f, w, h, s, alpha5
							sh.level += "/5-symbols"
							shapes = append(shapes, sh)
						}
					}
				}
			}
		}
		type job struct {
			sh     int
			lo, hi int
		}
		var jobs []job
		const blk = 2187
		for si, sh := range shapes {
			n := pow(len(sh.alpha), sh.units)
			for lo := 0; lo < n; lo += blk {
				hi := lo + blk
				if hi > n {
					hi = n
				}
				jobs = append(jobs, job{si, lo, hi})
			}
		}
		var sampleOnce sync.Once
		p.each(len(jobs), func(st *wstate, ji int) {
			j := jobs[ji]
			sh := shapes[j.sh]
			content := make([]byte, sh.units*sh.unitSz)
			for idx := j.lo; idx < j.hi; idx++ {
				v := idx
				for u := 0; u < sh.units; u++ {
					b := sh.alpha[v%len(sh.alpha)]
					v /= len(sh.alpha)
					for k := 0; k < sh.unitSz; k++ {
						content[u*sh.unitSz+k] = b
					}
				}
				c := Call{Format: sh.f.name, W: sh.w, H: sh.h, StrideExtra: sh.s, Content: "hex:" + hex.EncodeToString(content)}
				explore(r, st, []Call{c}, false)
				st.h("content_level", sh.level)
				if idx == 1000 {
					sampleOnce.Do(func() { r.Sample(map[string]any{"phase": "contents", "call": c}) })
				}
			}
		})
		phase("contents")
	}

	// -- boundary -----------------------------------------------------------
	contents3 := []string{"pos:2", "uniform:255", "uniform:0"}
	{
		margin := 24
		maxNarrow, maxShort := 8, 3
		if T {
			margin, maxNarrow, maxShort = 64, 16, 6
		}
		wins := windows(th, nThr, margin)
		var jobs []Call
		seen := map[string]bool{}
		add := func(f format, w, h int) {
			k := fmt.Sprintf("%s/%d/%d", f.name, w, h)
			if seen[k] || w < 1 || h < 1 {
				return
			}
			seen[k] = true
			for _, s := range strides {
				for _, ct := range contents3 {
					jobs = append(jobs, Call{Format: f.name, W: w, H: h, StrideExtra: s, Content: ct})
				}
			}
		}
		for _, f := range formats {
			for _, win := range wins {
				for w := 1; w <= maxNarrow; w++ { // tall and narrow
					row := f.outBPP*w + 1
					for h := (win.lo + row - 1) / row; h*row <= win.hi; h++ {
						add(f, w, h)
					}
				}
				for h := 1; h <= maxShort; h++ { // short and wide
					w := (win.lo/h-1)/f.outBPP - 1
					if w < 1 {
						w = 1
					}
					for ; (f.outBPP*w+1)*h <= win.hi; w++ {
						if (f.outBPP*w+1)*h >= win.lo {
							add(f, w, h)
						}
					}
				}
			}
		}
		// per (format, threshold k): were both k and k+1 IDATs seen inside the window?
		var mu sync.Mutex
		seenCounts := map[string]map[int]bool{}
		p.each(len(jobs), func(st *wstate, i int) {
			res := explore(r, st, jobs[i:i+1], false)
			if res[0].oc != nil {
				mu.Lock()
				m := seenCounts[jobs[i].Format]
				if m == nil {
					m = map[int]bool{}
					seenCounts[jobs[i].Format] = m
				}
				m[res[0].oc.nIDAT] = true
				mu.Unlock()
			}
		})
		for _, f := range formats {
			for k := 1; k <= nThr; k++ {
				key := fmt.Sprintf("%s/threshold%d:", f.name, k)
				if seenCounts[f.name][k] && seenCounts[f.name][k+1] {
					r.HistAdd("boundary_windows_straddle_the_idat_count_change", key+"both counts seen", 1)
				} else {
					r.HistAdd("boundary_windows_straddle_the_idat_count_change", key+"NOT straddled", 1)
				}
			}
		}
		r.Add("boundary_shapes", int64(len(seen)))
		r.Sample(map[string]any{"phase": "boundary", "windows_raw_length": fmt.Sprint(wins), "call": jobs[len(jobs)/3]})
		phase("boundary")
	}

	// -- sequences ----------------------------------------------------------
	{
		reps := []Call{
			{Format: "gray8", W: 1, H: 1, Content: "pos:10"},                                                 // tiny
			{Format: "nrgba16", W: 3, H: 2, StrideExtra: 5, Content: "pos:11"},                               // small, padded
			{Format: "gray8", W: th.fitFirst - 1, H: 1, Content: "pos:12"},                                   // IEND just fits: the Write fills the buffer
			{Format: "gray16", W: (th.capFirst - 1) / 2, H: 1, Content: "pos:13"},                            // one full IDAT, IEND separate
			{Format: "gray8", W: th.capFirst, H: 1, Content: "uniform:255"},                                  // one byte spills into a 2nd IDAT
			{Format: "rgbx8", W: 7, H: (th.capFirst + th.fitLater) / 22, Content: "pos:15"},                  // 2 IDATs, ends near the IEND point
			{Format: "nrgba8", W: 5, H: (th.capFirst+2*th.capLater)/21 + 1, Content: "pos:16"},               // just past the 3rd threshold: 4 IDATs
			{Format: "rgbx16", W: 8, H: (th.capFirst + th.capLater) / 49, StrideExtra: 1, Content: "pos:17"}, // 2 IDATs, 2nd almost full
		}
		if T {
			reps = append(reps,
				Call{Format: "nrgba8", W: 2, H: 2, Content: "uniform:0"},
				Call{Format: "gray16", W: 1, H: (th.capFirst + th.capLater + 3) / 3, Content: "pos:18"},
				Call{Format: "rgbx8", W: (th.capFirst + 3) / 3, H: 1, Content: "uniform:255"},
				Call{Format: "nrgba16", W: 1, H: th.fitFirst / 9, StrideExtra: 5, Content: "pos:19"},
			)
		}
		// fresh-encoder reference outputs (for the "identical to fresh" histogram only)
		fresh := make([]string, len(reps))
		writesOf := make([]int, len(reps))
		for i := range reps {
			res := explore(r, p.st[0], reps[i:i+1], true)
			if res[0].oc != nil {
				fresh[i] = res[0].oc.hash
				writesOf[i] = res[0].oc.writes
				r.Sample(map[string]any{"phase": "sequences", "representative": reps[i], "idat_chunks": res[0].oc.nIDAT, "iend_separate": res[0].oc.sepIEND, "output_bytes": res[0].oc.outLen})
			}
		}
		type job struct {
			idx  []int
			fail int
		}
		var jobs []job
		n := len(reps)
		for a := 0; a < n; a++ {
			for b := 0; b < n; b++ {
				jobs = append(jobs, job{[]int{a, b}, 0})
				for k := 1; k <= writesOf[a]; k++ {
					jobs = append(jobs, job{[]int{a, b}, k})
				}
				for c := 0; c < n; c++ {
					jobs = append(jobs, job{[]int{a, b, c}, 0})
				}
			}
		}
		p.each(len(jobs), func(st *wstate, ji int) {
			j := jobs[ji]
			calls := make([]Call, len(j.idx))
			for k, i := range j.idx {
				calls[k] = reps[i]
			}
			calls[0].FailAtWrite = j.fail
			res := explore(r, st, calls, true)
			st.h("sequence_kind", fmt.Sprintf("%d calls, injected write error=%v", len(calls), j.fail > 0))
			for k, cr := range res {
				if cr.oc != nil && k > 0 {
					if cr.oc.hash == fresh[j.idx[k]] {
						st.h("reused_encoder_output_vs_fresh_encoder", "byte-identical")
					} else {
						st.h("reused_encoder_output_vs_fresh_encoder", "different(but valid)")
					}
				}
			}
		})
		r.Add("sequences", int64(len(jobs)))
		phase("sequences")
	}

	// -- adler --------------------------------------------------------------
	{
		jobs := []Call{
			{Format: "gray8", W: 5552, H: 1, Content: "uniform:255"},
			{Format: "gray8", W: 5553, H: 3, Content: "uniform:255"},
			{Format: "gray8", W: 65535, H: 40, Content: "uniform:255"},
			{Format: "nrgba8", W: 4096, H: 1024, Content: "uniform:255"},
			{Format: "rgbx16", W: 2048, H: 1500, Content: "uniform:255"},
			{Format: "gray16", W: 30000, H: 300, Content: "uniform:255"},
			{Format: "nrgba16", W: 1237, H: 1021, StrideExtra: 1, Content: "uniform:255"},
			{Format: "gray8", W: 8192, H: 4096, Content: "uniform:255"},
		}
		if T {
			jobs = append(jobs,
				Call{Format: "gray8", W: 16384, H: 8192, Content: "uniform:255"},
				Call{Format: "nrgba8", W: 6000, H: 5000, Content: "uniform:255"},
				Call{Format: "nrgba16", W: 4000, H: 3000, Content: "uniform:255"},
				Call{Format: "rgbx8", W: 9000, H: 4000, Content: "uniform:254"},
				Call{Format: "gray16", W: 20000, H: 2000, Content: "pos:21"},
			)
		}
		// at most 4 at a time (memory)
		for lo := 0; lo < len(jobs); lo += 4 {
			hi := lo + 4
			if hi > len(jobs) {
				hi = len(jobs)
			}
			part := jobs[lo:hi]
			p.each(len(part), func(st *wstate, i int) {
				explore(r, st, part[i:i+1], false)
				st.out, st.pix, st.ws = nil, nil, walkScratch{}
			})
		}
		r.Sample(map[string]any{"phase": "adler", "call": jobs[3]})
		phase("adler")
	}

	// -- dense --------------------------------------------------------------
	{
		top := th.capFirst + (nThr-1)*th.capLater + 24
		if c := codeCapFirst + (nThr-1)*codeCapLater + 24; c > top {
			top = c
		}
		var jobs []Call
		for _, f := range formats {
			// one-row images of every width
			for w := 1; f.outBPP*w+1 <= top; w++ {
				jobs = append(jobs, Call{Format: f.name, W: w, H: 1, Content: "pos:4"})
			}
			if T {
				// narrow images of every height
				for w := 1; w <= 8; w++ {
					row := f.outBPP*w + 1
					for h := 2; h*row <= top; h++ {
						jobs = append(jobs, Call{Format: f.name, W: w, H: h, Content: "pos:5"})
					}
				}
			}
		}
		n := len(jobs)
		p.each(n, func(st *wstate, i int) { explore(r, st, jobs[i:i+1], false) })
		r.Add("dense_max_raw_length", int64(top))
		r.Sample(map[string]any{"phase": "dense", "call": jobs[n/2]})
		phase("dense")
	}

	p.mergeHists()
	evals, nontrivial, outcomes := p.totals()
	r.Finish(ev.Coverage{
		Evaluations:        evals,
		DistinctNontrivial: nontrivial,
		Rule: "evaluation = one Encoder.Encode call whose output went through both oracles (image/png.Decode + independent walker, dimensions and every pixel compared); " +
			"non-trivial = the output has >= 2 IDAT chunks or its IEND was written by a separate Write (the 64 KiB buffer boundary logic ran); " +
			"space = grid + contents + boundary windows + dense sweeps + call sequences + all-0xFF images as listed in counters/histograms",
		Exhaustive: true,
		Extra: map[string]any{
			"distinct_framing_outcomes(format,idat count,iend kind,write count)": outcomes,
			"thresholds_from_code_reading":                                       map[string]int{"first_block_capacity": codeCapFirst, "later_block_capacity": codeCapLater, "iend_fits_up_to_first": codeFitFirst, "iend_fits_up_to_later": codeFitLater},
			"thresholds_observed":                                                map[string]int{"first_block_capacity": th.capFirst, "later_block_capacity": th.capLater, "iend_fits_up_to_first": th.fitFirst, "iend_fits_up_to_later": th.fitLater},
			"thresholds_observed_match_code_reading":                             th.matchCode,
			"thresholds_explored":                                                nThr,
		},
	}, []string{
		"image/png (Go standard library) is the 'standard decoder' of the property; it verifies chunk CRCs and the zlib Adler-32",
		"the walker additionally demands what the PNG/zlib specs demand of a datastream (nothing after IEND, nothing after the Adler-32, IDATs consecutive); any IDAT/block framing the specs allow is accepted",
		"an 8-bit sample v and a 16-bit sample v*0x101 are treated as the same pixel value (the oracle does not demand a particular IHDR colour type / bit depth)",
		"the caller's buffer has the minimal length (h-1)*stride + row bytes; stride padding, the X channel and bytes of earlier images carry distinguishable codes",
		"after an Encode whose Writer returned an error, the next Encode on the same Encoder is required to be valid (reading of 'can be reused'); the failed call itself is only required not to panic",
	})
}

// ---- replay -----------------------------------------------------------------

func replay(path string) {
	b, err := os.ReadFile(path)
	if err != nil {
		ev.Fatal("%v", err)
	}
	var doc struct {
		Signature string  `json:"signature"`
		Witness   witness `json:"witness"`
	}
	if err := json.Unmarshal(b, &doc); err != nil {
		ev.Fatal("%v", err)
	}
	fmt.Printf("replaying %s\n", doc.Signature)
	st := newWstate()
	enc := new(uncompng.Encoder)
	bad := false
	for i, c := range doc.Witness.Calls {
		f, ok := formatByName(c.Format)
		if !ok {
			ev.Fatal("bad format %q", c.Format)
		}
		pix, stride, err := buildPix(c, f, nil)
		if err != nil {
			ev.Fatal("%v", err)
		}
		fail, encErr := encodeOnce(enc, st, c, f, pix, stride)
		fmt.Printf("call %d: Encode(%s %dx%d stride=%d content=%s fail_at_write=%d): err=%v writes=%v output=%d bytes (raw data %d bytes)\n",
			i, c.Format, c.W, c.H, stride, short(c.Content), c.FailAtWrite, encErr, st.writes, len(st.out), rawLen(f, c))
		if fail != nil {
			fmt.Printf("  %s: %s\n", fail.Clause, fail.Detail)
			bad = true
			break
		}
		if c.FailAtWrite > 0 {
			continue
		}
		if encErr != nil {
			fmt.Printf("  Encode-returns-error\n")
			bad = true
			break
		}
		oc, fail := checkOutput(st, c, f, pix, stride, true)
		if fail != nil {
			fmt.Printf("  BROKEN %s: %s\n", fail.Clause, fail.Detail)
			bad = true
			break
		}
		fmt.Printf("  ok: %d IDAT, IEND separate=%v, sha=%s\n", oc.nIDAT, oc.sepIEND, oc.hash)
	}
	if bad {
		fmt.Println("violation reproduced")
		os.Exit(1)
	}
	fmt.Println("no violation on this tree")
}
