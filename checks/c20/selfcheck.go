// Self-check of the map-range rewriter and of verifmo against an independent oracle,
// run before every exploration: a program holding every loop form the rewriter accepts
// (selfcheck/prog.go.txt) is run as written and as rewritten, under both loop-variable
// semantics (go 1.16 / go 1.22 modules). The rewritten program must
//   - visit, at every site, exactly the keys the original visits (same multiset),
//   - in ascending / descending / rotated order as $VERIF_MAPORDER says, judged here by
//     sorting the printed keys (not by verifmo's comparator),
//   - leave every order-independent result (deletion during the loop, values updated
//     during the loop, single evaluation of the ranged expression, nil maps) unchanged,
//   - keep the loop-variable capture semantics of the module's language version,
//   - report the sites it ran in $VERIF_MAPHITS.
//
// Any mismatch is a harness error (exit 2), never a violation.
package main

import (
	_ "embed"
	"fmt"
	"go/importer"
	"go/token"
	"io"
	"os"
	"path/filepath"
	"sort"
	"strings"

	"verif/internal/ev"
)

//go:embed selfcheck/prog.go.txt
var scProg []byte

//go:embed selfcheck/keys.go.txt
var scKeys []byte

func applyPolicy(sorted []string, pol string) []string {
	out := append([]string(nil), sorted...)
	switch pol {
	case "desc":
		for i, j := 0, len(out)-1; i < j; i, j = i+1, j-1 {
			out[i], out[j] = out[j], out[i]
		}
	case "rot1":
		if len(out) > 1 {
			out = append(out[1:], out[0])
		}
	}
	return out
}

func selfCheckRewriter(scratch string) (sitesChecked int) {
	for _, goVersion := range []string{"1.16", "1.22"} {
		mod := filepath.Join(scratch, "selfcheck-go"+goVersion)
		for _, v := range []string{"orig", "twin"} {
			d := filepath.Join(mod, v)
			os.MkdirAll(filepath.Join(d, "cmd/sc"), 0o755)
			os.MkdirAll(filepath.Join(d, "lib/sckeys"), 0o755)
			os.MkdirAll(filepath.Join(d, "lib/verifmo"), 0o755)
			os.WriteFile(filepath.Join(d, "go.mod"), []byte("module "+wuffsMod+"\n\ngo "+goVersion+"\n"), 0o644)
			os.WriteFile(filepath.Join(d, "lib/sckeys/keys.go"), scKeys, 0o644)
			os.WriteFile(filepath.Join(d, "lib/verifmo/verifmo.go"), verifmoSrc, 0o644)
			os.WriteFile(filepath.Join(d, "cmd/sc/main.go"), scProg, 0o644)
		}
		orig, twin := filepath.Join(mod, "orig"), filepath.Join(mod, "twin")
		env := append(envWithout(os.Environ(), "GOFLAGS", "VERIF_MAPORDER", "VERIF_MAPHITS"), "GOFLAGS=-mod=mod")
		// type information for the rewriter
		pkgs, err := goListIn(orig, env, "./cmd/sc")
		if err != nil {
			ev.Fatal("rewriter self-check: %v", err)
		}
		exports := map[string]string{}
		for _, p := range pkgs {
			if p.Export != "" {
				exports[p.ImportPath] = p.Export
			}
		}
		fset := token.NewFileSet()
		imp := importer.ForCompiler(fset, "gc", func(path string) (io.ReadCloser, error) {
			if e := exports[path]; e != "" {
				return os.Open(e)
			}
			return nil, fmt.Errorf("no export data for %q", path)
		})
		perIter, _ := loopVarPerIteration(goVersion)
		res := &rewriteResult{Replace: map[string][]byte{}, NondetAPI: map[string]int{}}
		mainGo := filepath.Join(orig, "cmd/sc/main.go")
		if err := res.rewriteUnit(fset, imp, orig, wuffsMod+"/cmd/sc", []string{mainGo}, "selfcheck", perIter); err != nil {
			ev.Fatal("rewriter self-check: the rewriter refuses its own test program: %v", err)
		}
		const wantSites = 19
		if len(res.Sites) != wantSites {
			ev.Fatal("rewriter self-check: found %d map-range sites in the test program, expected %d", len(res.Sites), wantSites)
		}
		for _, s := range res.Sites {
			if !s.Controlled {
				ev.Fatal("rewriter self-check: site %s not controlled: %s", s.ID, s.Why)
			}
		}
		sitesChecked = len(res.Sites)
		if err := os.WriteFile(filepath.Join(twin, "cmd/sc/main.go"), res.Replace[mainGo], 0o644); err != nil {
			ev.Fatal("%v", err)
		}
		for _, d := range []string{orig, twin} {
			if out, err := sh(d, env, "go", "build", "-o", filepath.Join(d, "sc"), "./cmd/sc"); err != nil {
				ev.Fatal("rewriter self-check: building %s (go %s): %v\n%s", filepath.Base(d), goVersion, err, out)
			}
		}
		parse := func(out string) map[string][]string {
			m := map[string][]string{}
			for _, ln := range strings.Split(strings.TrimSpace(out), "\n") {
				f := strings.Fields(ln)
				if len(f) < 2 {
					continue
				}
				key := f[0] + " " + f[1]
				if f[0] == "CAPTURE" {
					key = "CAPTURE"
					f = append([]string{f[0], ""}, f[1:]...)
				}
				for m[key] != nil { // ORDER 7in appears once per outer key
					key += "'"
				}
				m[key] = append([]string{}, f[2:]...)
				if len(f) == 2 {
					m[key] = []string{}
				}
			}
			return m
		}
		refOut, err := sh(orig, env, filepath.Join(orig, "sc"))
		if err != nil {
			ev.Fatal("rewriter self-check: original program failed: %v %s", err, refOut)
		}
		ref := parse(refOut)
		sortedCopy := func(s []string) []string {
			c := append([]string(nil), s...)
			sort.Strings(c)
			return c
		}
		for _, pol := range []string{"asc", "desc", "rot1", "asc,0=desc"} {
			hits := filepath.Join(mod, "hits")
			os.Remove(hits)
			out, err := sh(twin, append(env, "VERIF_MAPORDER="+pol, "VERIF_MAPHITS="+hits), filepath.Join(twin, "sc"))
			if err != nil {
				ev.Fatal("rewriter self-check: rewritten program failed (go %s, %s): %v %s", goVersion, pol, err, out)
			}
			got := parse(out)
			if len(got) != len(ref) {
				ev.Fatal("rewriter self-check (go %s, %s): %d output lines, original has %d", goVersion, pol, len(got), len(ref))
			}
			// "ORDER 7in" lines come out in the order of the outer loop: compare as a set of lines
			var in7ref, in7got []string
			for key, toks := range got {
				where := fmt.Sprintf("rewriter self-check (go %s, VERIF_MAPORDER=%s, line %q)", goVersion, pol, key)
				r, ok := ref[key]
				if !ok {
					ev.Fatal("%s: no such line in the original's output", where)
				}
				sitePol := pol
				if pol == "asc,0=desc" {
					sitePol = "asc"
					if key == "ORDER 1" {
						sitePol = "desc"
					}
				}
				switch {
				case strings.HasPrefix(key, "ORDER 7in"):
					in7ref = append(in7ref, strings.Join(sortedCopy(r), " "))
					in7got = append(in7got, strings.Join(sortedCopy(toks), " "))
					if want := applyPolicy(sortedCopy(toks), sitePol); strings.Join(want, " ") != strings.Join(toks, " ") {
						ev.Fatal("%s: visiting order %v, want %v", where, toks, want)
					}
				case strings.HasPrefix(key, "ORDER"):
					if strings.Join(sortedCopy(r), " ") != strings.Join(sortedCopy(toks), " ") {
						ev.Fatal("%s: visited keys %v, the original visits %v", where, sortedCopy(toks), sortedCopy(r))
					}
					if len(toks) < 2 {
						ev.Fatal("%s: fewer than two keys, the line checks nothing", where)
					}
					if want := applyPolicy(sortedCopy(toks), sitePol); strings.Join(want, " ") != strings.Join(toks, " ") {
						ev.Fatal("%s: visiting order %v, want %v", where, toks, want)
					}
				case strings.HasPrefix(key, "FREE"):
					if strings.Join(r, " ") != strings.Join(toks, " ") {
						ev.Fatal("%s: %v, the original prints %v", where, toks, r)
					}
				case strings.HasPrefix(key, "LAST"):
					want := map[string]string{"asc": "e 5", "desc": "a 1", "rot1": "a 1"}[sitePol]
					if strings.Join(toks, " ") != want {
						ev.Fatal("%s: %v, want %s", where, toks, want)
					}
				case key == "CAPTURE":
					want := "15" // per-iteration variables: 1+2+3+4+5
					if !perIter {
						want = map[string]string{"asc": "25", "desc": "5", "rot1": "5"}[sitePol] // 5 closures see the last value
					}
					if strings.Join(toks, " ") != want {
						ev.Fatal("%s: %v, want %s", where, toks, want)
					}
				default:
					ev.Fatal("%s: unknown line kind", where)
				}
			}
			sort.Strings(in7ref)
			sort.Strings(in7got)
			if strings.Join(in7ref, "|") != strings.Join(in7got, "|") || len(in7got) != 2 {
				ev.Fatal("rewriter self-check (go %s, %s): inner loops visit %v, the original %v", goVersion, pol, in7got, in7ref)
			}
			// the hits file: every site reached; all but the nil/empty-map sites with >= 2 keys
			res := &result{Hits: map[int]int{}, Procs: map[int]bool{}}
			(&lab{}).readHits(hits, res)
			lvl2 := 0
			for _, s := range res.Sites() {
				if res.Hits[s] >= 2 {
					lvl2++
				}
			}
			if len(res.Hits) != wantSites || lvl2 != wantSites-2 || len(res.Procs) != 1 {
				ev.Fatal("rewriter self-check (go %s, %s): hits file reports %d sites reached, %d with >= 2 keys, GOMAXPROCS %v; want %d, %d and one value",
					goVersion, pol, len(res.Hits), lvl2, res.Procs, wantSites, wantSites-2)
			}
		}
		// a bad policy must stop the program, not be ignored
		if out, err := sh(twin, append(env, "VERIF_MAPORDER=sideways"), filepath.Join(twin, "sc")); err == nil {
			ev.Fatal("rewriter self-check: VERIF_MAPORDER=sideways was accepted: %s", clip(out, 200))
		}
	}
	// constructs the rewriter must refuse rather than mistranslate
	for name, src := range map[string]string{
		"goto into the loop label": "package p\nfunc f(m map[int]int) {\n\tgoto l\nl:\n\tfor range m {\n\t}\n}\n",
		"comment in the header":    "package p\nfunc f(m map[int]int) {\n\tfor k := /* c */ range m {\n\t\t_ = k\n\t}\n}\n",
		"verifmo already used":     "package p\nvar verifmoX int\nfunc f(m map[int]int) {\n\tfor range m {\n\t}\n}\n",
	} {
		d := filepath.Join(scratch, "selfcheck-refuse")
		os.MkdirAll(d, 0o755)
		fn := filepath.Join(d, "p.go")
		os.WriteFile(fn, []byte(src), 0o644)
		res := &rewriteResult{Replace: map[string][]byte{}, NondetAPI: map[string]int{}}
		if err := res.rewriteUnit(token.NewFileSet(), importer.Default(), d, "p", []string{fn}, "selfcheck", false); err == nil {
			ev.Fatal("rewriter self-check: %q was not refused", name)
		}
	}
	return sitesChecked
}

func (r *result) Sites() []int {
	var s []int
	for k := range r.Hits {
		s = append(s, k)
	}
	sort.Ints(s)
	return s
}
