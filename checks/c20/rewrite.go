// E7 "detmc", part 1: find every `range` over a map-typed expression in the
// compiler's packages (working tree, at check time) and produce overlay twins in
// which the loop walks a key slice whose order is chosen per site by the
// environment (see verifmo.go.txt). Text splicing keeps every original line on
// its line; helper functions are appended at the end of each rewritten file.
//
// The rewriter refuses (error -> harness error, exit 2) any construct for which
// the twin would not be an order-for-order faithful copy of the original loop.
package main

import (
	"bytes"
	"encoding/json"
	"fmt"
	"go/ast"
	"go/importer"
	"go/parser"
	"go/token"
	"go/types"
	"io"
	"os"
	"os/exec"
	"path/filepath"
	"sort"
	"strings"
)

type site struct {
	Index      int    `json:"index"`
	ID         string `json:"id"`   // <file relative to the repo>:<func>[#n]
	Pos        string `json:"pos"`  // file:line
	Expr       string `json:"expr"` // the ranged expression
	KeyType    string `json:"key_type"`
	Controlled bool   `json:"controlled"`
	Why        string `json:"why,omitempty"` // why not controlled
	Unit       string `json:"unit"`          // "tools" or "datagen"
}

type listedPkg struct {
	ImportPath string
	Dir        string
	GoFiles    []string
	Export     string
	Standard   bool
	Module     *struct{ Path, Dir, GoVersion string }
	Error      *struct{ Err string }
}

func goList(args ...string) ([]listedPkg, error) { return goListIn("/verif", nil, args...) }

func goListIn(dir string, env []string, args ...string) ([]listedPkg, error) {
	cmd := exec.Command("go", append([]string{"list", "-export", "-deps", "-json=ImportPath,Dir,GoFiles,Export,Standard,Module,Error"}, args...)...)
	cmd.Dir = dir
	if env != nil {
		cmd.Env = env
	}
	var stderr bytes.Buffer
	cmd.Stderr = &stderr
	out, err := cmd.Output()
	if err != nil {
		return nil, fmt.Errorf("go list %v: %v\n%s", args, err, stderr.String())
	}
	dec := json.NewDecoder(bytes.NewReader(out))
	var pkgs []listedPkg
	for {
		var p listedPkg
		if err := dec.Decode(&p); err == io.EOF {
			break
		} else if err != nil {
			return nil, err
		}
		if p.Error != nil {
			return nil, fmt.Errorf("go list: %s: %s", p.ImportPath, p.Error.Err)
		}
		pkgs = append(pkgs, p)
	}
	return pkgs, nil
}

const wuffsMod = "github.com/google/wuffs"
const verifmoPath = wuffsMod + "/lib/verifmo"

// nondetAPIs are recorded (information only) when referenced from the compiler's packages.
var nondetAPIs = map[string]bool{
	"time.Now": true, "time.Since": true, "os.Getpid": true, "os.Getppid": true, "os.Hostname": true,
	"os.Getenv": true, "os.LookupEnv": true, "os.Environ": true, "os.Getwd": true, "os.UserHomeDir": true,
	"os.Getuid": true, "os.TempDir": true, "os.MkdirTemp": true, "os.CreateTemp": true,
}

type rewriteResult struct {
	Sites        []site
	Replace      map[string][]byte // absolute original path -> twin contents
	Packages     []string          // wuffs packages scanned
	NondetAPI    map[string]int    // "pkg.Func @ rel/file.go" -> references
	GoVersion    string            // the wuffs module's language version
	PerIteration bool              // go >= 1.22: range variables are per iteration
}

func loopVarPerIteration(goVersion string) (bool, error) {
	var major, minor int
	if _, err := fmt.Sscanf(goVersion, "%d.%d", &major, &minor); err != nil {
		return false, fmt.Errorf("cannot parse the wuffs module's go version %q", goVersion)
	}
	return major > 1 || minor >= 22, nil
}

// rewriteCompiler scans the wuffs-module packages in the dependency closure of
// cmd/wuffs and cmd/wuffs-c, plus lang/check/gen.go as a unit of its own.
func rewriteCompiler(repo string) (*rewriteResult, error) {
	res := &rewriteResult{Replace: map[string][]byte{}, NondetAPI: map[string]int{}}
	genGo := filepath.Join(repo, "lang/check/gen.go")
	pkgs, err := goList(wuffsMod+"/cmd/wuffs", wuffsMod+"/cmd/wuffs-c")
	if err != nil {
		return nil, err
	}
	pkgs2, err := goList(genGo)
	if err != nil {
		return nil, err
	}
	exports := map[string]string{}
	for _, p := range append(append([]listedPkg{}, pkgs...), pkgs2...) {
		if p.Export != "" {
			exports[p.ImportPath] = p.Export
		}
	}
	fset := token.NewFileSet()
	imp := importer.ForCompiler(fset, "gc", func(path string) (io.ReadCloser, error) {
		e := exports[path]
		if e == "" {
			return nil, fmt.Errorf("no export data for %q", path)
		}
		return os.Open(e)
	})
	must := map[string]bool{"lang/check": false, "lang/ast": false, "lang/parse": false, "lang/token": false, "lang/builtin": false,
		"lang/generate": false, "lang/wuffsroot": false, "internal/cgen": false, "cmd/wuffs": false, "cmd/wuffs-c": false, "lib/dumbindent": false}
	for _, p := range pkgs {
		if p.Standard || p.Module == nil || p.Module.Path != wuffsMod {
			continue
		}
		if filepath.Clean(p.Module.Dir) != filepath.Clean(repo) {
			return nil, fmt.Errorf("module %s resolves to %s, not to the tree under check %s", wuffsMod, p.Module.Dir, repo)
		}
		rel := strings.TrimPrefix(p.ImportPath, wuffsMod+"/")
		if _, ok := must[rel]; ok {
			must[rel] = true
		}
		res.Packages = append(res.Packages, rel)
		var files []string
		for _, f := range p.GoFiles {
			files = append(files, filepath.Join(p.Dir, f))
		}
		perIter, err := loopVarPerIteration(p.Module.GoVersion)
		if err != nil {
			return nil, err
		}
		res.GoVersion, res.PerIteration = p.Module.GoVersion, perIter
		if err := res.rewriteUnit(fset, imp, repo, p.ImportPath, files, "tools", perIter); err != nil {
			return nil, err
		}
	}
	for rel, seen := range must {
		if !seen {
			return nil, fmt.Errorf("package %s is not in the dependency closure of cmd/wuffs + cmd/wuffs-c any more: the scan's scope needs a review", rel)
		}
	}
	// gen.go is run by `go run gen.go` inside the wuffs module: same language version.
	if err := res.rewriteUnit(fset, imp, repo, "command-line-arguments", []string{genGo}, "datagen", res.PerIteration); err != nil {
		return nil, err
	}
	return res, nil
}

type edit struct {
	off  int
	del  int
	text string
}

func (res *rewriteResult) rewriteUnit(fset *token.FileSet, imp types.Importer, repo, pkgPath string, filenames []string, unit string, perIteration bool) error {
	var files []*ast.File
	srcs := map[*ast.File][]byte{}
	names := map[*ast.File]string{}
	for _, fn := range filenames {
		src, err := os.ReadFile(fn)
		if err != nil {
			return err
		}
		f, err := parser.ParseFile(fset, fn, src, parser.ParseComments|parser.SkipObjectResolution)
		if err != nil {
			return err
		}
		files = append(files, f)
		srcs[f] = src
		names[f] = fn
	}
	info := &types.Info{Types: map[ast.Expr]types.TypeAndValue{}, Uses: map[*ast.Ident]types.Object{}, Defs: map[*ast.Ident]types.Object{}}
	conf := types.Config{Importer: imp}
	pkg, err := conf.Check(pkgPath, fset, files, info)
	if err != nil {
		return fmt.Errorf("type-checking %s: %v", pkgPath, err)
	}
	for _, f := range files {
		fn := names[f]
		rel, _ := filepath.Rel(repo, fn)
		src := srcs[f]
		// information: references to APIs whose result depends on the process environment
		ast.Inspect(f, func(n ast.Node) bool {
			if se, ok := n.(*ast.SelectorExpr); ok {
				if o, ok := info.Uses[se.Sel]; ok && o.Pkg() != nil {
					k := o.Pkg().Path() + "." + o.Name()
					if nondetAPIs[k] || o.Pkg().Path() == "math/rand" || o.Pkg().Path() == "crypto/rand" {
						res.NondetAPI[k+" @ "+rel]++
					}
				}
			}
			return true
		})
		edits, helpers, sites, err := rewriteFile(fset, pkg, info, f, src, rel, len(res.Sites), unit, perIteration)
		if err != nil {
			return fmt.Errorf("%s: %v", rel, err)
		}
		res.Sites = append(res.Sites, sites...)
		if len(edits) == 0 {
			continue
		}
		for _, cg := range f.Comments {
			if cg.Pos() < f.Package && strings.Contains(cg.Text(), "go1.") {
				return fmt.Errorf("%s: a build constraint mentions a go version; the file's language version may differ from go.mod's", rel)
			}
		}
		if bytes.Contains(src, []byte("verifmo")) {
			return fmt.Errorf("%s: the identifier prefix verifmo is already in use", rel)
		}
		// import, on the package clause's own line (line numbers stay put)
		edits = append(edits, edit{off: fset.Position(f.Name.End()).Offset, text: `; import verifmo "` + verifmoPath + `"`})
		sort.SliceStable(edits, func(i, j int) bool { return edits[i].off < edits[j].off })
		for i := 1; i < len(edits); i++ {
			if edits[i-1].off+edits[i-1].del > edits[i].off {
				return fmt.Errorf("%s: overlapping rewrites near offset %d (a map range inside another range header?)", rel, edits[i].off)
			}
		}
		var out bytes.Buffer
		at := 0
		for _, e := range edits {
			out.Write(src[at:e.off])
			out.WriteString(e.text)
			at = e.off + e.del
		}
		out.Write(src[at:])
		out.WriteString("\n// ---- appended by the C20 map-range rewriter ----\n")
		out.WriteString(helpers)
		// the twin must still parse
		if _, err := parser.ParseFile(token.NewFileSet(), fn, out.Bytes(), 0); err != nil {
			return fmt.Errorf("%s: twin does not parse: %v", rel, err)
		}
		res.Replace[fn] = out.Bytes()
	}
	return nil
}

// orderable reports whether values of type t have a total order that depends on
// nothing but the value (so that asc/desc/rot1 mean the same thing in every run).
func orderable(t types.Type) (bool, string) {
	switch u := t.Underlying().(type) {
	case *types.Basic:
		if u.Info()&(types.IsInteger|types.IsString|types.IsBoolean) != 0 {
			return true, ""
		}
		return false, "key kind " + u.String() + " has no run-independent total order"
	case *types.Array:
		return orderable(u.Elem())
	case *types.Struct:
		for i := 0; i < u.NumFields(); i++ {
			if ok, why := orderable(u.Field(i).Type()); !ok {
				return false, why
			}
		}
		return true, ""
	case *types.Pointer:
		return false, "pointer keys: order would depend on addresses; needs insertion instrumentation"
	case *types.Interface:
		return false, "interface keys: dynamic type unknown statically"
	}
	return false, fmt.Sprintf("key type %s not handled", t)
}

func enclosingFuncName(stack []ast.Node) string {
	name := "(file scope)"
	for _, n := range stack {
		if fd, ok := n.(*ast.FuncDecl); ok {
			name = fd.Name.Name
			if fd.Recv != nil && len(fd.Recv.List) == 1 {
				t := fd.Recv.List[0].Type
				if s, ok := t.(*ast.StarExpr); ok {
					t = s.X
				}
				if id, ok := t.(*ast.Ident); ok {
					name = id.Name + "." + name
				}
			}
		}
	}
	return name
}

func rewriteFile(fset *token.FileSet, pkg *types.Package, info *types.Info, f *ast.File, src []byte, rel string, firstIndex int, unit string, perIteration bool) (edits []edit, helpers string, sites []site, err error) {
	// package qualifier: the name under which this file imports a package
	importName := map[string]string{}
	for _, is := range f.Imports {
		p := strings.Trim(is.Path.Value, `"`)
		if is.Name != nil {
			importName[p] = is.Name.Name
		}
	}
	var qualErr error
	qual := func(p *types.Package) string {
		if p == pkg {
			return ""
		}
		if n, ok := importName[p.Path()]; ok {
			if n == "." {
				return ""
			}
			if n == "_" {
				qualErr = fmt.Errorf("package %s is imported as _", p.Path())
			}
			return n
		}
		for _, is := range f.Imports {
			if strings.Trim(is.Path.Value, `"`) == p.Path() {
				return p.Name()
			}
		}
		qualErr = fmt.Errorf("type from package %s cannot be spelled: the file does not import it", p.Path())
		return p.Name()
	}
	off := func(p token.Pos) int { return fset.Position(p).Offset }
	text := func(n ast.Node) string { return string(src[off(n.Pos()):off(n.End())]) }
	perFunc := map[string]int{}
	var hb strings.Builder

	var stack []ast.Node
	var walkErr error
	fail := func(n ast.Node, format string, a ...any) {
		if walkErr == nil {
			walkErr = fmt.Errorf("line %d: %s", fset.Position(n.Pos()).Line, fmt.Sprintf(format, a...))
		}
	}
	// labels that are the target of a goto
	gotoTargets := map[string]bool{}
	ast.Inspect(f, func(n ast.Node) bool {
		if b, ok := n.(*ast.BranchStmt); ok && b.Tok == token.GOTO && b.Label != nil {
			gotoTargets[b.Label.Name] = true
		}
		return true
	})
	ast.Inspect(f, func(n ast.Node) bool {
		if n == nil {
			stack = stack[:len(stack)-1]
			return true
		}
		stack = append(stack, n)
		rs, ok := n.(*ast.RangeStmt)
		if !ok {
			return true
		}
		tv, ok := info.Types[rs.X]
		if !ok {
			fail(rs, "no type for range expression %s", text(rs.X))
			return true
		}
		var mt *types.Map
		switch u := tv.Type.Underlying().(type) {
		case *types.Map:
			mt = u
		case *types.Pointer, *types.Slice, *types.Array, *types.Basic, *types.Chan, *types.Signature:
			return true
		default:
			fail(rs, "range over %s (type %s): cannot tell whether this is a map", text(rs.X), tv.Type)
			return true
		}
		fn := enclosingFuncName(stack)
		perFunc[fn]++
		id := rel + ":" + fn
		if perFunc[fn] > 1 {
			id += fmt.Sprintf("#%d", perFunc[fn])
		}
		s := site{Index: firstIndex + len(sites), ID: id, Pos: fmt.Sprintf("%s:%d", rel, fset.Position(rs.Pos()).Line),
			Expr: text(rs.X), KeyType: types.TypeString(mt.Key(), qual), Unit: unit}
		if ok, why := orderable(mt.Key()); !ok {
			s.Why = why
			sites = append(sites, s)
			return true
		}
		N := s.Index
		qualErr = nil
		keyT := types.TypeString(mt.Key(), qual)
		mapT := types.TypeString(tv.Type, qual)
		if qualErr != nil {
			fail(rs, "%v", qualErr)
			return true
		}
		if strings.Contains(keyT+mapT, "invalid type") {
			fail(rs, "cannot spell the map type %s", mapT)
			return true
		}
		// unexported named types of other packages cannot be spelled here
		var unexp string
		var visit func(t types.Type, depth int)
		visit = func(t types.Type, depth int) {
			if depth > 8 {
				return
			}
			switch u := t.(type) {
			case *types.Named:
				if o := u.Obj(); o.Pkg() != nil && o.Pkg() != pkg && !o.Exported() {
					unexp = o.Pkg().Path() + "." + o.Name()
				}
			case *types.Map:
				visit(u.Key(), depth+1)
				visit(u.Elem(), depth+1)
			case *types.Pointer:
				visit(u.Elem(), depth+1)
			case *types.Slice:
				visit(u.Elem(), depth+1)
			case *types.Array:
				visit(u.Elem(), depth+1)
			}
		}
		visit(tv.Type, 0)
		if unexp != "" {
			fail(rs, "map type mentions unexported %s", unexp)
			return true
		}

		// Where the replaced text starts: at the label when the loop is labelled.
		start := rs.Pos()
		if len(stack) >= 2 {
			if ls, ok := stack[len(stack)-2].(*ast.LabeledStmt); ok {
				if gotoTargets[ls.Label.Name] {
					fail(rs, "labelled map range is a goto target")
					return true
				}
				start = ls.Pos()
			}
		}
		// "" or "label:" plus whatever separates it from the loop (kept verbatim, so a
		// label on a line of its own keeps its line)
		label := string(src[off(start):off(rs.Pos())])
		hdr := string(src[off(rs.Pos()):off(rs.X.Pos())]) + string(src[off(rs.X.End()):off(rs.Body.Lbrace)])
		if strings.Contains(hdr, "\n") || strings.Contains(hdr, "/*") || strings.Contains(hdr, "//") {
			fail(rs, "range header spans lines or holds a comment outside the ranged expression")
			return true
		}
		if x := text(rs.X); strings.Contains(x, "//") {
			fail(rs, "ranged expression holds a line comment")
			return true
		}

		m := fmt.Sprintf("verifmoM%d", N)
		k := fmt.Sprintf("verifmoK%d", N)
		v := fmt.Sprintf("verifmoV%d", N)
		okv := fmt.Sprintf("verifmoOk%d", N)
		isBlank := func(e ast.Expr) bool {
			if e == nil {
				return true
			}
			id, ok := e.(*ast.Ident)
			return ok && id.Name == "_"
		}
		var loopKey, prologue, preDecl string
		switch rs.Tok {
		case token.DEFINE:
			if !isBlank(rs.Key) {
				if _, ok := rs.Key.(*ast.Ident); !ok {
					fail(rs, "range key is not an identifier")
					return true
				}
				loopKey = text(rs.Key)
			} else {
				loopKey = k
			}
			if !isBlank(rs.Value) {
				if _, ok := rs.Value.(*ast.Ident); !ok {
					fail(rs, "range value is not an identifier")
					return true
				}
				if perIteration {
					prologue = fmt.Sprintf("%s, %s := %s[%s]; if !%s { continue }; ", text(rs.Value), okv, m, loopKey, okv)
				} else {
					// before go1.22 the value variable is one variable for the whole loop
					preDecl = fmt.Sprintf("var %s %s; var %s bool; ", text(rs.Value), types.TypeString(mt.Elem(), qual), okv)
					prologue = fmt.Sprintf("%s, %s = %s[%s]; if !%s { continue }; ", text(rs.Value), okv, m, loopKey, okv)
				}
			} else {
				prologue = fmt.Sprintf("if _, %s := %s[%s]; !%s { continue }; ", okv, m, loopKey, okv)
			}
		case token.ASSIGN:
			loopKey = k
			prologue = fmt.Sprintf("%s, %s := %s[%s]; if !%s { continue }; ", v, okv, m, k, okv)
			if !isBlank(rs.Key) {
				prologue += fmt.Sprintf("%s = %s; ", text(rs.Key), k)
			}
			if !isBlank(rs.Value) {
				prologue += fmt.Sprintf("%s = %s; ", text(rs.Value), v)
			} else {
				prologue += fmt.Sprintf("_ = %s; ", v)
			}
		case token.ILLEGAL: // for range m
			loopKey = k
			prologue = fmt.Sprintf("if _, %s := %s[%s]; !%s { continue }; ", okv, m, k, okv)
		default:
			fail(rs, "unknown range form")
			return true
		}
		// { M := X; [label:] for _, K := range verifmoKeysN(M) { prologue  ...body... } }
		newHdr := fmt.Sprintf("{ %s := %s; %s%sfor _, %s := range verifmoKeys%d(%s) { %s", m, text(rs.X), preDecl, label, loopKey, N, m, prologue)
		edits = append(edits, edit{off: off(start), del: off(rs.Body.Lbrace) + 1 - off(start), text: newHdr})
		edits = append(edits, edit{off: off(rs.Body.Rbrace) + 1, text: " }"})
		fmt.Fprintf(&hb, `
func verifmoKeys%d(m %s) []%s {
	keys := make([]%s, 0, len(m))
	for k := range m {
		keys = append(keys, k)
	}
	verifmo.Order(%d, len(keys), func(i, j int) bool { return verifmo.Less(keys[i], keys[j]) }, func(i, j int) { keys[i], keys[j] = keys[j], keys[i] })
	return keys
}
`, N, mapT, keyT, keyT, N)
		s.Controlled = true
		sites = append(sites, s)
		return true
	})
	return edits, hb.String(), sites, walkErr
}
