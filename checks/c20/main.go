// C20: compilation is deterministic; the committed release is what the sources generate.
//
// Bounded-exhaustive exploration of the *environment* of the compiler (engine E7 "detmc"):
//
//   - workloads: all of std (`wuffs gen` in a scratch wuffs-root on tmpfs), four small
//     hand-written packages (hand/: multi-file, nested structs declared in reverse
//     dependency order, consts, statuses, a `use` between two of them), single packages
//     (`wuffs gen std/<p>`), and lang/check/gen.go (the axiom-table generator, run the way
//     `go generate` runs it, in a scratch module copy);
//   - dimensions: re-runs, GOMAXPROCS, TZ/LANG/HOME/USER/TMPDIR/GOGC/hostname/cwd/root path/
//     git-repository-or-not, directory enumeration order (every creation-order permutation
//     of a package's source files on tmpfs, which lists in reverse creation order; top-level
//     package directories created forwards and backwards), and map iteration order: every
//     `range` over a map in the compiler is rewritten at check time (rewrite.go) to walk a
//     key slice ordered per site by $VERIF_MAPORDER; baseline all-ascending, then each site
//     alone in desc and rot1, all sites desc / rot1 / native (thorough: all pairs and triples).
//
// Oracle: the SHA-256 of every generated file is the same in every explored environment;
// the regenerated monolithic release equals release/c/wuffs-unsupported-snapshot.c and
// gen.go's output equals lang/check/data.go, byte for byte.
package main

import (
	"bytes"
	"crypto/sha256"
	"embed"
	"encoding/hex"
	"encoding/json"
	"fmt"
	"io/fs"
	"os"
	"os/exec"
	"path/filepath"
	"runtime"
	"sort"
	"strconv"
	"strings"
	"sync"
	"sync/atomic"
	"syscall"
	"time"

	"verif/internal/ev"
	"verif/internal/wgen"
)

//go:embed verifmo.go.txt
var verifmoSrc []byte

//go:embed hand
var handFS embed.FS

// ---- worlds --------------------------------------------------------------------

// world is one generation run: a workload in one fully described environment.
type world struct {
	Name     string   `json:"name"`
	Dim      string   `json:"dimension"` // signature if this world deviates from its reference
	Workload string   `json:"workload"`  // std | hand | pkg | datago
	Pkg      string   `json:"pkg,omitempty"`
	Order    []string `json:"creation_order,omitempty"` // of Pkg's .wuffs files
	DirsRev  bool     `json:"package_dirs_created_in_reverse,omitempty"`
	Tools    string   `json:"tools"`         // plain | inst
	Env      []string `json:"env,omitempty"` // K=V sets, -K unsets
	Cwd      string   `json:"cwd,omitempty"` // "" = root, "sub" = a sub-directory, "symlink" = root reached through a symlink
	Git      bool     `json:"root_is_a_git_repository,omitempty"`
	UTSHost  string   `json:"uts_hostname,omitempty"`
	LongRoot bool     `json:"long_root_path,omitempty"`
	MapOrder string   `json:"maporder,omitempty"`
	Ref      string   `json:"reference"` // name of the world it must equal ("" for bases)
	Sites    []int    `json:"forced_sites,omitempty"`

	idx int
}

type result struct {
	Files    map[string]string // relative path -> sha256
	Err      string
	Hits     map[int]int // site -> highest level seen (1 reached, 2 reached with >= 2 keys)
	Procs    map[int]bool
	RawOrder string // raw Readdirnames order of Pkg's directory (.wuffs files)
	Root     string
	done     bool
}

type deviation struct {
	World   world  `json:"world"`
	Ref     world  `json:"reference_world"`
	File    string `json:"file"`
	Line    int    `json:"first_differing_line"`
	RefLine string `json:"reference_line"`
	GotLine string `json:"deviating_line"`
	Note    string `json:"note,omitempty"`
}

type lab struct {
	scratch  string
	repo     string
	plainBin string
	instBin  string
	dgPlain  string
	dgInst   string
	sites    []site
	rw       *rewriteResult
	canUTS   bool
	canGit   bool
	baseEnv  []string
	nRoots   int
	mu       sync.Mutex
}

func sh(dir string, env []string, name string, args ...string) (string, error) {
	cmd := exec.Command(name, args...)
	cmd.Dir = dir
	if env != nil {
		cmd.Env = env
	}
	out, err := cmd.CombinedOutput()
	return string(out), err
}

// ---- building ------------------------------------------------------------------

func (l *lab) build(needInst bool) {
	var wg sync.WaitGroup
	var errPlain, errInst, errDG error
	wg.Add(1)
	go func() {
		defer wg.Done()
		l.plainBin, errPlain = wgen.BuildTools(filepath.Join(l.scratch, "plain"))
	}()
	rw, err := rewriteCompiler(l.repo)
	if err != nil {
		wg.Wait()
		ev.Fatal("map-range rewriter: %v", err)
	}
	l.rw, l.sites = rw, rw.Sites
	ovDir := filepath.Join(l.scratch, "overlay")
	os.MkdirAll(ovDir, 0o755)
	replace := map[string]string{}
	n := 0
	var twinGenGo []byte
	for orig, twin := range rw.Replace {
		if strings.HasSuffix(orig, "/lang/check/gen.go") {
			twinGenGo = twin
			continue
		}
		p := filepath.Join(ovDir, fmt.Sprintf("twin%02d_%s", n, filepath.Base(orig)))
		n++
		if err := os.WriteFile(p, twin, 0o644); err != nil {
			ev.Fatal("%v", err)
		}
		replace[orig] = p
	}
	vm := filepath.Join(ovDir, "verifmo.go")
	os.WriteFile(vm, verifmoSrc, 0o644)
	replace[filepath.Join(l.repo, "lib/verifmo/verifmo.go")] = vm
	ovJSON, _ := json.Marshal(map[string]any{"Replace": replace})
	ovPath := filepath.Join(l.scratch, "overlay.json")
	os.WriteFile(ovPath, ovJSON, 0o644)
	if needInst {
		wg.Add(1)
		go func() {
			defer wg.Done()
			l.instBin = filepath.Join(l.scratch, "inst", "bin")
			os.MkdirAll(l.instBin, 0o755)
			for _, tool := range []string{"wuffs", "wuffs-c"} {
				out, err := sh("/verif", nil, "go", "build", "-overlay", ovPath, "-o", filepath.Join(l.instBin, tool), wuffsMod+"/cmd/"+tool)
				if err != nil {
					errInst = fmt.Errorf("go build -overlay %s: %v\n%s", tool, err, out)
					return
				}
			}
		}()
	}
	// lang/check/gen.go, run as `go generate` runs it: inside a module with the wuffs
	// module's path and language version (a scratch copy; nothing else is needed, gen.go
	// imports the standard library only).
	wg.Add(1)
	go func() {
		defer wg.Done()
		orig, err := os.ReadFile(filepath.Join(l.repo, "lang/check/gen.go"))
		if err != nil {
			errDG = err
			return
		}
		for _, v := range []struct {
			name string
			src  []byte
			out  *string
		}{{"datagen-plain", orig, &l.dgPlain}, {"datagen-inst", twinGenGo, &l.dgInst}} {
			if v.src == nil {
				if !needInst {
					continue
				}
				v.src = orig // no map range in gen.go: the instrumented twin is the original
			}
			mod := filepath.Join(l.scratch, v.name)
			os.MkdirAll(filepath.Join(mod, "lang/check"), 0o755)
			os.MkdirAll(filepath.Join(mod, "lib/verifmo"), 0o755)
			os.WriteFile(filepath.Join(mod, "go.mod"), []byte("module "+wuffsMod+"\n\ngo "+rw.GoVersion+"\n"), 0o644)
			os.WriteFile(filepath.Join(mod, "lang/check/gen.go"), v.src, 0o644)
			os.WriteFile(filepath.Join(mod, "lib/verifmo/verifmo.go"), verifmoSrc, 0o644)
			bin := filepath.Join(mod, "datagen")
			env := append(os.Environ(), "GOFLAGS=-mod=mod")
			if out, err := sh(filepath.Join(mod, "lang/check"), env, "go", "build", "-o", bin, "gen.go"); err != nil {
				errDG = fmt.Errorf("building %s: %v\n%s", v.name, err, out)
				return
			}
			*v.out = bin
		}
	}()
	wg.Wait()
	for _, e := range []error{errPlain, errInst, errDG} {
		if e != nil {
			ev.Fatal("build: %v", e)
		}
	}
}

// ---- roots ---------------------------------------------------------------------

type srcFile struct {
	rel  string // std/gif/decode_gif.wuffs
	data []byte
}

// sources lists top-level prefix ("std" from the tree under check, "hand" from the
// embedded hand-written packages) grouped by package directory, everything sorted.
func (l *lab) sources(prefix string) (dirs []string, files map[string][]srcFile) {
	files = map[string][]srcFile{}
	add := func(rel string, data []byte) {
		d := filepath.Dir(rel)
		if _, ok := files[d]; !ok {
			dirs = append(dirs, d)
		}
		files[d] = append(files[d], srcFile{rel, data})
	}
	if prefix == "hand" {
		fs.WalkDir(handFS, "hand", func(p string, d fs.DirEntry, err error) error {
			if err != nil {
				ev.Fatal("%v", err)
			}
			if !d.IsDir() {
				b, _ := handFS.ReadFile(p)
				add(p, b)
			}
			return nil
		})
	} else {
		base := filepath.Join(l.repo, prefix)
		filepath.WalkDir(base, func(p string, d fs.DirEntry, err error) error {
			if err != nil {
				ev.Fatal("%v", err)
			}
			if !d.IsDir() {
				b, err := os.ReadFile(p)
				if err != nil {
					ev.Fatal("%v", err)
				}
				rel, _ := filepath.Rel(l.repo, p)
				add(rel, b)
			}
			return nil
		})
	}
	sort.Strings(dirs)
	for _, d := range dirs {
		fl := files[d]
		sort.Slice(fl, func(i, j int) bool { return fl[i].rel < fl[j].rel })
	}
	return dirs, files
}

func (l *lab) makeRoot(root string, w *world) error {
	if err := os.MkdirAll(root, 0o755); err != nil {
		return err
	}
	b, err := os.ReadFile(filepath.Join(l.repo, "wuffs-root-directory.txt"))
	if err != nil {
		return err
	}
	if err := os.WriteFile(filepath.Join(root, "wuffs-root-directory.txt"), b, 0o644); err != nil {
		return err
	}
	prefix := "std"
	if w.Workload == "hand" || strings.HasPrefix(w.Pkg, "hand/") {
		prefix = "hand"
	}
	dirs, files := l.sources(prefix)
	if w.DirsRev {
		for i, j := 0, len(dirs)-1; i < j; i, j = i+1, j-1 {
			dirs[i], dirs[j] = dirs[j], dirs[i]
		}
	}
	for _, d := range dirs {
		if err := os.MkdirAll(filepath.Join(root, d), 0o755); err != nil {
			return err
		}
		fl := files[d]
		if d == w.Pkg && w.Order != nil {
			// non-source files first, then the .wuffs files in the requested creation order
			var ordered []srcFile
			byName := map[string]srcFile{}
			for _, f := range fl {
				if strings.HasSuffix(f.rel, ".wuffs") {
					byName[filepath.Base(f.rel)] = f
				} else {
					ordered = append(ordered, f)
				}
			}
			if len(byName) != len(w.Order) {
				return fmt.Errorf("creation order %v does not match the %d sources of %s", w.Order, len(byName), d)
			}
			for _, n := range w.Order {
				f, ok := byName[n]
				if !ok {
					return fmt.Errorf("creation order names %s, not a source of %s", n, d)
				}
				ordered = append(ordered, f)
			}
			fl = ordered
		}
		for _, f := range fl {
			if err := os.WriteFile(filepath.Join(root, f.rel), f.data, 0o644); err != nil {
				return err
			}
		}
	}
	return nil
}

func rawWuffsOrder(dir string) string {
	f, err := os.Open(dir)
	if err != nil {
		ev.Fatal("%v", err)
	}
	defer f.Close()
	names, err := f.Readdirnames(-1)
	if err != nil {
		ev.Fatal("%v", err)
	}
	var out []string
	for _, n := range names {
		if strings.HasSuffix(n, ".wuffs") {
			out = append(out, n)
		}
	}
	return strings.Join(out, " ")
}

// ---- running one world ---------------------------------------------------------

var scrubbed = []string{"GOMAXPROCS", "TZ", "LANG", "LC_ALL", "LANGUAGE", "GOGC", "GODEBUG", "PWD", "OLDPWD",
	"VERIF_MAPORDER", "VERIF_MAPHITS", "TMPDIR", "HOSTNAME", "GIT_DIR", "GIT_WORK_TREE"}

func envWithout(env []string, keys ...string) []string {
	var out []string
	for _, kv := range env {
		k := kv
		if i := strings.IndexByte(kv, '='); i >= 0 {
			k = kv[:i]
		}
		drop := false
		for _, x := range keys {
			if k == x {
				drop = true
			}
		}
		if !drop {
			out = append(out, kv)
		}
	}
	return out
}

func (l *lab) envFor(w *world, bin, hitsFile string) []string {
	env := envWithout(l.baseEnv, "PATH")
	env = append(env, "PATH="+bin+":"+os.Getenv("PATH"))
	for _, kv := range w.Env {
		if strings.HasPrefix(kv, "-") {
			env = envWithout(env, kv[1:])
		} else {
			env = append(envWithout(env, kv[:strings.IndexByte(kv, '=')]), kv)
		}
	}
	if w.Tools == "inst" {
		mo := w.MapOrder
		if mo == "" {
			mo = "asc"
		}
		env = append(env, "VERIF_MAPORDER="+mo, "VERIF_MAPHITS="+hitsFile)
	}
	return env
}

func hashTree(root string, tops ...string) (map[string]string, error) {
	out := map[string]string{}
	for _, top := range tops {
		err := filepath.WalkDir(filepath.Join(root, top), func(p string, d fs.DirEntry, err error) error {
			if err != nil {
				if os.IsNotExist(err) && p == filepath.Join(root, top) {
					return filepath.SkipAll
				}
				return err
			}
			if d.IsDir() {
				if d.Name() == ".git" {
					return filepath.SkipDir
				}
				return nil
			}
			b, err := os.ReadFile(p)
			if err != nil {
				return err
			}
			h := sha256.Sum256(b)
			rel, _ := filepath.Rel(root, p)
			out[rel] = hex.EncodeToString(h[:])
			return nil
		})
		if err != nil {
			return nil, err
		}
	}
	return out, nil
}

func (l *lab) run(w *world) *result {
	res := &result{Hits: map[int]int{}, Procs: map[int]bool{}, done: true}
	name := fmt.Sprintf("w%05d", w.idx)
	if w.LongRoot {
		name += "-a-considerably-longer-root-directory-name/with/more/levels"
	}
	root := filepath.Join(l.scratch, "roots", name)
	res.Root = root
	hitsFile := filepath.Join(l.scratch, "hits", fmt.Sprintf("w%05d", w.idx))
	bin := l.plainBin
	if w.Tools == "inst" {
		bin = l.instBin
	}
	if w.Workload == "datago" {
		if err := os.MkdirAll(root, 0o755); err != nil {
			ev.Fatal("%v", err)
		}
		ax, err := os.ReadFile(filepath.Join(l.repo, "lang/check/axioms.md"))
		if err != nil {
			ev.Fatal("%v", err)
		}
		os.WriteFile(filepath.Join(root, "axioms.md"), ax, 0o644)
		exe := l.dgPlain
		if w.Tools == "inst" {
			exe = l.dgInst
		}
		if out, err := sh(root, l.envFor(w, bin, hitsFile), exe); err != nil {
			res.Err = fmt.Sprintf("gen.go failed: %v: %s", err, clip(out, 400))
		}
		os.Remove(filepath.Join(root, "axioms.md"))
		files, err := hashTree(root, ".")
		if err != nil {
			ev.Fatal("%v", err)
		}
		res.Files = files
		l.readHits(hitsFile, res)
		return res
	}
	if err := l.makeRoot(root, w); err != nil {
		ev.Fatal("making the scratch root: %v", err)
	}
	if w.Pkg != "" {
		res.RawOrder = rawWuffsOrder(filepath.Join(root, w.Pkg))
	}
	if w.Git {
		genv := append(envWithout(os.Environ(), "GIT_DIR", "GIT_WORK_TREE"), "GIT_CONFIG_GLOBAL=/dev/null", "GIT_CONFIG_SYSTEM=/dev/null")
		for _, a := range [][]string{{"init", "-q"}, {"add", "-A"}, {"-c", "user.name=c20", "-c", "user.email=c20@example.invalid", "commit", "-q", "-m", "scratch"}} {
			if out, err := sh(root, genv, "git", a...); err != nil {
				ev.Fatal("git %v in the scratch root: %v %s", a, err, out)
			}
		}
	}
	dir := root
	switch w.Cwd {
	case "sub":
		dir = filepath.Join(root, filepath.FromSlash(map[string]string{"std": "std/png", "hand": "hand/alpha"}[w.Workload]))
	case "symlink":
		link := filepath.Join(l.scratch, "roots", fmt.Sprintf("l%05d", w.idx))
		if err := os.Symlink(root, link); err != nil {
			ev.Fatal("%v", err)
		}
		defer os.Remove(link)
		dir = link
	}
	args := []string{"gen"}
	switch w.Workload {
	case "hand":
		args = append(args, "hand/...")
	case "pkg":
		args = append(args, w.Pkg)
	}
	argv := append([]string{filepath.Join(bin, "wuffs")}, args...)
	if w.UTSHost != "" {
		argv = append([]string{"unshare", "-u", "sh", "-c", `hostname "$0" && exec "$@"`, w.UTSHost}, argv...)
	}
	if out, err := sh(dir, l.envFor(w, bin, hitsFile), argv[0], argv[1:]...); err != nil {
		res.Err = fmt.Sprintf("%v failed: %v: %s", args, err, clip(out, 600))
	}
	files, err := hashTree(root, "gen", "release")
	if err != nil {
		ev.Fatal("%v", err)
	}
	res.Files = files
	l.readHits(hitsFile, res)
	return res
}

func (l *lab) readHits(hitsFile string, res *result) {
	b, err := os.ReadFile(hitsFile)
	if err != nil {
		return
	}
	os.Remove(hitsFile)
	for _, ln := range strings.Split(string(b), "\n") {
		f := strings.Fields(ln)
		if len(f) != 2 {
			continue
		}
		v, _ := strconv.Atoi(f[1])
		if f[0] == "P" {
			res.Procs[v] = true
			continue
		}
		s, _ := strconv.Atoi(f[0])
		if v > res.Hits[s] {
			res.Hits[s] = v
		}
	}
}

func clip(s string, n int) string {
	if len(s) > n {
		return s[:n] + "…"
	}
	return s
}

// compare returns the first deviation of got from ref (files present in both unless
// exact; exact also demands the same file set). skip filters paths out.
func compare(ref, got *result, exact bool, skip func(string) bool) (file string, note string, ok bool) {
	if got.Err != "" && ref.Err == "" {
		return "", "generation failed: " + got.Err, false
	}
	var names []string
	for f := range ref.Files {
		names = append(names, f)
	}
	sort.Strings(names)
	// the monolithic release last: a per-package file is the sharper witness
	sort.SliceStable(names, func(i, j int) bool {
		return !strings.HasPrefix(names[i], "release/") && strings.HasPrefix(names[j], "release/")
	})
	for _, f := range names {
		if skip != nil && skip(f) {
			continue
		}
		h, present := got.Files[f]
		if !present {
			if exact {
				return f, "file not generated", false
			}
			continue
		}
		if h != ref.Files[f] {
			return f, "", false
		}
	}
	if exact {
		var extra []string
		for f := range got.Files {
			if _, present := ref.Files[f]; !present && (skip == nil || !skip(f)) {
				extra = append(extra, f)
			}
		}
		if len(extra) > 0 {
			sort.Strings(extra)
			return extra[0], "extra file generated", false
		}
	}
	return "", "", true
}

func firstDiffLine(a, b []byte) (line int, la, lb string) {
	al := bytes.Split(a, []byte("\n"))
	bl := bytes.Split(b, []byte("\n"))
	for i := 0; i < len(al) || i < len(bl); i++ {
		var x, y []byte
		if i < len(al) {
			x = al[i]
		} else {
			x = []byte("<end of file>")
		}
		if i < len(bl) {
			y = bl[i]
		} else {
			y = []byte("<end of file>")
		}
		if !bytes.Equal(x, y) {
			return i + 1, clip(string(x), 240), clip(string(y), 240)
		}
	}
	return 0, "", ""
}

func describeDiff(refPath, gotPath string) (int, string, string) {
	a, err1 := os.ReadFile(refPath)
	b, err2 := os.ReadFile(gotPath)
	if err1 != nil || err2 != nil {
		return 0, fmt.Sprint(err1), fmt.Sprint(err2)
	}
	return firstDiffLine(a, b)
}

// ---- the space -----------------------------------------------------------------

func permutations(items []string) [][]string {
	if len(items) <= 1 {
		return [][]string{append([]string(nil), items...)}
	}
	var out [][]string
	for i := range items {
		rest := append(append([]string(nil), items[:i]...), items[i+1:]...)
		for _, p := range permutations(rest) {
			out = append(out, append([]string{items[i]}, p...))
		}
	}
	return out
}

func policyString(force map[int]string) string {
	var keys []int
	for k := range force {
		keys = append(keys, k)
	}
	sort.Ints(keys)
	s := "asc"
	for _, k := range keys {
		s += fmt.Sprintf(",%d=%s", k, force[k])
	}
	return s
}

func siteDim(s site) string {
	id := s.ID
	if i := strings.IndexByte(id, '#'); i >= 0 {
		id = id[:i]
	}
	return "maporder:" + id
}

func (l *lab) buildWorlds(thorough bool) []world {
	var ws []world
	add := func(w world) { w.idx = len(ws); ws = append(ws, w) }
	var toolSites, dgSites []site
	for _, s := range l.sites {
		if !s.Controlled {
			continue
		}
		if s.Unit == "tools" {
			toolSites = append(toolSites, s)
		} else {
			dgSites = append(dgSites, s)
		}
	}
	reruns, procs := 3, []int{1, 2, 16}
	if thorough {
		reruns, procs = 8, []int{1, 2, 3, 4, 8, 16, 64}
	}
	type envVar struct {
		dim string
		w   world
	}
	envVariants := func(all bool) []envVar {
		v := []envVar{
			{"env:TZ", world{Env: []string{"TZ=Pacific/Kiritimati"}}},
			{"env:TZ", world{Env: []string{"TZ=America/Los_Angeles"}}},
			{"env:LANG", world{Env: []string{"LANG=tr_TR.UTF-8", "LC_ALL=tr_TR.UTF-8"}}},
			{"env:LANG", world{Env: []string{"LANG=C", "LC_ALL=C"}}},
			{"env:HOME", world{Env: []string{"HOME=/nonexistent/c20-home"}}},
			{"env:HOME", world{Env: []string{"-HOME"}}},
			{"env:USER", world{Env: []string{"USER=c20-somebody-else", "LOGNAME=c20-somebody-else"}}},
			{"env:HOSTNAME", world{Env: []string{"HOSTNAME=c20-other-host"}}},
			{"env:TMPDIR", world{Env: []string{"TMPDIR=" + filepath.Join(l.scratch, "othertmp")}}},
			{"env:GOGC", world{Env: []string{"GOGC=1"}}},
			{"env:cwd", world{Cwd: "sub"}},
			{"env:cwd", world{Cwd: "symlink"}},
			{"env:rootpath", world{LongRoot: true}},
		}
		if l.canGit {
			v = append(v, envVar{"env:git", world{Git: true}})
		}
		if l.canUTS {
			v = append(v, envVar{"env:hostname", world{UTSHost: "c20-other-host"}})
		}
		if !all {
			// the expensive workload, quick tier: one variant per variable (the cheap
			// workload and the thorough tier get them all)
			var sub []envVar
			seen := map[string]bool{}
			for _, e := range v {
				if !seen[e.dim] && e.dim != "env:GOGC" && e.dim != "env:USER" && e.dim != "env:TMPDIR" && e.dim != "env:HOSTNAME" {
					sub = append(sub, e)
				}
				seen[e.dim] = true
			}
			sub = append(sub, envVar{"env:cwd", world{Cwd: "symlink"}})
			return sub
		}
		return v
	}
	for _, wl := range []string{"std", "hand"} {
		base, inst := wl+"/base", wl+"/inst-asc"
		add(world{Name: base, Workload: wl, Tools: "plain"})
		heavy := wl == "std" && !thorough
		for i := 1; i <= reruns; i++ {
			if heavy && i > 2 {
				break
			}
			add(world{Name: fmt.Sprintf("%s/rerun%d", wl, i), Dim: "run-to-run", Workload: wl, Tools: "plain", Ref: base})
		}
		for _, p := range procs {
			add(world{Name: fmt.Sprintf("%s/gomaxprocs%d", wl, p), Dim: "gomaxprocs", Workload: wl, Tools: "plain", Ref: base, Env: []string{fmt.Sprint("GOMAXPROCS=", p)}})
		}
		for i, e := range envVariants(!heavy) {
			w := e.w
			w.Name, w.Dim, w.Workload, w.Tools, w.Ref = fmt.Sprintf("%s/%s#%d", wl, e.dim, i), e.dim, wl, "plain", base
			add(w)
		}
		add(world{Name: wl + "/package-dirs-reversed", Dim: "dirorder", Workload: wl, Tools: "plain", Ref: base, DirsRev: true})
		// map iteration order, instrumented tools
		add(world{Name: inst, Dim: "maporder:all-asc-vs-native", Workload: wl, Tools: "inst", Ref: base, MapOrder: "asc"})
		add(world{Name: wl + "/inst-asc-rerun", Dim: "run-to-run", Workload: wl, Tools: "inst", Ref: inst, MapOrder: "asc"})
		for _, p := range procs {
			if heavy {
				break
			}
			add(world{Name: fmt.Sprintf("%s/inst-gomaxprocs%d", wl, p), Dim: "gomaxprocs", Workload: wl, Tools: "inst", Ref: inst, MapOrder: "asc", Env: []string{fmt.Sprint("GOMAXPROCS=", p)}})
		}
		for _, pol := range []string{"desc", "rot1", "native"} {
			add(world{Name: wl + "/inst-all-" + pol, Dim: "maporder:several-sites", Workload: wl, Tools: "inst", Ref: inst, MapOrder: pol})
		}
		for _, s := range toolSites {
			for _, pol := range []string{"desc", "rot1"} {
				add(world{Name: fmt.Sprintf("%s/site%d-%s", wl, s.Index, pol), Dim: siteDim(s), Workload: wl, Tools: "inst", Ref: inst,
					MapOrder: policyString(map[int]string{s.Index: pol}), Sites: []int{s.Index}})
			}
		}
		if thorough {
			pols := []string{"desc", "rot1"}
			for a := 0; a < len(toolSites); a++ {
				for b := a + 1; b < len(toolSites); b++ {
					for _, pa := range pols {
						for _, pb := range pols {
							sa, sb := toolSites[a], toolSites[b]
							add(world{Name: fmt.Sprintf("%s/site%d-%s+site%d-%s", wl, sa.Index, pa, sb.Index, pb), Dim: siteDim(sa) + "+" + strings.TrimPrefix(siteDim(sb), "maporder:"),
								Workload: wl, Tools: "inst", Ref: inst, MapOrder: policyString(map[int]string{sa.Index: pa, sb.Index: pb}), Sites: []int{sa.Index, sb.Index}})
						}
					}
				}
			}
			for a := 0; a < len(toolSites); a++ {
				for b := a + 1; b < len(toolSites); b++ {
					for c := b + 1; c < len(toolSites); c++ {
						for m := 0; m < 8; m++ {
							sa, sb, sc := toolSites[a], toolSites[b], toolSites[c]
							pa, pb, pc := pols[m&1], pols[m>>1&1], pols[m>>2&1]
							add(world{Name: fmt.Sprintf("%s/site%d-%s+site%d-%s+site%d-%s", wl, sa.Index, pa, sb.Index, pb, sc.Index, pc), Dim: "maporder:three-sites",
								Workload: wl, Tools: "inst", Ref: inst, MapOrder: policyString(map[int]string{sa.Index: pa, sb.Index: pb, sc.Index: pc}), Sites: []int{sa.Index, sb.Index, sc.Index}})
						}
					}
				}
			}
		}
	}
	// directory enumeration order, one package at a time
	quickPkgs := map[string]bool{"std/adler32": true, "std/json": true, "std/gif": true}
	for _, prefix := range []string{"std", "hand"} {
		dirs, files := l.sources(prefix)
		for _, d := range dirs {
			var srcs []string
			for _, f := range files[d] {
				if strings.HasSuffix(f.rel, ".wuffs") {
					srcs = append(srcs, filepath.Base(f.rel))
				}
			}
			maxFiles := 4
			if thorough {
				maxFiles = 6
			}
			if len(srcs) < 2 || len(srcs) > maxFiles {
				continue
			}
			if prefix == "std" && !thorough && !quickPkgs[d] {
				continue
			}
			// the sorted creation order first: tmpfs then lists in reverse; the last
			// permutation (reverse sorted creation) lists sorted.
			for i, p := range permutations(srcs) {
				w := world{Name: fmt.Sprintf("%s/perm%d", d, i), Dim: "dirorder", Workload: "pkg", Pkg: d, Order: p, Tools: "plain", Ref: d + "/perm0"}
				if i == 0 {
					w.Ref, w.Dim = prefix+"/base", "single-package-vs-whole-tree"
				}
				add(w)
			}
		}
	}
	// lang/check/gen.go
	add(world{Name: "datago/base", Workload: "datago", Tools: "plain"})
	for i := 1; i <= reruns; i++ {
		add(world{Name: fmt.Sprintf("datago/rerun%d", i), Dim: "run-to-run", Workload: "datago", Tools: "plain", Ref: "datago/base"})
	}
	for _, p := range procs {
		add(world{Name: fmt.Sprintf("datago/gomaxprocs%d", p), Dim: "gomaxprocs", Workload: "datago", Tools: "plain", Ref: "datago/base", Env: []string{fmt.Sprint("GOMAXPROCS=", p)}})
	}
	add(world{Name: "datago/TZ", Dim: "env:TZ", Workload: "datago", Tools: "plain", Ref: "datago/base", Env: []string{"TZ=Pacific/Kiritimati"}})
	add(world{Name: "datago/LANG", Dim: "env:LANG", Workload: "datago", Tools: "plain", Ref: "datago/base", Env: []string{"LANG=tr_TR.UTF-8", "LC_ALL=tr_TR.UTF-8"}})
	add(world{Name: "datago/inst-asc", Dim: "maporder:all-asc-vs-native", Workload: "datago", Tools: "inst", Ref: "datago/base", MapOrder: "asc"})
	for _, pol := range []string{"desc", "rot1", "native"} {
		add(world{Name: "datago/inst-all-" + pol, Dim: "maporder:several-sites", Workload: "datago", Tools: "inst", Ref: "datago/inst-asc", MapOrder: pol})
	}
	for _, s := range dgSites {
		for _, pol := range []string{"desc", "rot1"} {
			add(world{Name: fmt.Sprintf("datago/site%d-%s", s.Index, pol), Dim: siteDim(s), Workload: "datago", Tools: "inst", Ref: "datago/inst-asc",
				MapOrder: policyString(map[int]string{s.Index: pol}), Sites: []int{s.Index}})
		}
	}
	return ws
}

// ---- main ----------------------------------------------------------------------

func isTmpfs(dir string) bool {
	var st syscall.Statfs_t
	if err := syscall.Statfs(dir, &st); err != nil {
		return false
	}
	return st.Type == 0x01021994
}

func newLab(scratch string) *lab {
	l := &lab{scratch: scratch, repo: ev.Repo()}
	l.baseEnv = envWithout(os.Environ(), scrubbed...)
	for _, d := range []string{"roots", "hits", "othertmp"} {
		os.MkdirAll(filepath.Join(scratch, d), 0o755)
	}
	if _, err := sh("/", nil, "unshare", "-u", "sh", "-c", "hostname c20-probe"); err == nil {
		l.canUTS = true
	}
	if _, err := exec.LookPath("git"); err == nil {
		l.canGit = true
	}
	return l
}

func main() {
	if len(os.Args) > 2 && os.Args[1] == "replay" {
		replay(os.Args[2])
		return
	}
	if len(os.Args) > 1 && os.Args[1] == "selfcheck" { // debugging aid: only the rewriter's self-check
		d, err := os.MkdirTemp("/dev/shm", "verif-c20-sc-")
		if err != nil {
			ev.Fatal("%v", err)
		}
		n := selfCheckRewriter(d)
		os.RemoveAll(d)
		fmt.Printf("rewriter self-check passed (%d sites)\n", n)
		return
	}
	r := ev.Start("C20", "exploration")
	r.SetBudget(7*time.Minute, 40*time.Minute)
	scratch := os.Getenv("VERIF_SCRATCH")
	ownScratch := false
	if scratch == "" {
		var err error
		if scratch, err = os.MkdirTemp("/dev/shm", "verif-c20-"); err != nil {
			ev.Fatal("%v", err)
		}
		ownScratch = true
	}
	if !isTmpfs(scratch) {
		ev.Fatal("scratch directory %s is not on tmpfs: directory enumeration order cannot be controlled", scratch)
	}
	l := newLab(scratch)
	r.Add("rewriter_selfcheck_sites_x_2_language_versions_x_4_policies", int64(selfCheckRewriter(scratch)))
	l.build(true)
	worlds := l.buildWorlds(r.Thorough())
	if only := os.Getenv("VERIF_C20_ONLY"); only != "" { // debugging aid: keep bases + worlds whose name contains the string
		var keep []world
		for _, w := range worlds {
			if w.Ref == "" || strings.HasSuffix(w.Name, "/inst-asc") || strings.HasSuffix(w.Name, "/perm0") || strings.Contains(w.Name, only) {
				keep = append(keep, w)
			}
		}
		worlds = keep
	}
	byName := map[string]*world{}
	for i := range worlds {
		byName[worlds[i].Name] = &worlds[i]
	}
	results := map[string]*result{}
	var rmu sync.Mutex
	devs := map[string]*deviation{}
	getResult := func(name string) *result {
		rmu.Lock()
		defer rmu.Unlock()
		return results[name]
	}

	// references first (bases, then inst-asc and perm0 which refer to bases), then the rest
	rank := func(w *world) int {
		switch {
		case w.Ref == "":
			return 0
		case strings.HasSuffix(w.Name, "/inst-asc") || strings.HasSuffix(w.Name, "/perm0"):
			return 1
		}
		return 2
	}
	skipRelease := func(f string) bool { return strings.HasPrefix(f, "release/") }
	// Queue: references first (bases, then inst-asc / perm0), then everything else with one
	// world of every dimension first (cheapest workload first), then the second of every
	// dimension, ...: a run that hits its budget has still looked at every dimension.
	var order []*world
	for phase := 0; phase <= 2; phase++ {
		var batch []*world
		for i := range worlds {
			if rank(&worlds[i]) == phase {
				batch = append(batch, &worlds[i])
			}
		}
		order = append(order, batch...)
	}
	cost := map[string]int{"datago": 0, "hand": 1, "pkg": 2, "std": 3}
	ordinal := map[*world]int{}
	count := map[string]int{}
	for _, w := range order {
		if rank(w) == 2 {
			k := dimClass(w.Dim) + "|" + w.Workload + "|" + w.Tools + "|" + w.Pkg
			ordinal[w] = count[k]
			count[k]++
		}
	}
	sort.SliceStable(order, func(i, j int) bool {
		a, b := order[i], order[j]
		if rank(a) != rank(b) {
			return rank(a) < rank(b)
		}
		if rank(a) < 2 {
			return cost[a.Workload] > cost[b.Workload] // the long pole first
		}
		if ordinal[a] != ordinal[b] {
			return ordinal[a] < ordinal[b]
		}
		return cost[a.Workload] < cost[b.Workload]
	})
	finished := map[string]chan struct{}{}
	for _, w := range order {
		finished[w.Name] = make(chan struct{})
	}
	process := func(w *world) {
		wholeName := ""
		if w.Workload == "pkg" {
			wholeName = strings.SplitN(w.Pkg, "/", 2)[0] + "/base"
			<-finished[wholeName]
		}
		if w.Ref != "" {
			<-finished[w.Ref] // always earlier in the queue
		}
		// The budget cuts the tail of the queue, never the first world of a dimension.
		if rank(w) == 2 && ordinal[w] > 0 && r.Expired() {
			return
		}
		if len(w.Sites) == 1 && !r.Thorough() {
			// Forcing the order of one site that the all-ascending run never reaches with
			// two or more keys cannot change anything (the run is identical up to the
			// first such visit, which never comes): skipped in the quick tier, counted.
			if b := getResult(w.Ref); b != nil && b.Hits[w.Sites[0]] < 2 {
				r.Add("single_site_worlds_skipped_because_the_site_never_runs_with_2plus_keys", 1)
				return
			}
		}
		t0 := time.Now()
		res := l.run(w)
		r.HistAdd("child_wall_ms_by_workload", w.Workload, time.Since(t0).Milliseconds())
		if rank(w) == 0 && res.Err != "" {
			ev.Fatal("the baseline generation %s fails on the tree under check: %s", w.Name, res.Err)
		}
		rmu.Lock()
		results[w.Name] = res
		rmu.Unlock()
		if w.Ref != "" {
			ref, refWorld := getResult(w.Ref), byName[w.Ref]
			if ref == nil {
				ev.Fatal("world %s: reference %s has not run", w.Name, w.Ref)
			}
			var file, note string
			ok := true
			if w.Workload == "pkg" {
				// against the whole-tree run: every per-package file (the release file
				// holds fewer packages); against perm0 of the same package: everything
				whole := getResult(wholeName)
				file, note, ok = compare(whole, res, false, skipRelease)
				if ok {
					var fl []string
					for f := range res.Files {
						fl = append(fl, f)
					}
					sort.Strings(fl)
					for _, f := range fl {
						if _, present := whole.Files[f]; !present && !skipRelease(f) && ok {
							file, note, ok = f, "file not generated by the whole-tree run", false
						}
					}
				}
				if !ok {
					ref, refWorld = whole, byName[wholeName]
				} else if w.Ref != wholeName {
					file, note, ok = compare(ref, res, true, nil)
				}
			} else {
				file, note, ok = compare(ref, res, true, nil)
			}
			if !ok {
				d := &deviation{World: *w, Ref: *refWorld, File: file, Note: note}
				if file != "" && note == "" {
					d.Line, d.RefLine, d.GotLine = describeDiff(filepath.Join(ref.Root, file), filepath.Join(res.Root, file))
				}
				rmu.Lock()
				devs[w.Name] = d
				rmu.Unlock()
			}
		}
		if rank(w) == 2 {
			os.RemoveAll(res.Root)
		}
	}
	var next atomic.Int64
	ev.ParFor(ev.Workers(), func(_, _ int) {
		for {
			i := int(next.Add(1)) - 1
			if i >= len(order) {
				return
			}
			process(order[i])
			close(finished[order[i].Name])
		}
	})

	// ---- generated == committed ----
	stdBase := results["std/base"]
	relRel := "release/c/wuffs-unsupported-snapshot.c"
	committed, err := os.ReadFile(filepath.Join(l.repo, relRel))
	if err != nil {
		ev.Fatal("%v", err)
	}
	regenerated, err := os.ReadFile(filepath.Join(stdBase.Root, relRel))
	if err != nil {
		ev.Fatal("the whole-tree run did not write %s: %v", relRel, err)
	}
	r.Add("snapshot_bytes_compared", int64(len(committed)))
	if !bytes.Equal(committed, regenerated) {
		ln, a, b := firstDiffLine(committed, regenerated)
		r.Violation("snapshot-stale", fmt.Sprintf("regenerating std with the tree's own compiler does not reproduce %s: first difference at line %d", relRel, ln),
			map[string]any{"kind": "snapshot-stale", "file": relRel, "first_differing_line": ln, "committed_line": a, "regenerated_line": b})
	}
	dataCommitted, err := os.ReadFile(filepath.Join(l.repo, "lang/check/data.go"))
	if err != nil {
		ev.Fatal("%v", err)
	}
	dataGen, err := os.ReadFile(filepath.Join(results["datago/base"].Root, "data.go"))
	if err != nil {
		ev.Fatal("gen.go did not write data.go: %v", err)
	}
	r.Add("data_go_bytes_compared", int64(len(dataCommitted)))
	if !bytes.Equal(dataCommitted, dataGen) {
		ln, a, b := firstDiffLine(dataCommitted, dataGen)
		r.Violation("data.go-stale", fmt.Sprintf("`go run gen.go` on lang/check/axioms.md does not reproduce lang/check/data.go: first difference at line %d", ln),
			map[string]any{"kind": "data.go-stale", "file": "lang/check/data.go", "first_differing_line": ln, "committed_line": a, "regenerated_line": b})
	}

	// ---- deviations across the environment ----
	// If re-running one configuration already gives different output, the other
	// dimensions of the same (workload, tools) cannot be judged separately: they are
	// folded into run-to-run; likewise if the output depends on where the root is. If
	// single-site map orders explain a deviation, the several-sites and
	// all-asc-vs-native worlds are folded into them.
	unstable := map[string]bool{}
	rootDependent := map[string]bool{}
	siteDeviates := false
	group := func(w *world) string {
		wl := w.Workload
		if wl == "pkg" {
			wl = strings.SplitN(w.Pkg, "/", 2)[0]
		}
		return wl + "/" + w.Tools
	}
	for i := range worlds {
		w := &worlds[i]
		if d := devs[w.Name]; d != nil {
			if w.Dim == "run-to-run" {
				unstable[group(w)] = true
			}
			if w.Dim == "env:rootpath" {
				rootDependent[group(w)] = true
			}
			if len(w.Sites) == 1 {
				siteDeviates = true
			}
		}
	}
	var evaluations int64
	for i := range worlds {
		w := &worlds[i]
		res := results[w.Name]
		if res == nil {
			continue
		}
		evaluations++
		r.HistAdd("worlds_by_dimension", dimClass(w.Dim), 1)
		d := devs[w.Name]
		if d == nil {
			continue
		}
		r.HistAdd("deviating_worlds_by_dimension", dimClass(w.Dim), 1)
		if unstable[group(w)] && w.Dim != "run-to-run" {
			r.HistAdd("deviations_folded", dimClass(w.Dim)+" -> run-to-run", 1)
			continue
		}
		if rootDependent[group(w)] && !unstable[group(w)] && w.Dim != "env:rootpath" {
			// every world has a scratch root of its own
			r.HistAdd("deviations_folded", dimClass(w.Dim)+" -> env:rootpath", 1)
			continue
		}
		if siteDeviates && len(w.Sites) != 1 && strings.HasPrefix(w.Dim, "maporder:") {
			r.HistAdd("deviations_folded", dimClass(w.Dim)+" -> single-site maporder", 1)
			continue
		}
		what := fmt.Sprintf("%s differs between world %q and its reference %q", d.File, w.Name, w.Ref)
		if d.Note != "" {
			what += " (" + d.Note + ")"
		} else {
			what += fmt.Sprintf(": first difference at line %d", d.Line)
		}
		r.Violation(w.Dim, what, map[string]any{"kind": "deviation", "deviation": d})
	}

	// ---- evidence ----
	var found, controlled, exercised int
	var notControlled []site
	exercisedBy := map[int]bool{}
	for _, n := range []string{"std/inst-asc", "hand/inst-asc", "datago/inst-asc"} {
		if res := results[n]; res != nil {
			for s, lvl := range res.Hits {
				if lvl >= 2 {
					exercisedBy[s] = true
				}
				r.HistAdd("site_reached_in_baseline:"+n, fmt.Sprintf("site%02d:level%d", s, lvl), 1)
			}
		}
	}
	for _, s := range l.sites {
		found++
		if s.Controlled {
			controlled++
		} else {
			notControlled = append(notControlled, s)
		}
		if exercisedBy[s.Index] {
			exercised++
		}
	}
	// configurations that differed observably from the baseline configuration
	var distinct int64
	rawOrders := map[string]map[string]bool{}
	procsSeen := map[int]bool{}
	baseProcs := map[int]bool{}
	var mapForced, mapForcedVacuous, permsRun int64
	effectivePolicies, envConfigs := map[string]bool{}, map[string]bool{}
	for i := range worlds {
		w := &worlds[i]
		res := results[w.Name]
		if res == nil {
			continue
		}
		if w.Workload == "pkg" {
			if rawOrders[w.Pkg] == nil {
				rawOrders[w.Pkg] = map[string]bool{}
			} else {
				permsRun++
			}
			rawOrders[w.Pkg][res.RawOrder] = true
		}
		if strings.HasSuffix(w.Name, "/inst-asc") {
			for p := range res.Procs {
				baseProcs[p] = true
			}
		}
		if w.Dim == "gomaxprocs" && w.Tools == "inst" {
			for p := range res.Procs {
				procsSeen[p] = true
			}
		}
		if len(w.Sites) > 0 {
			all := true
			for _, s := range w.Sites {
				if res.Hits[s] < 2 {
					all = false
				}
			}
			if all {
				mapForced++
				effectivePolicies[w.MapOrder] = true
			} else {
				mapForcedVacuous++
			}
		}
		if strings.HasPrefix(w.Dim, "env:") {
			envConfigs[mustJSON([]any{w.Env, w.Cwd, w.Git, w.UTSHost, w.LongRoot})] = true
		}
	}
	var rawTotal int64
	for p, m := range rawOrders {
		r.HistAdd("distinct_raw_readdir_orders", p, int64(len(m)))
		rawTotal += int64(len(m))
		if len(m) > 1 {
			distinct += int64(len(m) - 1)
		}
	}
	if permsRun > 0 && rawTotal == int64(len(rawOrders)) {
		ev.Fatal("%d creation-order permutations beyond the first were built, yet every package showed a single raw Readdir order: directory order is not under control here", permsRun)
	}
	for p := range procsSeen {
		r.HistAdd("gomaxprocs_observed_in_children", fmt.Sprint(p), 1)
		if !baseProcs[p] {
			distinct++
		}
	}
	for p := range baseProcs {
		r.HistAdd("gomaxprocs_observed_in_baseline", fmt.Sprint(p), 1)
	}
	distinct += int64(len(effectivePolicies)) + int64(len(envConfigs))
	r.Add("distinct_effective_maporder_policies", int64(len(effectivePolicies)))
	r.Add("distinct_env_configurations", int64(len(envConfigs)))
	r.Add("map_sites_found", int64(found))
	r.Add("map_sites_controlled", int64(controlled))
	r.Add("map_sites_exercised_with_2plus_keys_in_a_baseline", int64(exercised))
	r.Add("maporder_worlds_whose_forced_sites_all_ran_with_2plus_keys", mapForced)
	r.Add("maporder_worlds_with_a_forced_site_that_never_ran_with_2plus_keys", mapForcedVacuous)
	r.Add("generated_files_in_whole_tree_run", int64(len(stdBase.Files)))
	for k, v := range l.rw.NondetAPI {
		r.HistAdd("environment_dependent_api_references(information)", k, int64(v))
	}
	for _, s := range l.sites {
		r.Sample(s)
	}
	r.Sample(map[string]any{"sample_world": worlds[len(worlds)/2]})
	for p, m := range rawOrders {
		if p == "std/gif" || p == "hand/gamma" {
			var o []string
			for k := range m {
				o = append(o, k)
			}
			sort.Strings(o)
			r.Sample(map[string]any{"raw_readdir_orders_of": p, "first_3": o[:min(3, len(o))]})
		}
	}
	assumptions := []string{
		"map iteration order is explored at 1 deviating site (thorough: up to 3) with orders asc/desc/rot1 plus all-desc/all-rot1/native, not over all permutations of all maps",
		"wall-clock time is not varied (runs are spread over the duration of the check only); a day-granular timestamp would show only as generated != committed",
		"Go runtime randomisation other than map order (select, scheduler) is sampled by re-runs and GOMAXPROCS, not controlled",
		"directory order is controlled through tmpfs' reverse-creation listing; the number of distinct raw Readdir orders actually seen is in the histograms",
		"`wuffs gen` is run with the default flags (-langs=c, version 0.0.0); release metadata flags are not explored",
	}
	if !l.canUTS {
		assumptions = append(assumptions, "the kernel hostname could not be varied here (unshare -u not permitted); only $HOSTNAME was")
	}
	for _, s := range notControlled {
		assumptions = append(assumptions, fmt.Sprintf("map-range site %s (%s, key %s) is NOT controlled: %s; it is covered by re-runs only", s.ID, s.Pos, s.KeyType, s.Why))
	}
	if ownScratch {
		os.RemoveAll(scratch)
	}
	r.Finish(ev.Coverage{
		Evaluations:        evaluations,
		DistinctNontrivial: distinct,
		Rule: "evaluations = generation runs (whole std, the hand-written packages, one package, or gen.go) whose complete output was hashed and compared; " +
			"distinct_nontrivial = configurations that measurably differed from the baseline configuration: distinct raw Readdirnames orders seen beyond the first per package, " +
			"map-order policies for which, in some workload, every forced site ran with >= 2 keys (so desc/rot1 really changed the visiting order), GOMAXPROCS values reported by the child processes " +
			"other than the baseline's, and distinct env/cwd/root/git/hostname variants (each sets a value different from the baseline's); the same variant applied to several workloads counts once",
		Exhaustive: true,
		Extra: map[string]any{
			"map_range_sites":         l.sites,
			"sites_not_controlled":    notControlled,
			"packages_scanned":        l.rw.Packages,
			"wuffs_module_go_version": l.rw.GoVersion,
			"uts_hostname_varied":     l.canUTS,
			"git_repository_varied":   l.canGit,
			"worlds":                  len(worlds),
			"harness_cpus":            runtime.NumCPU(),
		},
	}, assumptions)
}

func dimClass(dim string) string {
	if strings.HasPrefix(dim, "maporder:") && strings.Contains(dim, "+") {
		return "maporder:two-sites"
	}
	if dim == "" {
		return "baseline"
	}
	return dim
}

// ---- replay --------------------------------------------------------------------

func replay(path string) {
	b, err := os.ReadFile(path)
	if err != nil {
		ev.Fatal("%v", err)
	}
	var doc struct {
		Signature string `json:"signature"`
		Witness   struct {
			Kind      string     `json:"kind"`
			Deviation *deviation `json:"deviation"`
		} `json:"witness"`
	}
	if err := json.Unmarshal(b, &doc); err != nil {
		ev.Fatal("%v", err)
	}
	scratch := os.Getenv("VERIF_SCRATCH")
	exit := func(code int) { os.Exit(code) }
	if scratch == "" {
		if scratch, err = os.MkdirTemp("/dev/shm", "verif-c20-"); err != nil {
			ev.Fatal("%v", err)
		}
		exit = func(code int) { os.RemoveAll(scratch); os.Exit(code) }
	}
	l := newLab(scratch)
	fmt.Printf("replaying %s\n", doc.Signature)
	switch doc.Witness.Kind {
	case "snapshot-stale", "data.go-stale":
		l.build(false)
		w := world{Name: "std/base", Workload: "std", Tools: "plain"}
		rel, committedRel := "release/c/wuffs-unsupported-snapshot.c", "release/c/wuffs-unsupported-snapshot.c"
		if doc.Witness.Kind == "data.go-stale" {
			w = world{Name: "datago/base", Workload: "datago", Tools: "plain"}
			rel, committedRel = "data.go", "lang/check/data.go"
		}
		res := l.run(&w)
		if res.Err != "" {
			ev.Fatal("%s", res.Err)
		}
		got, _ := os.ReadFile(filepath.Join(res.Root, rel))
		want, _ := os.ReadFile(filepath.Join(l.repo, committedRel))
		if bytes.Equal(got, want) {
			fmt.Printf(" regenerated == committed %s: not reproduced\n", committedRel)
			exit(0)
		}
		ln, a, c := firstDiffLine(want, got)
		fmt.Printf(" %s differs from what the tree generates, first at line %d\n  committed:   %s\n  regenerated: %s\n", committedRel, ln, a, c)
		exit(1)
	case "deviation":
		d := doc.Witness.Deviation
		if d == nil {
			ev.Fatal("no deviation in the witness")
		}
		l.build(d.World.Tools == "inst" || d.Ref.Tools == "inst")
		ref, w := d.Ref, d.World
		ref.idx, w.idx = 0, 1
		rr, rw := l.run(&ref), l.run(&w)
		fmt.Printf(" reference world: %s\n deviating world: %s\n", mustJSON(ref), mustJSON(w))
		exact := w.Workload != "pkg" || ref.Workload == "pkg"
		var skip func(string) bool
		if !exact {
			skip = func(f string) bool { return strings.HasPrefix(f, "release/") }
		}
		file, note, ok := compare(rr, rw, exact, skip)
		if ok {
			fmt.Printf(" all %d generated files are identical: not reproduced\n", len(rw.Files))
			exit(0)
		}
		if note != "" {
			fmt.Printf(" %s: %s\n", file, note)
		} else {
			ln, a, c := describeDiff(filepath.Join(rr.Root, file), filepath.Join(rw.Root, file))
			fmt.Printf(" %s differs, first at line %d\n  reference: %s\n  deviating: %s\n", file, ln, a, c)
		}
		exit(1)
	}
	ev.Fatal("unknown witness kind %q", doc.Witness.Kind)
}

func mustJSON(v any) string {
	b, _ := json.Marshal(v)
	return string(b)
}
