#!/bin/bash
# MANIFEST.setup_cmd: build every registered check once so that GOCACHE is warm. Offline.
set -u
cd "$(dirname "$(readlink -f "$0")")"
export GOFLAGS=-mod=mod GOPROXY=off GOSUMDB=off GOTOOLCHAIN=local
mkdir -p evidence replays
out=$(mktemp -d /dev/shm/verif-setup.XXXXXX)
trap 'rm -rf "$out"' EXIT
rc=0
for id in $(jq -r '.checks[].property_id' MANIFEST.json); do
  d="checks/$(echo "$id" | tr 'A-Z' 'a-z')"
  if ls "$d"/*.go >/dev/null 2>&1; then
    go build -o "$out/$(basename $d)" "./$d" || rc=1
  fi
  [ -x "$d/setup.sh" ] && { "$d/setup.sh" || rc=1; }
done
# the wuffs toolchain itself (used by the C-level checks)
go build -o "$out/" github.com/google/wuffs/cmd/wuffs github.com/google/wuffs/cmd/wuffs-c github.com/google/wuffs/cmd/wuffsfmt || rc=1
exit $rc
