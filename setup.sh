#!/bin/bash
# MANIFEST.setup_cmd: build every check once so that GOCACHE is warm. Offline.
set -u
cd "$(dirname "$(readlink -f "$0")")"
export GOFLAGS=-mod=mod GOPROXY=off GOSUMDB=off GOTOOLCHAIN=local
mkdir -p evidence replays
out=$(mktemp -d /dev/shm/verif-setup.XXXXXX)
trap 'rm -rf "$out"' EXIT
rc=0
for d in checks/*/; do
  if ls "$d"/*.go >/dev/null 2>&1; then
    go build -o "$out/$(basename $d)" "./$d" || rc=1
  fi
done
exit $rc
