#!/usr/bin/env python3-vt
"""Regenerates /verif/MANIFEST.json from the table below (and validates it)."""
import json, os, sys

ALL = ["C%02d" % i for i in range(1, 21)]

CHECKS = {
 "C06": dict(cat="exploration", engine="libmc",
   technique="bounded-exhaustive enumeration of interval pairs x operations x members against brute force / exact reference hull",
   text="Every ordered pair of intervals over a small universe (bounds -N..N and +-inf, empties included) x 10 operations is checked against all member pairs; a second universe of bounds around 2^8..2^65 is checked against an independently written exact hull (corner candidates, bit-DP for And/Or, itself validated against brute force). Tightness, the ok flag, and the no-aliasing clause (pointer identity, scribble-and-recompute) are checked on every case.",
   note="Trusts math/big. Shift counts above 2^16 and members of infinite sides beyond the clip range are not explored.",
   ref="DESIGN.md section 4 C06"),
 "C12": dict(cat="exploration", engine="libmc",
   technique="bounded-exhaustive enumeration of texts (all strings up to length L over a 17-symbol alphabet) and of layout mutations of every repository source, run on the real formatters",
   text="dumbindent: every lexically closed text up to length 6 (thorough 7) over a delimiter alphabet x 3 option sets, and every C file of the repository under indentation perturbations: terminates (in-process hang/heap watchdog), white-space-only, idempotent. wuffsfmt: every .wuffs file split into top-level chunks, every per-line layout mutation the formatter accepts: token+comment stream preserved, output parses, idempotent.",
   note="Lexical closure is the conservative definition in checks/c12 (strings close on their line; preprocessor lines closed on their own). Leading blank lines removed by dumbindent count as white space. Large chunks are line-strided in quick.",
   ref="DESIGN.md section 4 C12"),
 "C13": dict(cat="fault_enumeration", engine="libmc",
   technique="bounded-exhaustive enumeration of (payload, Write partition, configuration) and of every fault point of the underlying io.Writer/TempFile on the real rac.Writer",
   text="Every payload over a 3-letter alphabet up to length 5 (thorough 7) under every partition into Write calls, every zero/non-zero run alternation under uniform write steps with CChunkSize, structured payloads x {zlib,lz4,zstd} x sizing x page size x index location x temp-file kind x resources; for a reduced configuration set every fault point k (fail-from-k and fail-once) of the Writer and of the TempFile's Write/Read/Seek. Oracles: an independent validator written from doc/spec/rac-spec.md, the real rac.Reader round trip, an independent leaf walker + compress/zlib; under faults Close must fail and errors must stay reported.",
   note="Short writes with nil error are outside io.Writer's contract and not injected. lz4/zstd chunks are only decoded by the repository's own cgo codecs. The CPageSize page-minimising promise is not part of the property.",
   ref="DESIGN.md section 4 C13"),
 "C14": dict(cat="model_checking", engine="gosched",
   technique="stateless model checking of the real conc_reader.go under a controlled cooperative scheduler (preemption/deviation-bounded DFS with happens-before state pruning), plus explicit BFS over call sequences against a reference model",
   text="lib/rac/conc_reader.go is rewritten mechanically (go/ast, every chan/make/send/recv/select/close/go routed through a scheduler library injected with go build -overlay; unknown constructs abort the check) and the real rac.Reader is run for each (history, file, Concurrency 2/3) under every schedule within the bounds (quick: <=1 preemption and <=1 select/rendezvous deviation on 3 chunks, reduced bounds on 6/12 chunks; thorough: 2/2 and unbounded on 3 chunks): no deadlock, no goroutine left after Close, no panic, results equal a bytes.Reader+limit model in every schedule. Sequential readers (Concurrency 0/1) are explored by BFS over all call sequences to depth 3 (4) over a 41-symbol alphabet on 8 files (incl. a three-level index, depth 2). A free-running -race pass of the same histories complements the scheduled exploration (sampling; for data races only).",
   note="Threads share memory only through channels (the rewriter refuses sync/atomic/time; data races are invisible to a cooperative scheduler). Loan buffers are shrunk from 64 KiB to 8 bytes in the explored twin (capacity only). Map iteration in recycleBuffers is fixed, not explored. An identity codec replaces zlib in the scheduled runs.",
   ref="DESIGN.md section 4 C14, Appendix A"),
 "C15": dict(cat="fault_enumeration", engine="libmc",
   technique="exhaustive enumeration of single-byte, field-level and structural mutations (checksum repaired) of small valid files, walked on the real readers over an operation-counting ReadSeeker",
   text="For 10 seed files (writer-made and hand-built two-level / long-codec indexes): every byte replaced by every value (with and without checksum repair), every index field set to each boundary value (pairs within small nodes), every re-pointing of a child at any node as a branch, every truncation and wrong claimed size, the empty file with any two bytes replaced. Each mutant: ChunkReader walk twice and Reader seek/read twice; no panic, work within a read/seek budget proportional to the file (plus a CPU watchdog), chunks well-formed, contiguous and ending at DecompressedSize, same bytes both times.",
   note="Work is metered in Read/Seek calls (budget 4000+40*len); zstd chunks are not exercised.",
   ref="DESIGN.md section 4 C15"),
 "C17": dict(cat="exploration", engine="libmc",
   technique="bounded-exhaustive enumeration of payloads and of single/adjacent-pair byte mutations of encoded seeds, against the package's own decoder and the system xz tool",
   text="Every payload over {00,5A,FF} up to length 8 (thorough 9) and structured long payloads (carry chains, chunk-size boundaries) x {LZMA, XZ}: Decode(Encode(p)) == p with nothing left over, xz -dc decodes the same bytes (batched), and the Wuffs std/lzma and std/xz decoders (C freshly generated from the working tree, through the C state server) decode the same bytes with status ok and all input consumed. Robustness: every byte string of length <= 2, every truncation, deletion, insertion, single-byte and adjacent-pair replacement of 9-10 seeds per format: no panic, no hang, output <= 64*len(in)+64KiB.",
   note="Trusts the system xz tool as the independent decoder (reported as SKIPPED, not passed, if absent).",
   ref="DESIGN.md section 4 C17"),
 "C16": dict(cat="exploration", engine="libmc",
   technique="bounded-exhaustive enumeration of (DEFLATE/zlib stream, maxEncodedLen) pairs: every limit of every enumerated stream on the real Cut, decoded with compress/flate|zlib and compared with the original payload",
   text="Every payload over {00,'a',ff} up to length 7 (thorough 8) and structured payloads up to 5000 bytes x compress/flate levels {-2,0,1,5,9} x flush patterns x {deflate, zlib, zlib+FDICT}, plus a hand bit-writer enumerating every stream of <= 3 blocks (stored/fixed/dynamic incl. degenerate trees, 15-bit codes, empty blocks) that compress/flate accepts; each at EVERY maxEncodedLen from 0 to len+2 with and without the writer. Oracle: encodedLen within limit and buffer, encoded[:encodedLen] decodes completely to original[:decodedLen], equals the writer's bytes, whole original when the limit covers the stream, Adler-32 verifies. Robustness: every byte string of length <= 2, longer ones over 8-byte alphabets, every single-byte replacement of 20 seed streams: no panic, lengths inside limit and buffer.",
   note="'Valid stream' = compress/flate (zlib) decodes it without error and consumes every byte. An error returned for a valid stream is counted, not a violation (the statement constrains successful cuts). Streams above 1<<30 bytes are out of reach.",
   ref="DESIGN.md section 4 C16"),
 "C18": dict(cat="exploration", engine="libmc",
   technique="bounded-exhaustive enumeration of (dimensions, colour type, quantisation table, coefficient blocks) and BFS over AddN call histories against a counter model, each output decoded by an independently written baseline-JPEG reader and image/jpeg",
   text="Headers/MCU counting for every (w,h) in a 15-value boundary set squared x 3 colour types; full encodes for w,h <= 33; every block with <= 2 non-zero coefficients at boundary positions and values, all-extreme blocks (maximal code length + 0xFF stuffing), zero runs 15/16/17/31/32/62, DC delta extremes; x 6 quantisation tables. Oracle: an independent baseline reader (markers, DQT, SOF0, DHT, SOS, entropy decode with un-stuffing, DC prediction) recovers exactly round-to-nearest(coef/quant) per block, headers declare the configuration, EOI exactly after the required units, image/jpeg decodes it, zero allocations. Histories: BFS over AddN sequences (Add1/3/6, nil, invalid, too few, exact, too many, after error, Reset) to depth 4 against a counter model (states/transitions reported). DCT: constant, step-edge, single-pixel and checkerboard blocks forward then inverse within +-1.",
   note="Ties in rounding are accepted either way (documentation says 'nearest' only). Sizes above 33 use a 7-block cycle; images with more than 2^18 units are header-checked only in quick.",
   ref="DESIGN.md section 4 C18"),
 "C19": dict(cat="exploration", engine="libmc",
   technique="bounded-exhaustive enumeration of (colour type, depth, width, height, stride, content) including every size within a window of each 64 KiB flush threshold, and all ordered pairs/triples of Encode calls on one Encoder, each output decoded by image/png and an independent chunk/zlib walker",
   text="Every (colour type, depth) x w in 1..9 x h in 1..6 x 3 strides with position-coded pixels, every content over {00,01,ff} for w*h <= 4, every size whose raw length lies within +-24 bytes of the first three flush thresholds and of the separate-IEND point, dense sweeps, all-0xFF images, and sequences of 2 and 3 Encode calls on one Encoder over all ordered pairs/triples of 8 representative configurations. Oracle: image/png.Decode gives the same dimensions and pixels; an independent walker validates chunk lengths, CRC-32s, one stored block per IDAT with correct LEN/NLEN, BFINAL only on the last, zlib header, Adler-32, nothing after IEND.",
   note="image/png is the 'standard decoder'. 8-bit v and 16-bit v*0x101 count as the same pixel value. After an Encode whose Writer failed, the next Encode must be valid; the failed call itself must only not panic.",
   ref="DESIGN.md section 4 C19"),
 "C08": dict(cat="model_checking", engine="cserve",
   technique="explicit-state BFS over call sequences on the real generated C objects (clone + one call + hash through the C state server), every explored history co-simulated with an explicit life-cycle / call-sequence model written from the documentation",
   text="For each std package (quick 9, thorough all 30) the C freshly generated from the working tree is compiled with ASan+UBSan and explored breadth-first to depth 4 (6): operations = every initialize form (right, wrong sizeof, wrong version, ALREADY_ZEROED over zeroed / garbage / live memory, LEAVE_INTERNAL_BUFFERS_UNINITIALIZED, re-initialisation, none), every interface method with source in {complete, prefix, corrupt, NULL, closed-empty} x destination in {ample, empty, NULL}, image decoders DIC/DFC/DF/restart_frame/tell_me_more in every order; states deduplicated by object+buffer hashes. Model: RAW / READY / SUSPENDED(k) / DISABLED with the exact #base status strings, and the image call-sequence machine of doc/std/image-decoders-call-sequence.md; the buffer contract (index order, monotone ri/wi, source bytes and already-written destination bytes unchanged) is computed in C around every call.",
   note="Std packages only (generated test programs not yet included). Only the methods of the six base interfaces are reachable. One seed input per package. Where the documentation is silent nothing is demanded. Token destinations cannot observe 'already written tokens unchanged'. Known finding: tell_me_more out of order answers '#base: no more information' instead of '#base: bad call sequence' in 12 decoders.",
   ref="DESIGN.md section 4 C08, 10.1"),
 "C20": dict(cat="exploration", engine="detmc",
   technique="exhaustive enumeration of environment configurations around the real compiler: every creation-order permutation of a package's files (directory enumeration order), every range-over-map site of the compiler rewritten (go/ast overlay) to iterate in a forced order (asc/desc/rot1; singles, thorough pairs and triples), GOMAXPROCS / env / cwd variants, with byte comparison of all generated output; plus generated == committed",
   text="Regenerates all of std (and four hand-written multi-file packages) with the working tree's compiler under every configuration and compares SHA-256 of every generated file: directory order (every permutation of creation order on tmpfs for three std packages, raw Readdirnames orders recorded), map iteration order (all 10 range-over-map sites of lang/*, internal/cgen, cmd/wuffs*, gen.go found at check time and forced to asc/desc/rot1 through an overlay twin; per-site hit counters show which loops really ran with >= 2 keys), GOMAXPROCS {1,2,16}, TZ/LANG/HOME/USER/TMPDIR/hostname/cwd/root-path variants, re-runs. Equalities: regenerated monolithic release == release/c/wuffs-unsupported-snapshot.c; go run gen.go == lang/check/data.go.",
   note="Map order is explored at 1 (thorough: up to 3) deviating sites with three orders, not all permutations. Wall-clock time is not varied. Go scheduler/select randomness is only sampled by re-runs and GOMAXPROCS.",
   ref="DESIGN.md section 4 C20, section 3 E7"),
 "C03": dict(cat="model_checking", engine="cserve",
   technique="explicit-state search over the generated C objects themselves: byte-feed transitions (clone + one more source byte + one call, or close) with state-hash deduplication, and one-deviation walks from every prefix state of every seed, every call judged by per-transition invariants computed around it (ASan+UBSan build of C regenerated from the working tree)",
   text="For each std decoder/hasher (quick 13 packages, thorough all 30) the C freshly generated from the working tree is compiled with ASan+UBSan (and plain with allocator counters) and explored: all 256 byte values to depth 2 (3) then a per-format reduced alphabet to depth 6 (8-10) with (object, unread source, destination, status) hash deduplication; from every prefix state of every seed (repository test files <= 4 KiB and reference-encoder output) every single-byte deviation followed by the rest of the seed and a short reduced-alphabet continuation, and every truncation; destination capacity {ample, 0, 1, 7}, work buffer {min, max}, closed {at end, never}; image/token decoders through their canonical call sequence. Oracle per call: sanitizer silence, exact-size source/destination allocations, buffer contract, status class, never 'internal error', no '$short read' on a closed source, no '$short write' into an empty ample destination that wrote nothing, '$short workbuf' answered by growing, disabled after error, zero allocator calls, the call returns.",
   note="Bounded as stated (alphabets, depths, one deviation per seed); time-sliced per package and seed, caps are listed in the evidence and the run reports exhaustive:false when a slice ends early. Default quirks only; non-interface public methods are not reachable; images above 1 MiB of pixels are refused by the harness.",
   ref="DESIGN.md section 4 C03, 10.1"),
 "C01": dict(cat="model_checking", engine="progen+interp",
   technique="bounded-exhaustive enumeration of Wuffs programs from small grammars, each run through the real Tokenize/Parse/Check; every accepted program is executed by a reference interpreter over the checker-annotated AST for all inputs of its declared domains and every receiver state reachable by <= 2 prior public calls (explicit BFS with state hashing), with a safety monitor on every evaluated expression",
   text="Families seeds, arith, index, facts, axioms, loops, refine, ptr, calls, coro, io (quick ~9e4 programs generated / ~3e4 accepted; thorough ~6e5 / ~2e5): for each accepted program the interpreter explores all argument tuples (all values of small domains, a boundary alphabet for wide ones) from every reachable receiver state and checks on every step: index/slice inside the live object, no overflow of non-modular operations, conversions, stores, arguments and results inside the declared (refined) type and the element type of the object actually written, divisor non-zero, shift in range, no null dereference, no recursion, unchecked I/O built-ins have their bytes/room; and that every value in statement position lies inside the range the checker cached for it (MBounds). Rejections of near-miss programs are counted per family.",
   note="The program grammars, not arbitrary Wuffs (std/ is covered at the C level by C03); no iterate family; coroutine suspension inside io_limit/io_bind is outside the interpreter's subset; per-program execution caps are reported. Known findings: the checker's aliasing holes (facts about a[j] surviving a store to a[i], through slices/pointers of the same memory, across impure calls, stale pure-call facts, refined element types ignored for shared referents), recorded by signature.",
   ref="DESIGN.md section 4 C01, section 3 E1/E2"),
 "C02": dict(cat="model_checking", engine="progen+interp",
   technique="the same exhaustive program x input x receiver-state exploration as C01, with a fact monitor: at every program point reached the fact list the real checker holds there (read from check.Error.Facts after inserting `assert false` at that point) is evaluated in the concrete state, for every input and every suspend/resume pattern; plus exhaustive small-integer evaluation of every axiom",
   text="(i) every axiom of lang/check/axioms.md, parsed independently, evaluated for all integer assignments in [-6,6]^k (thorough [-10,10]); (ii) the axioms family: every instantiation of every axiom (including a repeated pattern variable bound to two different expressions) through the real checker and, if accepted, executed; (iii) for every accepted program of all families and every program point, every fact, assert, pre/inv/post condition the checker holds there is evaluated in every concrete state that reaches it; coroutines under every enumerated suspend/resume plan (source cuts, destination room schedules, different arguments on resumption, compacted buffers, an intervening impure call). Violations are abstracted to a (created|stale, statement shape, fact shape) signature so that thousands of violating programs collapse to one signature per root cause.",
   note="Same scope limits as C01. Known findings: the aliasing family (see C01).",
   ref="DESIGN.md section 4 C02, section 3 E1/E2"),
 "C11": dict(cat="exploration", engine="libmc",
   technique="bounded-exhaustive enumeration of source texts (all token strings up to length 4/5 over a 40-token alphabet in 8 contexts, every 1-deviation token/line/tree mutation of every declaration of every .wuffs seed, all short byte strings, nesting/size probes) run through Tokenize/Parse/Render/Check in journaling worker processes, plus an enumerated family of accepted programs through wuffs-c gen and gcc",
   text="Workers (re-exec'd sub-processes with an mmap journal naming the current input) run every enumerated text through token.Tokenize, parse.Parse, render.Render and check.Check under recover(); an abnormal worker exit (stack overflow, fatal error) or an evaluation exceeding 60 s of CPU time names its input. ~2400 (thorough ~10700) generated programs covering every method signature shape x 31 body fragments go through the freshly built wuffs-c gen and gcc -fsyntax-only with bisection. Oracle: a value or an ordinary error from every stage, termination, gcc accepts the C of every accepted program.",
   note="Quick subsamples the mutation space (stride 12). The wuffsfmt binary is covered by C12. Known findings: methods on structs that are not declared with '?' generate C gcc rejects; the parser has no nesting-depth limit (stack overflow beyond 2e6 nested parentheses, thorough only).",
   ref="DESIGN.md section 4 C11"),
 "C09": dict(cat="exploration", engine="cserve",
   technique="exhaustive product of (input, initialisation / prior-memory configuration, buffer prefill, CPU-path build) on the generated std C through the C state server: the baseline run fixes a call script, the same script is replayed under every configuration and every per-call observation compared",
   text="Inputs: valid files for every std package (repository test data, Go reference-encoder output, hand-built small images), every prefix length for hashers, and every single-byte deviation {00, FF, ^b, b+1} of the short seeds. Configurations: initialise default / ALREADY_ZEROED over zeros / LEAVE_INTERNAL_BUFFERS_UNINITIALIZED over 00, A5, FF and over the object bytes left by a complete, suspended or failed decode of other seeds (re-initialised default or LEAVE), destination / pixel / work-buffer memory beyond wi prefilled 00 or EE, continuing in a clone, and two builds of the C freshly generated from the working tree: CPU-specific code enabled, and -DWUFFS_CONFIG__AVOID_CPU_ARCH. Oracle: status, consumed and written counts, bytes up to wi, returned values, image/frame configs and pixels identical across the product. The evidence lists the choose sites, host CPU flags and the CPU-specific function pointers actually found installed in objects (vacuity guards fire if the two builds ran the same code).",
   note="JPEG SIMD-vs-portable comparison only on encoder-produced files (the documented exception). ARM variants never execute on this host. One chunking shape plus a two-piece shape.",
   ref="DESIGN.md section 4 C09"),
 "C10": dict(cat="exploration", engine="cserve",
   technique="exhaustive enumeration of every section, symbol and relocation of the objects compiled from the freshly generated C (gcc and clang, monolithic and per module, with and without WUFFS_CONFIG__STATIC_FUNCTIONS) against an expectation derived independently from the Wuffs sources; and every pure method called in every state of byte-by-byte walks of every std struct with memcmp of object and buffers (C state server)",
   text="Static half: the release C generated from the working tree is compiled without sanitizers at -O2 (thorough: more compilers/flags), every ELF section, symbol and relocation is read (debug/elf, cross-checked with size/nm/objdump): writable sections (.data/.bss/.tdata/.tbss and sub-sections) must be empty, undefined symbols within {memcpy, memmove, memset, memcmp/bcmp} plus calloc/free referenced only from alloc helpers, exported functions of each module exactly the pub methods / initialize / alloc / sizeof / upcast helpers computed from lang/parse over std/<pkg>/*.wuffs (base: the MAYBE_STATIC prototypes of the public headers). Dynamic half: every std struct walked byte by byte over valid seeds, failing deviations, 7-byte pieces, suspended and uninitialised states; after every call every pure method is invoked and the object and all buffers must be bit-for-bit unchanged.",
   note="The static verdict holds for gcc 12 / clang-14, x86-64 ELF and the listed flags; it is an exhaustive inspection of a finite artefact rather than of behaviours. Generated test programs are not compiled here, only std. Pure methods outside the base interfaces (zlib.dictionary_id) are not reachable.",
   ref="DESIGN.md section 4 C10"),
 "C04": dict(cat="translation_validation", engine="progen+interp",
   technique="bounded-exhaustive enumeration of accepted Wuffs programs x all call histories (the interpreter's BFS over receiver states and argument tuples), each compiled by the working tree's cgen (the function wuffs-c gen calls) and gcc/clang and executed by a generated C driver; per-history trace digests compared with the reference interpreter's traces",
   text="Every accepted program of the families arith, index, facts, loops, refine, calls, io, coro (one-shot), seeds and a local extras family (terminating while-true loops with continue/break, observable labelled continue) is translated by the tree's code generator (in-process cgen.Do, cross-checked byte for byte against the real wuffs-c on a sample), batched ~96 per C driver, compiled with gcc -O1 + ASan + UBSan (thorough: also gcc -O2 and clang-14 -O2) and run over exactly the histories the interpreter explored: return values and status strings, per-I/O-argument ri/wi/closed and written bytes, slice argument contents after the call and the receiver field dump are folded into a digest per history and compared; a mismatch is re-run with full traces to name the first diverging call and item.",
   note="programs = accepted programs compared; disagreements_checked = (program, history) trace comparisons. A gcc rejection is C11's business (counted, skipped); a sanitizer death is counted and the batch re-run plain. Not compared (documented as unspecified or interpreter-ambiguous): the reader's ri when a call suspends inside a partially available multi-byte read; bytes beyond the final wi. No iterate family; the ptr family is not driven; struct-typed fields are not dumped.",
   ref="DESIGN.md section 4 C04, section 3 E3"),
}

NOT_YET = "check not built yet in this session (design in DESIGN.md section 4); no claim made"

def main():
    checks = []
    for pid in ALL:
        c = CHECKS.get(pid)
        if not c:
            continue
        checks.append({
            "property_id": pid,
            "quick_cmd": "./run.sh %s quick" % pid,
            "thorough_cmd": "./run.sh %s thorough" % pid,
            "evidence_file": "/verif/evidence/%s.json" % pid,
            "replay_cmd_template": "./run.sh replay {path}",
            "engine": c["engine"],
            "level_claimed": {"category": c["cat"], "text": c["text"], "design_ref": c["ref"]},
            "level_note": c["note"],
            "technique": c["technique"],
        })
    na = [{"property_id": p, "reason": NA.get(p, NOT_YET)} for p in ALL if p not in CHECKS]
    m = {
        "version": 1,
        "setup_cmd": "./setup.sh",
        "hooks": {
            "guard": "verif",
            "enable": "no source hooks are committed in /repo; instrumentation is added at check time with `go build -overlay` files carrying //go:build verif and built with -tags verif",
            "baseline_off_cmd": "/verif/baseline_off.sh",
            "source_commits": [],
            "add_only": True,
        },
        "engines": [
            {"name": "libmc", "path": "checks/", "serves_properties": sorted(k for k, v in CHECKS.items() if v["engine"] == "libmc"),
             "kind_free_text": "hand-written bounded-exhaustive enumerators (odometers over stated alphabets, fault-point enumeration, explicit-state search) driving the real code, one Go program per property under checks/<id>"},
            {"name": "gosched", "path": "checks/c14/ overlay/racvsched/", "serves_properties": ["C14"],
             "kind_free_text": "cooperative scheduler + go/ast rewriter of lib/rac/conc_reader.go (go build -overlay); stateless DFS over schedules with preemption/deviation bounds and happens-before state pruning"},
            {"name": "cserve", "path": "csrc/ internal/cserve/", "serves_properties": sorted(k for k, v in CHECKS.items() if v["engine"] == "cserve") + ["C17"],
             "kind_free_text": "C state server compiled against C freshly generated from the working tree (ASan+UBSan / plain with allocator counters / AVOID_CPU_ARCH variants); holds cloneable object slots and executes single calls with the buffer contract checked in C; the exploration (BFS/DFS, visited sets, chunk scripts) is in Go"},
            {"name": "progen+interp", "path": "internal/progen/ internal/interp/ internal/cdrive/", "serves_properties": sorted(k for k, v in CHECKS.items() if v["engine"] == "progen+interp"),
             "kind_free_text": "E1 bounded-exhaustive Wuffs program generator (tries over statement alphabets, one family per checker mechanism) + E2 reference interpreter over the AST annotated by the real check.Check, with safety / MBounds / fact monitors, explicit BFS over receiver states and coroutine suspend-resume plans; E3 cdrive: batch C driver that replays the interpreter's histories on the C generated for the same programs and compares trace digests"},
            {"name": "detmc", "path": "checks/c20/", "serves_properties": ["C20"],
             "kind_free_text": "determinism explorer: go/ast map-range rewriter (overlay twins with forced iteration orders), tmpfs directory-order permutations, environment variation, byte comparison of generated output"},
        ],
        "checks": checks,
        "not_applicable": na,
        "notes": "Every check rebuilds from /repo's working tree through the go.mod replace directive (and regenerates C with the tree's own wuffs-c where C is involved). Known findings: /verif/known_findings.json.",
    }
    json.dump(m, open("/verif/MANIFEST.json", "w"), indent=1)
    try:
        import jsonschema
        jsonschema.validate(m, json.load(open("/root/.vp/MANIFEST.schema.json")))
        print("MANIFEST.json valid;", len(checks), "checks,", len(na), "not_applicable")
    except ImportError:
        print("jsonschema not available; wrote MANIFEST.json")

NA = {}

if __name__ == "__main__":
    main()
