#!/usr/bin/env python3
"""Regenerates /verif/MANIFEST.json from the table below (and validates it)."""
import json, os, sys

ALL = ["C%02d" % i for i in range(1, 21)]

CHECKS = {
 "C06": dict(cat="exploration", engine="libmc",
   technique="bounded-exhaustive enumeration of interval pairs x operations x members against brute force / exact reference hull",
   text="Every ordered pair of intervals over a small universe (bounds -N..N and +-inf, empties included) x 10 operations is checked against all member pairs; a second universe of bounds around 2^8..2^65 is checked against an independently written exact hull (corner candidates, bit-DP for And/Or, itself validated against brute force). Tightness, the ok flag, and the no-aliasing clause (pointer identity, scribble-and-recompute) are checked on every case.",
   note="Trusts math/big. Shift counts above 2^16 and members of infinite sides beyond the clip range are not explored.",
   ref="DESIGN.md section 4 C06"),
 "C12": dict(cat="exploration", engine="libmc",
   technique="bounded-exhaustive enumeration of texts (all strings up to length L over a 17-symbol alphabet) and of layout mutations of every repository source, run on the real formatters",
   text="dumbindent: every lexically closed text up to length 6 (thorough 7) over a delimiter alphabet x 3 option sets, and every C file of the repository under indentation perturbations: terminates (in-process hang/heap watchdog), white-space-only, idempotent. wuffsfmt: every .wuffs file split into top-level chunks, every per-line layout mutation the formatter accepts: token+comment stream preserved, output parses, idempotent.",
   note="Lexical closure is the conservative definition in checks/c12 (strings close on their line; preprocessor lines closed on their own). Leading blank lines removed by dumbindent count as white space. Large chunks are line-strided in quick.",
   ref="DESIGN.md section 4 C12"),
}

NOT_YET = "check not built yet in this session (design in DESIGN.md section 4); no claim made"

def main():
    checks = []
    for pid in ALL:
        c = CHECKS.get(pid)
        if not c:
            continue
        checks.append({
            "property_id": pid,
            "quick_cmd": "./run.sh %s quick" % pid,
            "thorough_cmd": "./run.sh %s thorough" % pid,
            "evidence_file": "/verif/evidence/%s.json" % pid,
            "replay_cmd_template": "./run.sh replay {path}",
            "engine": c["engine"],
            "level_claimed": {"category": c["cat"], "text": c["text"], "design_ref": c["ref"]},
            "level_note": c["note"],
            "technique": c["technique"],
        })
    na = [{"property_id": p, "reason": NA.get(p, NOT_YET)} for p in ALL if p not in CHECKS]
    m = {
        "version": 1,
        "setup_cmd": "./setup.sh",
        "hooks": {
            "guard": "verif",
            "enable": "no source hooks are committed in /repo; instrumentation is added at check time with `go build -overlay` files carrying //go:build verif and built with -tags verif",
            "baseline_off_cmd": "/verif/baseline_off.sh",
            "source_commits": [],
            "add_only": True,
        },
        "engines": [
            {"name": "libmc", "path": "checks/", "serves_properties": sorted(CHECKS.keys()),
             "kind_free_text": "hand-written bounded-exhaustive enumerators (odometers over stated alphabets, fault-point enumeration, explicit-state search) driving the real code, one Go program per property under checks/<id>"},
        ],
        "checks": checks,
        "not_applicable": na,
        "notes": "Every check rebuilds from /repo's working tree through the go.mod replace directive (and regenerates C with the tree's own wuffs-c where C is involved). Known findings: /verif/known_findings.json.",
    }
    json.dump(m, open("/verif/MANIFEST.json", "w"), indent=1)
    try:
        import jsonschema
        jsonschema.validate(m, json.load(open("/root/.vp/MANIFEST.schema.json")))
        print("MANIFEST.json valid;", len(checks), "checks,", len(na), "not_applicable")
    except ImportError:
        print("jsonschema not available; wrote MANIFEST.json")

NA = {}

if __name__ == "__main__":
    main()
