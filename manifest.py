#!/usr/bin/env python3
"""Regenerates /verif/MANIFEST.json from the table below (and validates it)."""
import json, os, sys

ALL = ["C%02d" % i for i in range(1, 21)]

CHECKS = {
 "C06": dict(cat="exploration", engine="libmc",
   technique="bounded-exhaustive enumeration of interval pairs x operations x members against brute force / exact reference hull",
   text="Every ordered pair of intervals over a small universe (bounds -N..N and +-inf, empties included) x 10 operations is checked against all member pairs; a second universe of bounds around 2^8..2^65 is checked against an independently written exact hull (corner candidates, bit-DP for And/Or, itself validated against brute force). Tightness, the ok flag, and the no-aliasing clause (pointer identity, scribble-and-recompute) are checked on every case.",
   note="Trusts math/big. Shift counts above 2^16 and members of infinite sides beyond the clip range are not explored.",
   ref="DESIGN.md section 4 C06"),
 "C12": dict(cat="exploration", engine="libmc",
   technique="bounded-exhaustive enumeration of texts (all strings up to length L over a 17-symbol alphabet) and of layout mutations of every repository source, run on the real formatters",
   text="dumbindent: every lexically closed text up to length 6 (thorough 7) over a delimiter alphabet x 3 option sets, and every C file of the repository under indentation perturbations: terminates (in-process hang/heap watchdog), white-space-only, idempotent. wuffsfmt: every .wuffs file split into top-level chunks, every per-line layout mutation the formatter accepts: token+comment stream preserved, output parses, idempotent.",
   note="Lexical closure is the conservative definition in checks/c12 (strings close on their line; preprocessor lines closed on their own). Leading blank lines removed by dumbindent count as white space. Large chunks are line-strided in quick.",
   ref="DESIGN.md section 4 C12"),
 "C13": dict(cat="fault_enumeration", engine="libmc",
   technique="bounded-exhaustive enumeration of (payload, Write partition, configuration) and of every fault point of the underlying io.Writer/TempFile on the real rac.Writer",
   text="Every payload over a 3-letter alphabet up to length 5 (thorough 7) under every partition into Write calls, every zero/non-zero run alternation under uniform write steps with CChunkSize, structured payloads x {zlib,lz4,zstd} x sizing x page size x index location x temp-file kind x resources; for a reduced configuration set every fault point k (fail-from-k and fail-once) of the Writer and of the TempFile's Write/Read/Seek. Oracles: an independent validator written from doc/spec/rac-spec.md, the real rac.Reader round trip, an independent leaf walker + compress/zlib; under faults Close must fail and errors must stay reported.",
   note="Short writes with nil error are outside io.Writer's contract and not injected. lz4/zstd chunks are only decoded by the repository's own cgo codecs. The CPageSize page-minimising promise is not part of the property.",
   ref="DESIGN.md section 4 C13"),
 "C14": dict(cat="model_checking", engine="gosched",
   technique="stateless model checking of the real conc_reader.go under a controlled cooperative scheduler (preemption/deviation-bounded DFS with happens-before state pruning), plus explicit BFS over call sequences against a reference model",
   text="lib/rac/conc_reader.go is rewritten mechanically (go/ast, every chan/make/send/recv/select/close/go routed through a scheduler library injected with go build -overlay; unknown constructs abort the check) and the real rac.Reader is run for each (history, file, Concurrency 2/3) under every schedule within the bounds (quick: <=1 preemption and <=1 select/rendezvous deviation on 3 chunks, reduced bounds on 6/12 chunks; thorough: 2/2 and unbounded on 3 chunks): no deadlock, no goroutine left after Close, no panic, results equal a bytes.Reader+limit model in every schedule. Sequential readers (Concurrency 0/1) are explored by BFS over all call sequences to depth 3 (4) over a 41-symbol alphabet on 7 files.",
   note="Threads share memory only through channels (the rewriter refuses sync/atomic/time; data races are invisible to a cooperative scheduler). Loan buffers are shrunk from 64 KiB to 8 bytes in the explored twin (capacity only). Map iteration in recycleBuffers is fixed, not explored. An identity codec replaces zlib in the scheduled runs.",
   ref="DESIGN.md section 4 C14, Appendix A"),
 "C15": dict(cat="fault_enumeration", engine="libmc",
   technique="exhaustive enumeration of single-byte, field-level and structural mutations (checksum repaired) of small valid files, walked on the real readers over an operation-counting ReadSeeker",
   text="For 10 seed files (writer-made and hand-built two-level / long-codec indexes): every byte replaced by every value (with and without checksum repair), every index field set to each boundary value (pairs within small nodes), every re-pointing of a child at any node as a branch, every truncation and wrong claimed size, the empty file with any two bytes replaced. Each mutant: ChunkReader walk twice and Reader seek/read twice; no panic, work within a read/seek budget proportional to the file (plus a CPU watchdog), chunks well-formed, contiguous and ending at DecompressedSize, same bytes both times.",
   note="Work is metered in Read/Seek calls (budget 4000+40*len); zstd chunks are not exercised.",
   ref="DESIGN.md section 4 C15"),
 "C17": dict(cat="exploration", engine="libmc",
   technique="bounded-exhaustive enumeration of payloads and of single/adjacent-pair byte mutations of encoded seeds, against the package's own decoder and the system xz tool",
   text="Every payload over {00,5A,FF} up to length 8 (thorough 9) and structured long payloads (carry chains, chunk-size boundaries) x {LZMA, XZ}: Decode(Encode(p)) == p with nothing left over, and xz -dc decodes the same bytes (batched). Robustness: every byte string of length <= 2, every truncation, deletion, insertion, single-byte and adjacent-pair replacement of 9-10 seeds per format: no panic, no hang, output <= 64*len(in)+64KiB.",
   note="Trusts the system xz tool as the independent decoder (reported as SKIPPED, not passed, if absent). The cross-check against the generated Wuffs std/lzma and std/xz C decoders is made by the C-level checks, not here.",
   ref="DESIGN.md section 4 C17"),
}

NOT_YET = "check not built yet in this session (design in DESIGN.md section 4); no claim made"

def main():
    checks = []
    for pid in ALL:
        c = CHECKS.get(pid)
        if not c:
            continue
        checks.append({
            "property_id": pid,
            "quick_cmd": "./run.sh %s quick" % pid,
            "thorough_cmd": "./run.sh %s thorough" % pid,
            "evidence_file": "/verif/evidence/%s.json" % pid,
            "replay_cmd_template": "./run.sh replay {path}",
            "engine": c["engine"],
            "level_claimed": {"category": c["cat"], "text": c["text"], "design_ref": c["ref"]},
            "level_note": c["note"],
            "technique": c["technique"],
        })
    na = [{"property_id": p, "reason": NA.get(p, NOT_YET)} for p in ALL if p not in CHECKS]
    m = {
        "version": 1,
        "setup_cmd": "./setup.sh",
        "hooks": {
            "guard": "verif",
            "enable": "no source hooks are committed in /repo; instrumentation is added at check time with `go build -overlay` files carrying //go:build verif and built with -tags verif",
            "baseline_off_cmd": "/verif/baseline_off.sh",
            "source_commits": [],
            "add_only": True,
        },
        "engines": [
            {"name": "libmc", "path": "checks/", "serves_properties": sorted(CHECKS.keys()),
             "kind_free_text": "hand-written bounded-exhaustive enumerators (odometers over stated alphabets, fault-point enumeration, explicit-state search) driving the real code, one Go program per property under checks/<id>"},
        ],
        "checks": checks,
        "not_applicable": na,
        "notes": "Every check rebuilds from /repo's working tree through the go.mod replace directive (and regenerates C with the tree's own wuffs-c where C is involved). Known findings: /verif/known_findings.json.",
    }
    json.dump(m, open("/verif/MANIFEST.json", "w"), indent=1)
    try:
        import jsonschema
        jsonschema.validate(m, json.load(open("/root/.vp/MANIFEST.schema.json")))
        print("MANIFEST.json valid;", len(checks), "checks,", len(na), "not_applicable")
    except ImportError:
        print("jsonschema not available; wrote MANIFEST.json")

NA = {}

if __name__ == "__main__":
    main()
