// Package drive is the explorer shared by checks C01 and C02: it walks the
// progen families level by level (children of rejected programs are pruned),
// runs every accepted program through interp.Explore with the property's
// monitors and turns observations into ev violations with abstract signatures.
package drive

import (
	"encoding/json"
	"fmt"
	"os"
	"runtime"
	"runtime/debug"
	"runtime/pprof"
	"sort"
	"strings"
	"sync"
	"sync/atomic"
	"syscall"

	"verif/internal/ev"
	"verif/internal/interp"
	"verif/internal/progen"
)

type Config struct {
	Prop     string   // "C01" or "C02"
	Families []string // progen families to walk
	// Exploration limits (per program).
	MaxExec   int
	MaxStates int
	MaxTuples int
}

// Witness is what goes into replay files.
type Witness struct {
	Family   string            `json:"family"`
	Tags     map[string]string `json:"tags,omitempty"`
	Program  string            `json:"program"`
	History  []interp.CallSpec `json:"history"`
	Call     interp.CallSpec   `json:"call"`
	Plan     *interp.CoroPlan  `json:"plan,omitempty"` // coroutine suspend/resume pattern (instead of history/call)
	Observed []string          `json:"observed"`
	Kind     string            `json:"kind,omitempty"`
}

type famStats struct {
	Generated, Accepted, Rejected, Unsupported int64
	RejectStage                                map[string]int64
	Executions, Steps, Evals, BoundsN, ConstN  int64
	Pairs, PointVisits, PointStates            int64
	RecvStates                                 int64
	CappedExec, CappedStates, CappedTuples     int64
	Reduced                                    int64
	ViolatingPrograms                          int64
	Hung, Suspensions, CappedAny               int64
	Levels                                     int
	SkippedBudget                              int64
}

type Driver struct {
	R      *ev.Run
	Cfg    Config
	Oracle *interp.FactOracle

	mu        sync.Mutex
	fam       map[string]*famStats
	shapes    map[string]int64 // distinct abstract fact shapes
	errKinds  map[string]int64
	sigCount  map[string]int64
	problems  []string
	bugs      []string
	factStrs  map[string]struct{}
	probeErrs atomic.Int64
	selfcheck atomic.Int64
}

// CPUSeconds returns the user+system CPU time consumed by this process.
func CPUSeconds() float64 {
	var ru syscall.Rusage
	if syscall.Getrusage(syscall.RUSAGE_SELF, &ru) != nil {
		return 0
	}
	return float64(ru.Utime.Sec+ru.Stime.Sec) + float64(ru.Utime.Usec+ru.Stime.Usec)/1e6
}

func New(r *ev.Run, cfg Config) *Driver {
	// check.Check allocates heavily (it re-parses the built-in tables on every
	// call); a larger GC target keeps the collector out of the way.
	debug.SetGCPercent(200)
	debug.SetMemoryLimit(8 << 30)
	return &Driver{R: r, Cfg: cfg, Oracle: interp.NewFactOracle(), fam: map[string]*famStats{},
		shapes: map[string]int64{}, errKinds: map[string]int64{}, sigCount: map[string]int64{}, factStrs: map[string]struct{}{}}
}

// toolchainPanic reports whether the innermost non-runtime frame of a panic
// stack belongs to the wuffs module (as opposed to this harness).
func toolchainPanic(stack []byte) bool {
	lines := strings.Split(string(stack), "\n")
	seenPanic := false
	for _, ln := range lines {
		if strings.HasPrefix(ln, "panic(") {
			seenPanic = true
			continue
		}
		if !seenPanic || strings.HasPrefix(ln, "\t") || strings.HasPrefix(ln, "runtime.") || ln == "" {
			continue
		}
		return strings.HasPrefix(ln, "github.com/google/wuffs/")
	}
	return false
}

func firstLines(s string, n int) string {
	l := strings.Split(s, "\n")
	if len(l) > n {
		l = l[:n]
	}
	return strings.Join(l, "\n")
}

// panicSite names the innermost three wuffs functions on a panic stack.
func panicSite(stack []byte) string {
	var fns []string
	for _, ln := range strings.Split(string(stack), "\n") {
		if !strings.HasPrefix(ln, "github.com/google/wuffs/") {
			continue
		}
		f := strings.TrimPrefix(ln, "github.com/google/wuffs/")
		if i := strings.LastIndex(f, "("); i > 0 {
			f = f[:i]
		}
		f = strings.NewReplacer("(*", "", ")", "").Replace(f)
		fns = append(fns, f)
		if len(fns) == 3 {
			break
		}
	}
	if len(fns) == 0 {
		return "toolchain"
	}
	return strings.Join(fns, "<-")
}

// errKind abstracts a rejection message: digits and quoted text removed.
func errKind(msg string) string {
	if i := strings.Index(msg, " at p.wuffs"); i >= 0 {
		msg = msg[:i]
	}
	var sb strings.Builder
	inq := false
	for i := 0; i < len(msg); i++ {
		c := msg[i]
		if c == '"' {
			inq = !inq
			if inq {
				sb.WriteString("\"..\"")
			}
			continue
		}
		if inq {
			continue
		}
		if c >= '0' && c <= '9' {
			if sb.Len() > 0 && strings.HasSuffix(sb.String(), "N") {
				continue
			}
			sb.WriteByte('N')
			continue
		}
		sb.WriteByte(c)
	}
	s := sb.String()
	if len(s) > 90 {
		s = s[:90]
	}
	return s
}

type progOutcome struct {
	accepted bool
}

func (d *Driver) stats(f string) *famStats {
	fs := d.fam[f]
	if fs == nil {
		fs = &famStats{RejectStage: map[string]int64{}}
		d.fam[f] = fs
	}
	return fs
}

func writeHeapProfile() {
	if pf := os.Getenv("DRIVE_MEMPROF"); pf != "" {
		runtime.GC()
		f, err := os.Create(pf)
		if err == nil {
			pprof.WriteHeapProfile(f)
			f.Close()
		}
	}
}

// Run walks all configured families.
func (d *Driver) Run() {
	defer writeHeapProfile()
	// VERIF_STOP_ON_VIOLATION=1 (used to speed up detection self-tests): stop
	// walking as soon as a violation with an unlisted signature was recorded.
	stopEarly := os.Getenv("VERIF_STOP_ON_VIOLATION") == "1"
	if stopEarly {
		defer d.R.MarkCapped()
	}
	for _, name := range d.Cfg.Families {
		fam := progen.New(name, d.R.Tier)
		if fam == nil {
			ev.Fatal("unknown family %q", name)
		}
		level := fam.Roots()
		depth := 0
		for len(level) > 0 {
			outcomes := make([]progOutcome, len(level))
			ev.ParFor(len(level), func(w, i int) {
				if stopEarly && d.R.NumViolations() > 0 {
					return
				}
				if d.R.Expired() {
					d.mu.Lock()
					d.stats(name).SkippedBudget++
					d.mu.Unlock()
					return
				}
				outcomes[i] = d.process(name, level[i])
			})
			d.mu.Lock()
			d.stats(name).Levels = depth + 1
			d.mu.Unlock()
			if d.R.Capped() || (stopEarly && d.R.NumViolations() > 0) {
				break
			}
			var next []progen.Program
			for i, p := range level {
				if outcomes[i].accepted {
					next = append(next, fam.Extend(p)...)
				}
			}
			level = next
			depth++
		}
	}
}

func (d *Driver) process(family string, p progen.Program) (out progOutcome) {
	defer func() {
		if r := recover(); r != nil {
			// A panic inside the toolchain (tokenizer / parser / checker) on a generated program.
			stack := debug.Stack()
			if !toolchainPanic(stack) {
				d.mu.Lock()
				if len(d.bugs) < 10 {
					d.bugs = append(d.bugs, fmt.Sprintf("harness panic: %v\n%s\n%s", r, firstLines(string(stack), 14), p.Src))
				}
				d.mu.Unlock()
				return
			}
			sig := "panic:" + panicSite(stack)
			d.R.Violation(sig, fmt.Sprintf("panic while compiling a generated program: %v", r),
				Witness{Family: family, Tags: p.Tags, Program: p.Src, Kind: "panic"})
		}
	}()
	prog, err := interp.Compile(p.Src)
	d.mu.Lock()
	fs := d.stats(family)
	fs.Generated++
	if err != nil {
		if rj, ok := err.(*interp.Rejected); ok {
			fs.Rejected++
			fs.RejectStage[rj.Stage]++
			d.errKinds[rj.Stage+": "+errKind(rj.Err.Error())]++
		} else {
			fs.Unsupported++
			if len(d.bugs) < 10 {
				d.bugs = append(d.bugs, err.Error()+"\n"+p.Src)
			}
		}
		d.mu.Unlock()
		return
	}
	fs.Accepted++
	d.mu.Unlock()
	out.accepted = true

	opt := interp.ExploreOptions{Depth: 2, MaxExec: d.Cfg.MaxExec, MaxStates: d.Cfg.MaxStates, MaxTuples: d.Cfg.MaxTuples}
	memo := map[string]bool{}
	violating := false
	switch d.Cfg.Prop {
	case "C01":
		opt.Bounds = true
	case "C02":
		opt.Facts = d.Oracle
	}
	localSigs := map[string]int64{}
	opt.OnExec = func(x *interp.Execution) {
		interesting := false
		key := ""
		if d.Cfg.Prop == "C01" && x.Result.Viol != nil {
			interesting = true
			key = x.Result.Viol.Kind + "|" + fmt.Sprint(x.Result.Viol.Line) + "|" + x.Result.Viol.Expr
		}
		if d.Cfg.Prop == "C02" && len(x.False) > 0 {
			interesting = true
			for _, ff := range x.False {
				key += fmt.Sprintf("|%d:%s", ff.Line, ff.Fact)
			}
		}
		if !interesting {
			return
		}
		violating = true
		if memo[key] {
			return
		}
		memo[key] = true
		diag := interp.Diagnose(prog, d.Oracle, x.History, x.Call)
		wit := Witness{Family: family, Tags: p.Tags, Program: p.Src, History: x.History, Call: x.Call, Observed: diag.Lines}
		if d.Cfg.Prop == "C01" {
			if diag.Viol == nil {
				d.note("C01 violation did not reproduce under Diagnose: " + key)
				return
			}
			sig := diag.C01Sig
			localSigs[sig]++
			d.R.Violation(sig, fmt.Sprintf("accepted program: %s", diag.Viol.String()), wit)
			return
		}
		for _, ff := range diag.False {
			sig := ff.Signature
			if ff.Reason != "" {
				mm := p.Tags["mismatch"]
				if mm == "" {
					mm = "none"
				}
				sig = "axiom:" + ff.Reason + ":" + mm
			}
			localSigs[sig]++
			d.R.Violation(sig, fmt.Sprintf("fact %q is listed by the checker at line %d but is false at run time", ff.Fact, ff.Line), wit)
		}
	}
	if prog.HasCoroutines() {
		// The suspend/resume driver below does the deep work; keep the generic
		// single-call exploration small.
		opt.MaxTuples, opt.Depth = 48, 1
	}
	st := interp.Explore(prog, opt)
	if prog.HasCoroutines() {
		// The generic exploration of a coroutine program is supplementary (and
		// deliberately small); only the plan enumeration's cap counts.
		st.CappedExec, st.CappedStates, st.CappedTuples = false, false, false
		maxLen, maxPlans := 3, 2500
		if d.R.Thorough() {
			maxLen, maxPlans = 4, 4000
		}
		cst := interp.ExploreCoro(prog, opt, maxLen, maxPlans, func(pl interp.CoroPlan, cr *interp.CoroRun) {
			key := ""
			if d.Cfg.Prop == "C01" && cr.Viol != nil {
				key = cr.Viol.Kind + "|" + fmt.Sprint(cr.Viol.Line) + "|" + cr.Viol.Expr
			}
			if d.Cfg.Prop == "C02" {
				for _, ff := range cr.False {
					key += fmt.Sprintf("|%d:%s", ff.Line, ff.Fact)
				}
			}
			if key == "" {
				return
			}
			violating = true
			if memo["coro|"+key] {
				return
			}
			memo["coro|"+key] = true
			diag := interp.DiagnoseCoro(prog, d.Oracle, pl)
			plc := pl
			wit := Witness{Family: family, Tags: p.Tags, Program: p.Src, Plan: &plc, Observed: diag.Lines}
			if d.Cfg.Prop == "C01" {
				if diag.Viol != nil {
					localSigs[diag.C01Sig]++
					d.R.Violation(diag.C01Sig, fmt.Sprintf("accepted program: %s", diag.Viol.String()), wit)
				}
				return
			}
			for _, ff := range diag.False {
				localSigs[ff.Signature]++
				d.R.Violation(ff.Signature, fmt.Sprintf("fact %q is listed by the checker at line %d but is false at run time", ff.Fact, ff.Line), wit)
			}
		})
		st.Executions += cst.Executions
		st.Steps += cst.Steps
		st.Evals += cst.Evals
		st.BoundsN += cst.BoundsN
		st.ConstN += cst.ConstN
		st.Pairs += cst.Pairs
		st.PointVisits += cst.PointVisits
		st.PointStates += cst.PointStates
		st.Hung += cst.Hung
		st.Suspensions += cst.Suspensions
		st.Bugs = append(st.Bugs, cst.Bugs...)
		st.Problems = append(st.Problems, cst.Problems...)
		if cst.CappedExec {
			st.CappedExec = true
		}
	}

	d.mu.Lock()
	defer d.mu.Unlock()
	fs.Suspensions += st.Suspensions
	fs.Executions += st.Executions
	fs.Steps += st.Steps
	fs.Evals += st.Evals
	fs.BoundsN += st.BoundsN
	fs.ConstN += st.ConstN
	fs.Pairs += st.Pairs
	fs.PointVisits += st.PointVisits
	fs.PointStates += st.PointStates
	fs.RecvStates += st.RecvStates
	fs.Hung += st.Hung
	if st.CappedExec || st.CappedStates || st.CappedTuples {
		fs.CappedAny++
	}
	if st.CappedExec {
		fs.CappedExec++
	}
	if st.CappedStates {
		fs.CappedStates++
	}
	if st.CappedTuples {
		fs.CappedTuples++
	}
	if st.Reduced {
		fs.Reduced++
	}
	if violating {
		fs.ViolatingPrograms++
	}
	for s, n := range localSigs {
		d.sigCount[s] += n
	}
	for _, b := range st.Bugs {
		if len(d.bugs) < 10 {
			d.bugs = append(d.bugs, b+"\n"+p.Src)
		}
	}
	for _, b := range st.Problems {
		if len(d.problems) < 10 {
			d.problems = append(d.problems, b+"\n"+p.Src)
		}
	}
	if d.Cfg.Prop == "C02" {
		crossCheck := p.ID[0] == '0' && p.ID[1] <= '3' // 1 program in 64
		for _, ln := range prog.Points() {
			rf := d.Oracle.Raw(prog, ln)
			for _, s := range rf.Strs {
				d.factStrs[interp.FactShape(s)] = struct{}{}
			}
			if crossCheck && rf.Err == "" {
				full := interp.ProbeFacts(prog.FullProbeSource(ln), ln)
				d.selfcheck.Add(1)
				if full.Err != "" || strings.Join(full.Strs, "\n") != strings.Join(rf.Strs, "\n") {
					if len(d.problems) < 10 {
						d.problems = append(d.problems, fmt.Sprintf("truncated probe disagrees with full insertion at line %d: %v vs %v (%s)\n%s", ln, rf.Strs, full.Strs, full.Err, p.Src))
					}
				}
			}
		}
	}
	if st.Executions > 0 && (p.ID[0] == 'a' || fs.Accepted <= 2) {
		d.R.Sample(map[string]any{"family": family, "program_sha1": p.ID, "tags": p.Tags, "source": p.Src, "executions": st.Executions,
			"receiver_states": st.RecvStates, "statements_executed": st.Steps})
	}
	return
}

func (d *Driver) note(s string) {
	d.mu.Lock()
	if len(d.problems) < 10 {
		d.problems = append(d.problems, s)
	}
	d.mu.Unlock()
}

// Totals sums the per-family statistics.
type Totals struct {
	Generated, Accepted, Rejected int64
	Executions, Steps, Evals      int64
	BoundsN, ConstN               int64
	Pairs, PointVisits            int64
	PointStates, RecvStates       int64
	FamiliesBothOutcomes          int64
	Violating                     int64
	// ProgramsCapped: accepted programs whose exploration was truncated by a
	// per-program cap (executions, receiver states, argument tuples, plans).
	ProgramsCapped int64
}

func (d *Driver) Totals() Totals {
	var t Totals
	for _, fs := range d.fam {
		t.Generated += fs.Generated
		t.Accepted += fs.Accepted
		t.Rejected += fs.Rejected
		t.Executions += fs.Executions
		t.Steps += fs.Steps
		t.Evals += fs.Evals
		t.BoundsN += fs.BoundsN
		t.ConstN += fs.ConstN
		t.Pairs += fs.Pairs
		t.PointVisits += fs.PointVisits
		t.PointStates += fs.PointStates
		t.RecvStates += fs.RecvStates
		t.Violating += fs.ViolatingPrograms
		t.ProgramsCapped += fs.CappedAny
		if fs.Accepted > 0 && fs.Rejected > 0 {
			t.FamiliesBothOutcomes++
		}
	}
	return t
}

// Report fills histograms / extras and returns harness problems (which the
// caller must treat as fatal).
func (d *Driver) Report() (extra map[string]any, fatal []string) {
	extra = map[string]any{}
	fams := map[string]any{}
	var names []string
	for n := range d.fam {
		names = append(names, n)
	}
	sort.Strings(names)
	for _, n := range names {
		fs := d.fam[n]
		fams[n] = map[string]any{
			"generated": fs.Generated, "accepted": fs.Accepted, "rejected": fs.Rejected, "rejected_by_stage": fs.RejectStage,
			"levels": fs.Levels, "executions": fs.Executions, "statements_executed": fs.Steps, "expr_nodes_evaluated": fs.Evals,
			"mbounds_comparisons": fs.BoundsN, "constvalue_crosschecks": fs.ConstN, "point_fact_pairs": fs.Pairs,
			"point_visits": fs.PointVisits, "point_states": fs.PointStates, "receiver_states": fs.RecvStates,
			"programs_capped_exec": fs.CappedExec, "programs_capped_states": fs.CappedStates, "programs_capped_tuples": fs.CappedTuples,
			"programs_with_reduced_domains": fs.Reduced, "violating_programs": fs.ViolatingPrograms, "hung_executions": fs.Hung,
			"programs_skipped_by_budget": fs.SkippedBudget, "suspensions": fs.Suspensions,
		}
		d.R.HistAdd("accepted_per_family", n, fs.Accepted)
		d.R.HistAdd("rejected_per_family", n, fs.Rejected)
		if fs.Unsupported > 0 {
			fatal = append(fatal, fmt.Sprintf("family %s: %d accepted programs outside the interpreter's subset", n, fs.Unsupported))
		}
	}
	extra["families"] = fams
	d.R.MergeHist("rejection_kinds", d.errKinds)
	d.R.MergeHist("signature_hits", d.sigCount)
	extra["fact_oracle"] = map[string]any{"probe_checks": d.Oracle.Checks.Load(), "cache_hits": d.Oracle.Hits.Load()}
	extra["cpu_seconds"] = CPUSeconds()
	extra["distinct_fact_shapes"] = len(d.factStrs)
	extra["probe_truncation_crosschecks"] = d.selfcheck.Load()
	if len(d.factStrs) > 0 {
		var l []string
		for s := range d.factStrs {
			l = append(l, s)
		}
		sort.Strings(l)
		if len(l) > 60 {
			l = l[:60]
		}
		extra["fact_shapes_sample"] = l
	}
	for _, b := range d.bugs {
		fatal = append(fatal, "interpreter / generator problem: "+b)
	}
	for _, b := range d.problems {
		fatal = append(fatal, "fact-probe problem: "+b)
	}
	return extra, fatal
}

// Replay re-executes a recorded witness linearly, twice, and reports whether
// the recorded signature reproduces.
func Replay(prop, path string) {
	b, err := os.ReadFile(path)
	if err != nil {
		ev.Fatal("%v", err)
	}
	var doc struct {
		Signature string  `json:"signature"`
		What      string  `json:"what"`
		Witness   Witness `json:"witness"`
	}
	if err := json.Unmarshal(b, &doc); err != nil {
		ev.Fatal("%v", err)
	}
	fmt.Printf("replaying %s\n  recorded: %s\n", doc.Signature, doc.What)
	fmt.Println("  program:")
	for i, l := range strings.Split(doc.Witness.Program, "\n") {
		fmt.Printf("   %3d  %s\n", i+1, l)
	}
	run := func() ([]string, []string) {
		prog, err := interp.Compile(doc.Witness.Program)
		if err != nil {
			return []string{"not accepted: " + err.Error()}, nil
		}
		fo := interp.NewFactOracle()
		var diag *interp.Diagnosis
		if doc.Witness.Plan != nil {
			diag = interp.DiagnoseCoro(prog, fo, *doc.Witness.Plan)
		} else {
			diag = interp.Diagnose(prog, fo, doc.Witness.History, doc.Witness.Call)
		}
		var sigs []string
		if diag.Viol != nil {
			sigs = append(sigs, "C01 "+diag.C01Sig)
		}
		for _, ff := range diag.False {
			s := ff.Signature
			if ff.Reason != "" {
				mm := doc.Witness.Tags["mismatch"]
				if mm == "" {
					mm = "none"
				}
				s = "axiom:" + ff.Reason + ":" + mm
			}
			sigs = append(sigs, "C02 "+s)
		}
		lines := diag.Lines
		if diag.Bug != "" {
			lines = append(lines, "interpreter problem: "+diag.Bug)
		}
		return lines, sigs
	}
	l1, s1 := run()
	l2, s2 := run()
	if strings.Join(l1, "\n") != strings.Join(l2, "\n") || strings.Join(s1, "\n") != strings.Join(s2, "\n") {
		ev.Fatal("replay diverged between two runs")
	}
	for _, l := range l1 {
		fmt.Println("  " + l)
	}
	for _, s := range s1 {
		if s == prop+" "+doc.Signature {
			fmt.Println("  reproduced: " + s)
			os.Exit(1)
		}
	}
	fmt.Printf("  not reproduced (observed signatures: %v)\n", s1)
}
