package interp

import (
	t "github.com/google/wuffs/lang/token"
)

type ctl uint8

const (
	cNormal ctl = iota
	cBreak
	cContinue
	cReturn
	cSuspend
)

type flow struct {
	c      ctl
	target *Stmt
	val    Value
}

// CoroState is the saved frame of a suspended coroutine (ideal semantics: all
// locals keep their values; pointer-typed locals are poisoned).
type CoroState struct {
	fn          *Func
	vars        []Value
	path        []*Stmt // outermost .. suspended statement
	resumedFlag bool
	// A suspended built-in I/O call keeps its already-evaluated arguments (the
	// generated code evaluates them once, before the suspension point) and, for
	// skip?, the count still to be skipped.
	pendingArgs []Value
	pendingSkip *Int
	mon         *prevInfo // fact-monitor state of the suspended frame
}

func (cs *CoroState) clone(from, to *Object) *CoroState {
	n := &CoroState{fn: cs.fn, path: cs.path, resumedFlag: cs.resumedFlag, mon: cs.mon}
	n.vars = make([]Value, len(cs.vars))
	for i, v := range cs.vars {
		if v.K == VArray {
			v.A = &Array{E: append([]Int(nil), v.A.E...), ET: v.A.ET}
		}
		n.vars[i] = v
	}
	n.pendingArgs = append([]Value(nil), cs.pendingArgs...)
	if cs.pendingSkip != nil {
		v := *cs.pendingSkip
		n.pendingSkip = &v
	}
	return n
}

func (cs *CoroState) hash(h uint64) uint64 {
	h ^= uint64(cs.fn.Line)
	h *= 1099511628211
	for _, s := range cs.path {
		h ^= uint64(s.Line)
		h *= 1099511628211
	}
	for i, v := range cs.vars {
		if i < len(cs.fn.Args) {
			continue // arguments are supplied afresh on resumption
		}
		if v.K == VSlice || v.K == VIO || v.K == VPtr {
			continue // pointer-typed locals are not preserved
		}
		h = hashValue(h, v)
	}
	return h
}

func sortedCoro(mp map[*Func]*CoroState) []*CoroState {
	var out []*CoroState
	for _, v := range mp {
		out = append(out, v)
	}
	for i := 1; i < len(out); i++ {
		for j := i; j > 0 && out[j].fn.Line < out[j-1].fn.Line; j-- {
			out[j], out[j-1] = out[j-1], out[j]
		}
	}
	return out
}

type resumeCursor struct {
	path []*Stmt
	idx  int
}

type suspendInfo struct {
	path []*Stmt // collected leaf-first while unwinding
}

func (m *Machine) point(fr *frame, line int) {
	if m.Mon != nil {
		m.Mon.AtPoint(m, fr, line, m.lastEvent)
	}
}

func (m *Machine) execBlock(fr *frame, stmts []*Stmt, endLine int, term bool) flow {
	start := 0
	if m.resume != nil && m.resume.idx < len(m.resume.path) {
		target := m.resume.path[m.resume.idx]
		found := false
		for i, s := range stmts {
			if s == target {
				start, found = i, true
				break
			}
		}
		if !found {
			m.bug("resume path statement (line %d) not found in block", target.Line)
		}
	}
	for i := start; i < len(stmts); i++ {
		s := stmts[i]
		resuming := m.resume != nil
		if !resuming && s.K != SVar {
			m.point(fr, s.Line)
		}
		fl := m.execStmt(fr, s)
		if fl.c == cSuspend {
			if m.suspended == nil {
				m.suspended = &suspendInfo{}
			}
			m.suspended.path = append(m.suspended.path, s)
			return fl
		}
		if fl.c != cNormal {
			return fl
		}
	}
	if !term {
		m.point(fr, endLine)
	}
	return flow{}
}

func contains(stmts []*Stmt, s *Stmt) bool {
	for _, x := range stmts {
		if x == s {
			return true
		}
	}
	return false
}

func (m *Machine) step(s *Stmt) {
	m.Steps++
	m.stepsInRun++
	m.curStmt = s
	m.where = "stmt"
	if m.stepsInRun > m.StepLimit {
		m.Hung = true
		panic(abortExec{})
	}
}

func (m *Machine) execStmt(fr *frame, s *Stmt) flow {
	m.step(s)
	switch s.K {
	case SVar:
		zv := m.P.ZeroValue(s.Typ)
		if zv.K == VArray {
			zv.A.owner = fr
		}
		fr.vars[s.Slot] = zv
		m.lastEvent = Event{"stmt", s}
		return flow{}
	case SAssign:
		return m.execAssign(fr, s)
	case SAssert:
		m.lastEvent = Event{"stmt", s}
		return flow{}
	case SIf:
		return m.execIf(fr, s)
	case SWhile:
		return m.execWhile(fr, s)
	case SJump:
		if s.Break {
			m.lastEvent = Event{"break", s}
			return flow{c: cBreak, target: s.Target}
		}
		m.lastEvent = Event{"continue", s}
		return flow{c: cContinue, target: s.Target}
	case SRet:
		return m.execRet(fr, s)
	case SChoose:
		if fr.this.Choose == nil {
			fr.this.Choose = map[string]string{}
		}
		// None of E1's alternatives carries a cpu_arch predicate: the first listed wins.
		if len(s.ChooseAlts) > 0 {
			fr.this.Choose[s.ChooseName] = s.ChooseAlts[0]
		}
		m.lastEvent = Event{"stmt", s}
		return flow{}
	case SIOManip:
		return m.execIOManip(fr, s)
	case SIterate:
		return m.execIterate(fr, s)
	}
	m.bug("unhandled statement kind %d", s.K)
	return flow{}
}

func (m *Machine) execIf(fr *frame, s *Stmt) flow {
	for cur := s; cur != nil; cur = cur.ElseIf {
		var takeThen bool
		if m.resume != nil {
			next := m.resume.path[m.resume.idx+1]
			if contains(cur.Then, next) {
				takeThen = true
			} else if contains(cur.Else, next) {
				takeThen = false
			} else if cur.ElseIf != nil {
				continue
			} else {
				m.bug("resume path does not enter the if at line %d", s.Line)
			}
			m.resume.idx++
			if takeThen {
				fl := m.execBlock(fr, cur.Then, cur.ThenEnd, cur.ThenTerm)
				if fl.c == cNormal {
					m.lastEvent = Event{"join", s}
				}
				return fl
			}
			fl := m.execBlock(fr, cur.Else, cur.ElseEnd, cur.ElseTerm)
			if fl.c == cNormal {
				m.lastEvent = Event{"join", s}
			}
			return fl
		}
		m.curStmt, m.where = cur, "if-cond"
		c := m.eval(fr, cur.Cond)
		m.where = "stmt"
		if c.I.Sign() != 0 {
			m.lastEvent = Event{"if-true", cur}
			fl := m.execBlock(fr, cur.Then, cur.ThenEnd, cur.ThenTerm)
			if fl.c == cNormal {
				m.lastEvent = Event{"join", s}
			}
			return fl
		}
		m.lastEvent = Event{"if-false", cur}
		if cur.ElseIf == nil {
			if len(cur.Else) > 0 {
				fl := m.execBlock(fr, cur.Else, cur.ElseEnd, cur.ElseTerm)
				if fl.c == cNormal {
					m.lastEvent = Event{"join", s}
				}
				return fl
			}
			m.lastEvent = Event{"join", s}
			return flow{}
		}
	}
	return flow{}
}

func (m *Machine) execWhile(fr *frame, s *Stmt) flow {
	first := true
	for {
		if m.resume != nil {
			m.resume.idx++
			first = false
		} else {
			m.curStmt, m.where = s, "while-cond"
			c := m.eval(fr, s.Cond)
			m.where = "stmt"
			if c.I.Sign() == 0 {
				m.lastEvent = Event{"while-exit", s}
				return flow{}
			}
			if first {
				m.lastEvent = Event{"while-enter", s}
				first = false
			} else {
				m.lastEvent = Event{"while-back", s}
			}
		}
		fl := m.execBlock(fr, s.Body, s.BodyEnd, s.BodyTerm)
		switch fl.c {
		case cBreak:
			if fl.target == s {
				// m.lastEvent is the break statement.
				return flow{}
			}
			return fl
		case cContinue:
			if fl.target != s {
				return fl
			}
		case cReturn, cSuspend:
			return fl
		}
		m.step(s)
	}
}

func (m *Machine) storeCheck(s *Stmt, e *Expr, v Value, ty *Type) {
	if v.K == VInt && ty != nil && ty.K == TInt && !inRange(v.I, ty) {
		m.fail("store-range", e, "value %s stored into %s", v.I, ty.Str)
	}
}

// lvalue resolution: returns a setter for the assignee.
func (m *Machine) assignTo(fr *frame, s *Stmt, lhs *Expr, v Value) {
	switch lhs.Op {
	case OLocal, OArg:
		old := fr.vars[lhs.Slot]
		if old.K == VArray && v.K == VArray {
			m.copyArray(lhs, old, v)
			return
		}
		fr.vars[lhs.Slot] = v
	case OField:
		obj := fr.this
		if lhs.L != nil {
			o := m.eval(fr, lhs.L)
			if o.O == nil {
				m.fail("nullptr", lhs, "store through a null pointer")
			}
			obj = o.O
		}
		old := obj.F[lhs.Slot]
		if old.K == VArray && v.K == VArray {
			m.copyArray(lhs, old, v)
			return
		}
		m.pureStore(lhs, nil, true)
		obj.F[lhs.Slot] = v
	case OIndex:
		base := m.eval(fr, lhs.L)
		i := m.eval(fr, lhs.R).I
		arr, lo, hi := m.view(lhs, base)
		es := elemSize(lhs.L.Typ)
		n, small := i.Int64()
		if !small || n < 0 || n >= int64((hi-lo)/es) {
			m.fail("index-oob", lhs, "index %s outside [0, %d)", i, (hi-lo)/es)
		}
		if es > 1 {
			if v.K != VArray {
				m.bug("array-valued element store of a non-array at line %d", s.Line)
			}
			m.copyArray(lhs, Value{K: VArray, A: arr, Lo: lo + int(n)*es, Hi: lo + (int(n)+1)*es}, v)
			return
		}
		if v.K != VInt {
			m.bug("array element store of non-integer at line %d", s.Line)
		}
		m.storeElem(lhs, arr, lo+int(n), v.I)
	default:
		m.bug("unsupported assignee %s", lhs.String())
	}
}

func (m *Machine) execAssign(fr *frame, s *Stmt) flow {
	if s.RHS.Op == OCall && s.RHS.Effect.Coroutine() {
		return m.execCoroCall(fr, s)
	}
	if m.resume != nil {
		m.bug("resuming into a non-coroutine statement at line %d", s.Line)
	}
	if s.LHS == nil {
		m.eval(fr, s.RHS)
		m.lastEvent = Event{"stmt", s}
		return flow{}
	}
	if s.AOp == t.IDEq {
		v := m.eval(fr, s.RHS)
		if v.K == VArray {
			lo, hi := arrView(v)
			v = Value{K: VArray, A: &Array{E: append([]Int(nil), v.A.E[lo:hi]...), ET: v.A.ET}}
		}
		m.storeCheck(s, s.RHS, v, s.LHS.Typ)
		if s.LHS.CheckB && s.LHS.Op == OIndex {
			// Evaluates (and monitors) the index sub-expressions of the assignee.
		}
		m.assignTo(fr, s, s.LHS, v)
		m.lastEvent = Event{"stmt", s}
		return flow{}
	}
	// Compound assignment: lhs = lhs op rhs with the LHS evaluated once.
	old := m.eval(fr, s.LHS)
	r := m.eval(fr, s.RHS)
	tmp := &Expr{Op: s.BinOp, L: s.LHS, R: s.RHS, Typ: unrefinedOf(s.LHS.Typ), str: s.String()}
	nv := IntVal(m.binop(tmp, s.BinOp, old.I, r.I))
	m.storeCheck(s, tmp, nv, s.LHS.Typ)
	m.assignTo(fr, s, s.LHS, nv)
	m.lastEvent = Event{"stmt", s}
	return flow{}
}

func unrefinedOf(ty *Type) *Type {
	if ty == nil || ty.K != TInt || !ty.Refined {
		return ty
	}
	u := *ty
	u.Min, u.Max = baseRange(ty.Bits, ty.Signed)
	u.Refined = false
	return &u
}

func (m *Machine) execRet(fr *frame, s *Stmt) flow {
	if s.Yield {
		if m.resume != nil {
			// Resuming after "yield? status": execution continues with the next statement.
			m.resume = nil
			m.lastEvent = Event{"resume", s}
			return flow{}
		}
		v := m.eval(fr, s.Val)
		m.lastEvent = Event{"stmt", s}
		return flow{c: cSuspend, val: v}
	}
	v := m.eval(fr, s.Val)
	if fr.fn.Out != nil && !fr.fn.Effect.Coroutine() {
		if v.K == VInt && fr.fn.Out.K == TInt && !inRange(v.I, fr.fn.Out) {
			m.fail("ret-range", s.Val, "return value %s outside %s", v.I, fr.fn.Out.Str)
		}
	}
	m.lastEvent = Event{"stmt", s}
	return flow{c: cReturn, val: v}
}

// callUser evaluates a call of a user-defined non-coroutine method (coroutine
// calls are statements and go through execCoroCall).
func (m *Machine) callUser(fr *frame, e *Expr) Value {
	if e.Effect.Coroutine() {
		m.bug("coroutine call %s in expression position", e.String())
	}
	obj, callee, args := m.prepareCall(fr, e)
	nf := m.newFrame(callee, obj, args)
	v, _ := m.runFrame(nf, nil)
	return v
}

func (m *Machine) prepareCall(fr *frame, e *Expr) (*Object, *Func, []Value) {
	recv := m.eval(fr, e.L)
	if recv.K != VPtr || recv.O == nil {
		m.fail("nullptr", e, "method call through a null pointer")
	}
	callee := e.Callee
	if callee.Choosy && recv.O.Choose != nil {
		if alt, ok := recv.O.Choose[callee.Name]; ok {
			if f := m.P.Funcs[callee.Recv+"."+alt]; f != nil {
				callee = f
			}
		}
	}
	args := make([]Value, len(callee.Args))
	for i, x := range e.Args {
		v := m.eval(fr, x)
		if pt := callee.Args[i].Typ; v.K == VInt && pt.K == TInt && !inRange(v.I, pt) {
			m.fail("arg-range", x, "argument %s = %s outside %s", callee.Args[i].Name, v.I, pt.Str)
		}
		args[i] = v
	}
	if callee.active > 0 {
		m.fail("recursion", e, "%s re-entered while active", callee.QName())
	}
	return recv.O, callee, args
}

func (m *Machine) newFrame(fn *Func, obj *Object, args []Value) *frame {
	nf := &frame{fn: fn, this: obj, vars: make([]Value, fn.nslots)}
	copy(nf.vars, args)
	for i, l := range fn.Locals {
		v := m.P.ZeroValue(l.Typ)
		if v.K == VArray {
			v.A.owner = nf
		}
		nf.vars[len(fn.Args)+i] = v
	}
	return nf
}

// copyArray implements array assignment (value semantics) element by element.
func (m *Machine) copyArray(e *Expr, dst, src Value) {
	dlo, dhi := arrView(dst)
	slo, shi := arrView(src)
	if dhi-dlo != shi-slo {
		m.bug("array assignment of different sizes in %s", e.String())
	}
	tmp := append([]Int(nil), src.A.E[slo:shi]...)
	for i, x := range tmp {
		m.storeElem(e, dst.A, dlo+i, x)
	}
}

// pureStore is the purity monitor (C10): inside a method declared pure, a
// store into the receiver (a field, or an array that is part of a receiver)
// or into memory the frame does not own (a caller buffer, another frame's
// local array) is a violation.
func (m *Machine) pureStore(e *Expr, arr *Array, field bool) {
	if !m.CheckPure || m.curFrame == nil || !m.curFrame.fn.Effect.Pure() {
		return
	}
	switch {
	case field || (arr != nil && arr.Recv):
		m.fail("pure-wrote-receiver", e, "a store into the receiver inside the pure method %s", m.curFrame.fn.QName())
	case arr != nil && arr.owner != m.curFrame:
		m.fail("pure-wrote-buffer", e, "a store into memory not owned by the pure method %s", m.curFrame.fn.QName())
	}
}

// runFrame runs (or resumes, when cs != nil) a function body. It returns the
// returned value and, for a coroutine that suspended, suspended == true with
// the status in the value.
func (m *Machine) runFrame(nf *frame, cs *CoroState) (ret Value, suspended bool) {
	fn := nf.fn
	fn.active++
	m.depth++
	if m.depth > 64 {
		m.fail("recursion", nil, "call depth exceeds 64 in %s", fn.QName())
	}
	savedStmt, savedWhere, savedResume, savedSusp, savedEvent := m.curStmt, m.where, m.resume, m.suspended, m.lastEvent
	savedFrame := m.curFrame
	m.curFrame = nf
	var savedMarks []int
	for _, v := range nf.vars[:len(fn.Args)] {
		if v.K == VIO && v.IO != nil {
			savedMarks = append(savedMarks, v.IO.Mark)
			v.IO.Mark = v.IO.idx()
		}
	}
	defer func() {
		fn.active--
		m.depth--
		if m.Viol == nil {
			m.curFrame = savedFrame
		}
	}()
	if cs != nil {
		m.resume = &resumeCursor{path: cs.path}
		nf.co = cs
		nf.mon = cs.mon
	} else {
		m.resume = nil
		m.lastEvent = Event{"entry", nil}
	}
	m.suspended = nil
	// Purity monitor, call level (C10): the receiver and every buffer handed to
	// a pure method must be bit-for-bit unchanged when it returns.
	checkPure := m.CheckPure && fn.Effect.Pure() && m.pure == 0
	var recvBefore uint64
	var bufBefore []uint64
	if checkPure {
		m.PureCalls++
		if nf.this != nil {
			recvBefore = nf.this.Hash()
		}
		bufBefore = bufferHashes(nf.vars[:len(fn.Args)])
	}
	fl := m.execBlock(nf, fn.Body, fn.EndLine, fn.Term)
	if checkPure {
		if nf.this != nil && nf.this.Hash() != recvBefore {
			m.curStmt = savedStmt
			m.fail("pure-wrote-receiver", nil, "the receiver changed during a call of the pure method %s", fn.QName())
		}
		after := bufferHashes(nf.vars[:len(fn.Args)])
		for i := range after {
			if i < len(bufBefore) && after[i] != bufBefore[i] {
				m.curStmt = savedStmt
				m.fail("pure-wrote-buffer", nil, "a buffer argument changed during a call of the pure method %s", fn.QName())
			}
		}
	}
	susp := m.suspended
	m.curStmt, m.where, m.resume, m.suspended = savedStmt, savedWhere, savedResume, savedSusp
	k := 0
	for _, v := range nf.vars[:len(fn.Args)] {
		if v.K == VIO && v.IO != nil && k < len(savedMarks) {
			v.IO.Mark = savedMarks[k]
			k++
		}
	}
	_ = savedEvent
	m.lastEvent = Event{"call-return", m.curStmt}
	switch fl.c {
	case cReturn:
		return fl.val, false
	case cSuspend:
		// Reverse the collected path (it was gathered leaf-first).
		p := susp.path
		for i, j := 0, len(p)-1; i < j; i, j = i+1, j-1 {
			p[i], p[j] = p[j], p[i]
		}
		st := &CoroState{fn: fn, vars: nf.vars, path: p, resumedFlag: true, pendingArgs: m.pendingArgs, pendingSkip: m.pendingSkip, mon: nf.mon}
		m.pendingArgs, m.pendingSkip = nil, nil
		if nf.this.Coro == nil {
			nf.this.Coro = map[*Func]*CoroState{}
		}
		nf.this.Coro[fn] = st
		return fl.val, true
	case cBreak, cContinue:
		m.bug("jump escaped function %s", fn.QName())
	}
	if fn.Effect.Coroutine() {
		return Value{K: VStatus}, false
	}
	if fn.Out != nil {
		// Falling off the end of a function with a return type: the zero value.
		return m.P.ZeroValue(fn.Out), false
	}
	return Value{K: VEmpty}, false
}

// execCoroCall handles "x = recv.meth?(...)", "recv.meth?(...)" and "x =? recv.meth?(...)"
// for user coroutines and for the suspendible I/O built-ins.
func (m *Machine) execCoroCall(fr *frame, s *Stmt) flow {
	e := s.RHS
	resuming := false
	if m.resume != nil {
		// This is the suspended leaf statement: retry it.
		m.resume = nil
		resuming = true
	}
	var result Value
	var status Value = Value{K: VStatus}
	if e.Callee == nil {
		// Built-in I/O coroutine.
		recv := m.eval(fr, e.L)
		var args []Value
		if resuming && fr.co != nil && fr.co.pendingArgs != nil {
			args = fr.co.pendingArgs
		} else {
			args = make([]Value, len(e.Args))
			for i, x := range e.Args {
				args[i] = m.eval(fr, x)
				if pt := ioParamType(e, i); pt != nil && args[i].K == VInt && !inRange(args[i].I, pt) {
					m.fail("arg-range", x, "argument %d of %s = %s outside %s", i, e.Meth, args[i].I, pt.Str)
				}
			}
		}
		if !resuming && fr.co != nil {
			fr.co.pendingSkip = nil
		}
		var st string
		result, st = m.ioCoro(fr, e, recv, args)
		status = StatusVal(st)
		if st != "" {
			m.pendingArgs = args
		} else if fr.co != nil {
			fr.co.pendingArgs, fr.co.pendingSkip = nil, nil
		}
	} else {
		obj, callee, args := m.prepareCall(fr, e)
		var cs *CoroState
		if obj.Coro != nil {
			cs = obj.Coro[callee]
		}
		var nf *frame
		if cs != nil {
			delete(obj.Coro, callee)
			nf = &frame{fn: callee, this: obj, vars: cs.vars, co: cs}
			copy(nf.vars, args) // resumption continues with the new arguments
			poisonPointers(callee, nf.vars)
		} else {
			nf = m.newFrame(callee, obj, args)
		}
		_ = resuming
		v, _ := m.runFrame(nf, cs)
		status = v
		result = v
	}
	c := byte(0)
	if status.S != "" {
		c = status.S[0]
	}
	if s.AOp == t.IDEqQuestion {
		// The status (including suspensions and errors) is the value.
		if s.LHS != nil {
			m.assignTo(fr, s, s.LHS, status)
		}
		m.lastEvent = Event{"stmt", s}
		return flow{}
	}
	switch c {
	case '$':
		m.lastEvent = Event{"stmt", s}
		return flow{c: cSuspend, val: status}
	case '#':
		m.lastEvent = Event{"stmt", s}
		return flow{c: cReturn, val: status}
	}
	if s.LHS != nil {
		if e.Callee != nil {
			m.bug("user coroutine with a result at line %d", s.Line)
		}
		m.storeCheck(s, e, result, s.LHS.Typ)
		m.assignTo(fr, s, s.LHS, result)
	}
	m.lastEvent = Event{"stmt", s}
	return flow{}
}

// poisonPointers: pointer-typed locals (slices, pointers, I/O locals) are not
// saved across a suspension; in the generated C they are re-declared
// zero-initialised when the coroutine is re-entered. After a resumption they
// therefore hold their zero value (the nil slice, nullptr, an unset I/O value);
// the Poison flag only feeds the PoisonUses counter.
func poisonPointers(fn *Func, vars []Value) {
	for i, l := range fn.Locals {
		switch l.Typ.K {
		case TSlice, TPtr, TIOReader, TIOWriter:
			v := fn.Prog.ZeroValue(l.Typ)
			v.Poison = true
			vars[len(fn.Args)+i] = v
		}
	}
}

// ioParamType gives the declared (refined) parameter type of the few I/O
// coroutine built-ins that take one.
func ioParamType(e *Expr, i int) *Type {
	if i != 0 {
		return nil
	}
	switch e.Meth {
	case "write_u8":
		lo, hi := baseRange(8, false)
		return &Type{K: TInt, Bits: 8, Min: lo, Max: hi, Str: "base.u8"}
	case "skip_u32":
		lo, hi := baseRange(32, false)
		return &Type{K: TInt, Bits: 32, Min: lo, Max: hi, Str: "base.u32"}
	case "skip":
		lo, hi := baseRange(64, false)
		return &Type{K: TInt, Bits: 64, Min: lo, Max: hi, Str: "base.u64"}
	}
	return nil
}

// bufferHashes hashes the memory behind by-reference arguments (the whole
// backing store of slices and pointers-to-arrays, the data and indexes of I/O buffers).
func bufferHashes(args []Value) []uint64 {
	var out []uint64
	for _, v := range args {
		h := uint64(14695981039346656037)
		switch {
		case (v.K == VSlice || v.K == VPtr || v.K == VArray) && v.A != nil:
			for _, x := range v.A.E {
				h = x.Hash64(h)
			}
		case v.K == VIO && v.IO != nil:
			b := v.IO
			h = I64(int64(b.RI)).Hash64(h)
			h = I64(int64(b.WI)).Hash64(h)
			for _, x := range b.Data {
				h ^= uint64(x)
				h *= 1099511628211
			}
		default:
			continue
		}
		out = append(out, h)
	}
	return out
}

// execIterate: the sources are evaluated once; all variables walk over the
// first min(length) elements in lock step. For each round in order, while at
// least `length` elements remain: every variable is bound to the window of
// exactly `length` elements at the current position, the body runs, the
// position advances by `advance` (`unroll` has no semantic effect). Afterwards
// the variables are empty slices at the final position.
func (m *Machine) execIterate(fr *frame, s *Stmt) flow {
	if m.resume != nil {
		m.bug("resumption inside iterate at line %d", s.Line)
	}
	type src struct {
		arr    *Array
		lo, es int
	}
	srcs := make([]src, len(s.IterSrcs))
	n := -1
	for k, e := range s.IterSrcs {
		v := m.eval(fr, e)
		arr, lo, hi := (*Array)(nil), 0, 0
		if v.K == VSlice && v.A == nil {
			// the nil slice
		} else {
			arr, lo, hi = m.view(e, v)
		}
		es := elemSize(e.Typ)
		srcs[k] = src{arr, lo, es}
		if c := (hi - lo) / es; n < 0 || c < n {
			n = c
		}
	}
	bind := func(pos, length int) {
		for k, lv := range s.IterVars {
			sr := srcs[k]
			fr.vars[lv.Slot] = Value{K: VSlice, A: sr.arr, Lo: sr.lo + pos*sr.es, Hi: sr.lo + (pos+length)*sr.es}
		}
	}
	pos := 0
	first := true
	for _, rd := range s.Rounds {
		for n-pos >= rd.Length {
			bind(pos, rd.Length)
			if first {
				m.lastEvent, first = Event{"iterate-enter", s}, false
			} else {
				m.lastEvent = Event{"iterate-back", s}
			}
			fl := m.execBlock(fr, rd.Body, rd.BodyEnd, rd.BodyTerm)
			switch fl.c {
			case cNormal:
			case cBreak:
				if fl.target != s {
					return fl
				}
				// m.lastEvent is the break statement; the variables are left empty at the
				// position of the window that was being visited.
				bind(pos, 0)
				return flow{}
			case cContinue:
				if fl.target != s {
					return fl
				}
			default:
				return fl
			}
			pos += rd.Advance
			m.step(s)
		}
	}
	bind(pos, 0)
	m.lastEvent = Event{"iterate-exit", s}
	return flow{}
}
