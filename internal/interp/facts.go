package interp

import (
	"crypto/sha1"
	"fmt"
	"strings"
	"sync"
	"sync/atomic"

	a "github.com/google/wuffs/lang/ast"
	"github.com/google/wuffs/lang/check"
	"github.com/google/wuffs/lang/parse"
	t "github.com/google/wuffs/lang/token"
)

// ProbeSource returns the program truncated at the program point "before line
// `line`" (or "at the closing brace on line `line`") of its enclosing function,
// with `assert false` inserted there: everything before the point is kept, the
// rest of the function body is dropped (the open blocks are closed) and the
// bodies of all other functions are emptied. The checker's fact list at the
// point only depends on what precedes the point in the same function and on
// the other functions' signatures, so programs sharing a prefix share the
// probe. The second result is the line of the inserted assert.
func (p *Prog) ProbeSource(line int) (string, int, error) {
	fn := p.funcOf[line]
	if fn == nil || line <= fn.Line || line > fn.EndLine {
		return "", 0, fmt.Errorf("line %d is not a program point of a function body", line)
	}
	var sb strings.Builder
	outLine, assertLine := 0, 0
	emit := func(s string) {
		sb.WriteString(s)
		sb.WriteByte('\n')
		outLine++
	}
	for i := 1; i <= len(p.Lines); i++ {
		g := p.funcOf[i]
		if g == nil {
			if i == len(p.Lines) && p.Lines[i-1] == "" {
				break
			}
			emit(p.Lines[i-1])
			continue
		}
		if g != fn {
			// Another function: keep the header, drop the body (the facts at the
			// point only depend on its signature).
			emit(p.Lines[g.Line-1])
			emit("}")
			i = g.EndLine
			continue
		}
		for k := fn.Line; k < line; k++ {
			emit(p.Lines[k-1])
		}
		emit("assert false")
		assertLine = outLine
		// Close the open blocks, innermost first.
		var open []int
		for op, cl := range p.closer {
			if op > fn.Line && op < line && cl >= line {
				open = append(open, op)
			}
		}
		for a := 1; a < len(open); a++ {
			for b := a; b > 0 && open[b] > open[b-1]; b-- {
				open[b], open[b-1] = open[b-1], open[b]
			}
		}
		for _, op := range open {
			cl := p.closer[op]
			s := strings.TrimSpace(p.Lines[cl-1])
			if strings.HasPrefix(s, "}.") {
				emit(s)
			} else {
				emit("}")
			}
		}
		emit("}")
		i = fn.EndLine
	}
	return sb.String(), assertLine, nil
}

// FullProbeSource inserts `assert false` at the point without truncating
// anything (used to cross-check ProbeSource).
func (p *Prog) FullProbeSource(line int) string {
	var sb strings.Builder
	for i, ln := range p.Lines {
		if i == line-1 {
			sb.WriteString("assert false\n")
		}
		sb.WriteString(ln)
		if i < len(p.Lines)-1 {
			sb.WriteByte('\n')
		}
	}
	return sb.String()
}

// RawFacts is the checker's fact list at a probe point.
type RawFacts struct {
	Facts []*PExpr
	Strs  []string
	Err   string // non-empty: the probe did not fail with `cannot prove "false"` at the expected line
}

// FactOracle obtains (and caches, by probe text) the fact lists of the real checker.
type FactOracle struct {
	shards [64]struct {
		mu sync.Mutex
		m  map[[20]byte]*oracleEntry
	}
	Checks atomic.Int64 // check.Check invocations
	Hits   atomic.Int64 // cache hits
}

type oracleEntry struct {
	once sync.Once
	rf   *RawFacts
}

func NewFactOracle() *FactOracle {
	fo := &FactOracle{}
	for i := range fo.shards {
		fo.shards[i].m = map[[20]byte]*oracleEntry{}
	}
	return fo
}

// ProbeFacts runs the real checker on a probe source and extracts check.Error.Facts.
func ProbeFacts(src string, wantLine int) *RawFacts {
	rf := &RawFacts{}
	tm := &t.Map{}
	tokens, _, err := t.Tokenize(tm, "p.wuffs", []byte(src))
	if err != nil {
		rf.Err = "tokenize: " + err.Error()
		return rf
	}
	f, err := parse.Parse(tm, "p.wuffs", tokens, nil)
	if err != nil {
		rf.Err = "parse: " + err.Error()
		return rf
	}
	_, err = check.Check(tm, []*a.File{f}, nil)
	if err == nil {
		rf.Err = "probe was accepted"
		return rf
	}
	ce, ok := err.(*check.Error)
	if !ok {
		rf.Err = "check: " + err.Error()
		return rf
	}
	if ce.Err == nil || ce.Err.Error() != `check: cannot prove "false"` || int(ce.Line) != wantLine {
		rf.Err = fmt.Sprintf("unexpected probe error at line %d (want %d): %v", ce.Line, wantLine, ce.Err)
		return rf
	}
	for _, x := range ce.Facts {
		pe := Portable(tm, x)
		rf.Facts = append(rf.Facts, pe)
		rf.Strs = append(rf.Strs, pe.Str)
	}
	return rf
}

func (fo *FactOracle) Raw(p *Prog, line int) *RawFacts {
	src, aline, err := p.ProbeSource(line)
	if err != nil {
		return &RawFacts{Err: err.Error()}
	}
	key := sha1.Sum([]byte(src))
	sh := &fo.shards[key[0]&63]
	sh.mu.Lock()
	en := sh.m[key]
	if en == nil {
		en = &oracleEntry{}
		sh.m[key] = en
	} else {
		fo.Hits.Add(1)
	}
	sh.mu.Unlock()
	en.once.Do(func() {
		fo.Checks.Add(1)
		en.rf = ProbeFacts(src, aline)
	})
	return en.rf
}

// PointFacts is a fact list lowered for evaluation in one program.
type PointFacts struct {
	Line  int
	Facts []*Expr // nil entry: the fact could not be lowered (see Bad)
	Strs  []string
	Bad   []string // lowering problems (harness-level, counted)
	Err   string
}

func (p *Prog) pointFacts(fo *FactOracle, line int) *PointFacts {
	if p.pfCache == nil {
		p.pfCache = map[int]*PointFacts{}
	}
	if pf := p.pfCache[line]; pf != nil {
		return pf
	}
	rf := fo.Raw(p, line)
	pf := &PointFacts{Line: line, Err: rf.Err}
	fn := p.funcOf[line]
	for i, x := range rf.Facts {
		e, err := p.LowerFact(fn, x)
		if err != nil {
			pf.Bad = append(pf.Bad, rf.Strs[i]+": "+err.Error())
			e = nil
		}
		pf.Facts = append(pf.Facts, e)
		pf.Strs = append(pf.Strs, rf.Strs[i])
	}
	p.pfCache[line] = pf
	return pf
}

// Points lists every program point (line) of the program, in order.
func (p *Prog) Points() []int {
	var out []int
	var walk func(stmts []*Stmt, end int, term bool)
	walk = func(stmts []*Stmt, end int, term bool) {
		for _, s := range stmts {
			if s.K != SVar {
				out = append(out, s.Line)
			}
			switch s.K {
			case SIf:
				for cur := s; cur != nil; cur = cur.ElseIf {
					walk(cur.Then, cur.ThenEnd, cur.ThenTerm)
					if len(cur.Else) > 0 {
						walk(cur.Else, cur.ElseEnd, cur.ElseTerm)
					}
				}
			case SWhile:
				walk(s.Body, s.BodyEnd, s.BodyTerm)
			case SIOManip:
				walk(s.Body, s.BodyEnd, s.BodyTerm)
			case SIterate:
				for _, rd := range s.Rounds {
					walk(rd.Body, rd.BodyEnd, rd.BodyTerm)
				}
			}
		}
		if !term {
			out = append(out, end)
		}
	}
	for _, fn := range p.Order {
		walk(fn.Body, fn.EndLine, fn.Term)
	}
	return out
}
