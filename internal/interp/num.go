// Package interp is engine E2: a reference interpreter for the Wuffs subset
// that engine E1 (progen) emits. It works on the *ast.File that the real
// check.Check annotated and evaluates everything in ideal integer arithmetic.
// See README.md for the API.
package interp

import (
	"math/big"
	"math/bits"
)

// Int is an ideal (unbounded) integer with an int64 fast path. The zero value
// is 0. Ints are immutable.
type Int struct {
	s int64
	b *big.Int // non-nil => the value is b (and does not fit the fast path bookkeeping)
}

func I64(v int64) Int { return Int{s: v} }

func U64(v uint64) Int {
	if v <= 1<<63-1 {
		return Int{s: int64(v)}
	}
	return Int{b: new(big.Int).SetUint64(v)}
}

func FromBig(b *big.Int) Int {
	if b.IsInt64() {
		return Int{s: b.Int64()}
	}
	return Int{b: new(big.Int).Set(b)}
}

func (x Int) Big() *big.Int {
	if x.b != nil {
		return x.b
	}
	return big.NewInt(x.s)
}

func (x Int) IsSmall() bool { return x.b == nil }

// Int64 returns the value if it fits, with ok.
func (x Int) Int64() (int64, bool) {
	if x.b != nil {
		return 0, false
	}
	return x.s, true
}

func (x Int) String() string {
	if x.b != nil {
		return x.b.String()
	}
	return big.NewInt(x.s).String()
}

func (x Int) Sign() int {
	if x.b != nil {
		return x.b.Sign()
	}
	switch {
	case x.s < 0:
		return -1
	case x.s > 0:
		return 1
	}
	return 0
}

func (x Int) Cmp(y Int) int {
	if x.b == nil && y.b == nil {
		switch {
		case x.s < y.s:
			return -1
		case x.s > y.s:
			return 1
		}
		return 0
	}
	return x.Big().Cmp(y.Big())
}

func (x Int) Eq(y Int) bool { return x.Cmp(y) == 0 }

func (x Int) CmpBig(y *big.Int) int {
	if x.b == nil && y.IsInt64() {
		v := y.Int64()
		switch {
		case x.s < v:
			return -1
		case x.s > v:
			return 1
		}
		return 0
	}
	return x.Big().Cmp(y)
}

func (x Int) Add(y Int) Int {
	if x.b == nil && y.b == nil {
		z := x.s + y.s
		if (z > x.s) == (y.s > 0) {
			return Int{s: z}
		}
	}
	return FromBig(new(big.Int).Add(x.Big(), y.Big()))
}

func (x Int) Sub(y Int) Int {
	if x.b == nil && y.b == nil {
		z := x.s - y.s
		if (z < x.s) == (y.s > 0) {
			return Int{s: z}
		}
	}
	return FromBig(new(big.Int).Sub(x.Big(), y.Big()))
}

func (x Int) Neg() Int {
	if x.b == nil && x.s != -1<<63 {
		return Int{s: -x.s}
	}
	return FromBig(new(big.Int).Neg(x.Big()))
}

func (x Int) Mul(y Int) Int {
	if x.b == nil && y.b == nil {
		if x.s == 0 || y.s == 0 {
			return Int{}
		}
		ax, ay := x.s, y.s
		neg := false
		if ax < 0 {
			ax, neg = -ax, !neg
		}
		if ay < 0 {
			ay, neg = -ay, !neg
		}
		if ax > 0 && ay > 0 { // excludes MinInt64
			hi, lo := bits.Mul64(uint64(ax), uint64(ay))
			if hi == 0 && lo <= 1<<63-1 {
				if neg {
					return Int{s: -int64(lo)}
				}
				return Int{s: int64(lo)}
			}
		}
	}
	return FromBig(new(big.Int).Mul(x.Big(), y.Big()))
}

// Quo is truncated division (like C); y must be non-zero.
func (x Int) Quo(y Int) Int {
	if x.b == nil && y.b == nil && !(x.s == -1<<63 && y.s == -1) {
		return Int{s: x.s / y.s}
	}
	return FromBig(new(big.Int).Quo(x.Big(), y.Big()))
}

// Rem is the truncated remainder (like C); y must be non-zero.
func (x Int) Rem(y Int) Int {
	if x.b == nil && y.b == nil && !(x.s == -1<<63 && y.s == -1) {
		return Int{s: x.s % y.s}
	}
	return FromBig(new(big.Int).Rem(x.Big(), y.Big()))
}

// Lsh is x * 2^n; n must be in [0, 65535].
func (x Int) Lsh(n uint) Int {
	if x.b == nil && x.s >= 0 && n < 63 && x.s <= (1<<63-1)>>n {
		return Int{s: x.s << n}
	}
	return FromBig(new(big.Int).Lsh(x.Big(), n))
}

// Rsh is floor(x / 2^n).
func (x Int) Rsh(n uint) Int {
	if x.b == nil {
		if n >= 63 {
			if x.s < 0 {
				return Int{s: -1}
			}
			return Int{}
		}
		return Int{s: x.s >> n}
	}
	return FromBig(new(big.Int).Rsh(x.Big(), n))
}

// And, Or, Xor are defined for non-negative operands (two's complement
// semantics of math/big otherwise).
func (x Int) And(y Int) Int {
	if x.b == nil && y.b == nil && x.s >= 0 && y.s >= 0 {
		return Int{s: x.s & y.s}
	}
	return FromBig(new(big.Int).And(x.Big(), y.Big()))
}

func (x Int) Or(y Int) Int {
	if x.b == nil && y.b == nil && x.s >= 0 && y.s >= 0 {
		return Int{s: x.s | y.s}
	}
	return FromBig(new(big.Int).Or(x.Big(), y.Big()))
}

func (x Int) Xor(y Int) Int {
	if x.b == nil && y.b == nil && x.s >= 0 && y.s >= 0 {
		return Int{s: x.s ^ y.s}
	}
	return FromBig(new(big.Int).Xor(x.Big(), y.Big()))
}

// ModPow2 reduces x modulo 2^nbits into [0, 2^nbits).
func (x Int) ModPow2(nbits uint) Int {
	if x.b == nil && x.s >= 0 && nbits < 63 {
		return Int{s: x.s & (1<<nbits - 1)}
	}
	m := new(big.Int).Lsh(big.NewInt(1), nbits)
	z := new(big.Int).Mod(x.Big(), m) // Euclidean: result in [0, m)
	return FromBig(z)
}

func MinInt(x, y Int) Int {
	if x.Cmp(y) <= 0 {
		return x
	}
	return y
}

func MaxInt(x, y Int) Int {
	if x.Cmp(y) >= 0 {
		return x
	}
	return y
}

// Hash64 mixes the value into h (FNV-1a style) for state hashing.
func (x Int) Hash64(h uint64) uint64 {
	if x.b == nil {
		v := uint64(x.s)
		for i := 0; i < 8; i++ {
			h ^= v & 0xFF
			h *= 1099511628211
			v >>= 8
		}
		return h
	}
	for _, w := range x.b.Bits() {
		v := uint64(w)
		for i := 0; i < 8; i++ {
			h ^= v & 0xFF
			h *= 1099511628211
			v >>= 8
		}
	}
	h ^= 0xB16
	h *= 1099511628211
	if x.b.Sign() < 0 {
		h ^= 0x5E
		h *= 1099511628211
	}
	return h
}

// SelfTestNum cross-checks every Int operation against math/big over a
// boundary alphabet; it returns a description of the first mismatch or "".
func SelfTestNum() string {
	var vals []Int
	add := func(b *big.Int) { vals = append(vals, FromBig(b)) }
	for _, k := range []uint{0, 1, 7, 8, 16, 31, 32, 62, 63, 64, 65} {
		p := new(big.Int).Lsh(big.NewInt(1), k)
		for d := int64(-2); d <= 2; d++ {
			v := new(big.Int).Add(p, big.NewInt(d))
			add(v)
			add(new(big.Int).Neg(v))
		}
	}
	for d := int64(-9); d <= 9; d++ {
		add(big.NewInt(d))
	}
	bad := func(op string, x, y Int, got Int, want *big.Int) string {
		if got.Big().Cmp(want) != 0 || (got.b != nil && got.b.IsInt64()) {
			return "num " + op + "(" + x.String() + "," + y.String() + ") = " + got.String() + " want " + want.String()
		}
		return ""
	}
	for _, x := range vals {
		for _, y := range vals {
			xb, yb := x.Big(), y.Big()
			if s := bad("add", x, y, x.Add(y), new(big.Int).Add(xb, yb)); s != "" {
				return s
			}
			if s := bad("sub", x, y, x.Sub(y), new(big.Int).Sub(xb, yb)); s != "" {
				return s
			}
			if s := bad("mul", x, y, x.Mul(y), new(big.Int).Mul(xb, yb)); s != "" {
				return s
			}
			if y.Sign() != 0 {
				if s := bad("quo", x, y, x.Quo(y), new(big.Int).Quo(xb, yb)); s != "" {
					return s
				}
				if s := bad("rem", x, y, x.Rem(y), new(big.Int).Rem(xb, yb)); s != "" {
					return s
				}
			}
			if x.Sign() >= 0 && y.Sign() >= 0 {
				if s := bad("and", x, y, x.And(y), new(big.Int).And(xb, yb)); s != "" {
					return s
				}
				if s := bad("or", x, y, x.Or(y), new(big.Int).Or(xb, yb)); s != "" {
					return s
				}
				if s := bad("xor", x, y, x.Xor(y), new(big.Int).Xor(xb, yb)); s != "" {
					return s
				}
			}
			if c := x.Cmp(y); c != xb.Cmp(yb) {
				return "num cmp(" + x.String() + "," + y.String() + ")"
			}
		}
		for _, n := range []uint{0, 1, 7, 8, 31, 32, 62, 63, 64, 65} {
			xb := x.Big()
			if x.Sign() >= 0 {
				if s := bad("lsh", x, I64(int64(n)), x.Lsh(n), new(big.Int).Lsh(xb, n)); s != "" {
					return s
				}
			}
			if s := bad("rsh", x, I64(int64(n)), x.Rsh(n), new(big.Int).Rsh(xb, n)); s != "" {
				return s
			}
			if n > 0 {
				m := new(big.Int).Lsh(big.NewInt(1), n)
				if s := bad("modpow2", x, I64(int64(n)), x.ModPow2(n), new(big.Int).Mod(xb, m)); s != "" {
					return s
				}
			}
		}
		if s := bad("neg", x, Int{}, x.Neg(), new(big.Int).Neg(x.Big())); s != "" {
			return s
		}
	}
	return ""
}
