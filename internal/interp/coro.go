package interp

import (
	"encoding/hex"
	"fmt"
)

// Suspend/resume driver (DESIGN C02(iii), C05): a public coroutine is run to
// completion over a source stream that is delivered in chunks, into a
// destination whose room is granted in steps; across each suspension the
// driver does what a caller may legitimately do.

// CoroPlan is one suspend/resume pattern.
type CoroPlan struct {
	Method string `json:"method"`
	Data   string `json:"data"`   // hex of the whole source stream
	Chunks []int  `json:"chunks"` // bytes of Data delivered before each call (the reader is closed once all are delivered)
	Room   []int  `json:"room"`   // bytes of destination room granted before each call (the last entry repeats)
	// Variation: what the caller does between a suspension and the resumption.
	//  "same"       resume with the same scalar arguments and cumulative buffers
	//  "args"       resume with different scalar argument values
	//  "compact"    resume with compacted buffers (consumed / flushed bytes dropped, indexes reset)
	//  "interleave" call a public impure non-coroutine method before resuming
	Variation string     `json:"variation"`
	Scalars   []ArgSpec  `json:"scalars"`            // scalar arguments of the first call
	Scalars2  []ArgSpec  `json:"scalars2,omitempty"` // scalar arguments used on resumption ("args")
	Inter     *CallSpec  `json:"interleave,omitempty"`
	Setup     []CallSpec `json:"setup,omitempty"` // public calls made before the coroutine starts
}

func (pl CoroPlan) String() string {
	return fmt.Sprintf("%s data=%s chunks=%v room=%v variation=%s scalars=%v/%v setup=%v", pl.Method, pl.Data, pl.Chunks, pl.Room, pl.Variation, pl.Scalars, pl.Scalars2, pl.Setup)
}

// CoroRun is the observable outcome of a plan.
type CoroRun struct {
	Calls    int
	Statuses []string // status of every coroutine call
	Consumed int      // source bytes consumed at the end
	Written  string   // hex of everything written
	Fields   []string
	Viol     *Violation
	Bug      string
	Hung     bool
	False    []*FalseFact
	Stuck    bool // still suspended when the stream was closed and fully delivered
	// SuspLines: for every coroutine call that ended in a suspension, the
	// Object.SuspendedSites() right after it.
	SuspLines [][]int
}

// RunCoroPlan executes one plan on a fresh receiver. fm may be nil.
func RunCoroPlan(p *Prog, m *Machine, fm *FactMonitor, pl CoroPlan) *CoroRun {
	run := &CoroRun{}
	obj := p.NewObject(p.MainStruct())
	fn := p.Funcs[obj.SI.Name+"."+pl.Method]
	if fn == nil {
		run.Bug = "no method " + pl.Method
		return run
	}
	record := func(res CallResult) bool {
		if fm != nil {
			run.False = append(run.False, fm.False...)
		}
		if res.Viol != nil || res.Bug != "" || res.Hung {
			run.Viol, run.Bug, run.Hung = res.Viol, res.Bug, res.Hung
			return false
		}
		return true
	}
	for _, c := range pl.Setup {
		sf := p.Funcs[obj.SI.Name+"."+c.Method]
		if sf == nil {
			run.Bug = "no method " + c.Method
			return run
		}
		if fm != nil {
			fm.BeginExecution()
		}
		if !record(m.CallPublic(obj, sf, c)) {
			return run
		}
	}
	data, _ := hex.DecodeString(pl.Data)
	delivered := 0 // bytes of data made available so far
	consumed := 0  // absolute count of bytes consumed
	var written []byte
	flushed := 0 // bytes of `written` dropped from the destination buffer by compaction
	room := 0    // total destination capacity granted so far
	idle := 0
	for call := 0; call < 64; call++ {
		before := delivered
		roomBefore := room
		if call < len(pl.Chunks) {
			delivered += pl.Chunks[call]
		} else {
			delivered = len(data)
		}
		if delivered > len(data) {
			delivered = len(data)
		}
		if len(pl.Room) > 0 {
			k := call
			if k >= len(pl.Room) {
				k = len(pl.Room) - 1
			}
			room += pl.Room[k]
		}
		closed := delivered == len(data)
		compact := pl.Variation == "compact" && call > 0
		var rbuf, wbuf *IOBuf
		if compact {
			rbuf = &IOBuf{Data: append([]byte(nil), data[consumed:delivered]...), WI: delivered - consumed, Closed: closed, Pos: uint64(consumed), Lim: -1}
			flushed = len(written)
			wbuf = &IOBuf{Data: make([]byte, room-flushed), Writer: true, Pos: uint64(flushed), Lim: -1}
		} else {
			rbuf = &IOBuf{Data: append([]byte(nil), data[:delivered]...), RI: consumed, WI: delivered, Closed: closed, Lim: -1}
			wd := make([]byte, room)
			copy(wd, written)
			flushed = 0
			wbuf = &IOBuf{Data: wd, WI: len(written), Writer: true, Lim: -1}
		}
		scal := pl.Scalars
		if call > 0 && pl.Variation == "args" && pl.Scalars2 != nil {
			scal = pl.Scalars2
		}
		args := make([]Value, len(fn.Args))
		k := 0
		spec := CallSpec{Method: fn.Name}
		for i, a := range fn.Args {
			switch a.Typ.K {
			case TIOReader:
				args[i] = Value{K: VIO, IO: rbuf}
				spec.Args = append(spec.Args, ArgSpec{Kind: "reader", Bytes: hex.EncodeToString(rbuf.Data[rbuf.RI:rbuf.WI]), Closed: closed})
			case TIOWriter:
				args[i] = Value{K: VIO, IO: wbuf}
				spec.Args = append(spec.Args, ArgSpec{Kind: "writer", Cap: len(wbuf.Data) - wbuf.WI})
			default:
				if k < len(scal) {
					args[i] = p.MakeArg(scal[k])
					spec.Args = append(spec.Args, scal[k])
				}
				k++
			}
		}
		startRI := rbuf.RI
		startWI := wbuf.WI
		if fm != nil {
			fm.BeginExecution()
		}
		res := m.CallPublicValues(obj, fn, spec, args)
		run.Calls++
		if !record(res) {
			return run
		}
		consumed += rbuf.RI - startRI
		written = append(written, wbuf.Data[startWI:wbuf.WI]...)
		st := res.Ret.String()
		run.Statuses = append(run.Statuses, st)
		if !res.Suspended {
			break
		}
		run.SuspLines = append(run.SuspLines, obj.SuspendedSites())
		progress := rbuf.RI != startRI || wbuf.WI != startWI || delivered != before
		_ = roomBefore
		if progress {
			idle = 0
		} else if idle++; idle >= 5 {
			// Five consecutive calls without new data, consumption or output.
			run.Stuck = true
			break
		}
		if pl.Variation == "interleave" && pl.Inter != nil {
			sf := p.Funcs[obj.SI.Name+"."+pl.Inter.Method]
			if sf != nil {
				if fm != nil {
					fm.BeginExecution()
				}
				if !record(m.CallPublic(obj, sf, *pl.Inter)) {
					return run
				}
			}
		}
	}
	run.Consumed = consumed
	run.Written = hex.EncodeToString(written)
	run.Fields = obj.FieldDump()
	return run
}

// compositions lists the ways to cut n bytes into chunks (every subset of cut
// points), capped at n <= 4; longer streams get the three canonical patterns.
func compositions(n int) [][]int {
	if n == 0 {
		return [][]int{{0}}
	}
	if n > 4 {
		one := make([]int, n)
		for i := range one {
			one[i] = 1
		}
		return [][]int{{n}, one, {1, n - 1}, {n - 1, 1}}
	}
	var out [][]int
	for mask := 0; mask < 1<<(n-1); mask++ {
		var c []int
		cur := 1
		for i := 0; i < n-1; i++ {
			if mask&(1<<i) != 0 {
				c = append(c, cur)
				cur = 1
			} else {
				cur++
			}
		}
		c = append(c, cur)
		out = append(out, c)
	}
	// A leading empty delivery: the first call sees no data at all.
	out = append(out, append([]int{0}, out[0]...))
	return out
}

// CoroPlans enumerates the suspend/resume patterns of every public coroutine
// of p whose arguments are I/O buffers and scalars.
func (p *Prog) CoroPlans(maxLen int, maxPlans int) (plans []CoroPlan, capped bool) {
	rich := maxLen >= 4
	alpha := []byte{0x00, 0x01, 0x7F, 0x80, 0xFF}
	if !rich {
		alpha = []byte{0x00, 0x01, 0xFF}
	}
	var streams [][]byte
	var gen func(prefix []byte, n int, al []byte)
	gen = func(prefix []byte, n int, al []byte) {
		if len(prefix) == n {
			streams = append(streams, append([]byte(nil), prefix...))
			return
		}
		for _, c := range al {
			gen(append(prefix, c), n, al)
		}
	}
	for n := 0; n <= maxLen; n++ {
		al := alpha
		if n >= 3 {
			al = []byte{0x00, 0x01, 0xFF}
			if !rich {
				al = []byte{0x01, 0xFF}
			}
		}
		if n >= 5 {
			al = []byte{0x01}
		}
		gen(nil, n, al)
	}
	var inter *CallSpec
	var setups [][]CallSpec
	setups = append(setups, nil)
	for _, f := range p.PublicMethods() {
		if f.Effect.Coroutine() || !f.Effect.Impure() {
			continue
		}
		tp, _, _ := p.ArgTuples(f, 8)
		if len(tp) == 0 {
			continue
		}
		if inter == nil {
			c := CallSpec{Method: f.Name, Args: tp[len(tp)-1]}
			inter = &c
		}
		for i, t := range tp {
			if !rich && i != len(tp)-1 {
				continue
			}
			setups = append(setups, []CallSpec{{Method: f.Name, Args: t}})
		}
	}
	for _, f := range p.PublicMethods() {
		if !f.Effect.Coroutine() {
			continue
		}
		// Scalar argument tuples.
		var scalarIdx []int
		ok := true
		for i, a := range f.Args {
			switch a.Typ.K {
			case TIOReader, TIOWriter:
			case TInt, TBool:
				scalarIdx = append(scalarIdx, i)
			default:
				ok = false
			}
		}
		if !ok {
			continue
		}
		sf := &Func{Prog: p}
		for _, i := range scalarIdx {
			sf.Args = append(sf.Args, f.Args[i])
		}
		tuples, _, _ := p.ArgTuples(sf, 6)
		if len(tuples) == 0 {
			tuples = [][]ArgSpec{nil}
		}
		rooms := [][]int{{64}, {0, 1}, {1}}
		if !rich {
			rooms = rooms[:2]
			if len(tuples) > 2 {
				tuples = [][]ArgSpec{tuples[0], tuples[len(tuples)-1]}
			}
		}
		for _, setup := range setups {
			for _, d := range streams {
				for _, ch := range compositions(len(d)) {
					for ri, rm := range rooms {
						for ti, tup := range tuples {
							vars := []string{"same"}
							if len(ch) > 1 || ri > 0 {
								vars = append(vars, "compact")
								if inter != nil {
									vars = append(vars, "interleave")
								}
								if len(tuples) > 1 {
									vars = append(vars, "args")
								}
							}
							for _, v := range vars {
								if len(plans) >= maxPlans {
									return plans, true
								}
								pl := CoroPlan{Method: f.Name, Data: hex.EncodeToString(d), Chunks: ch, Room: rm, Variation: v, Scalars: tup, Setup: setup}
								if v == "args" {
									pl.Scalars2 = tuples[(ti+1)%len(tuples)]
								}
								if v == "interleave" {
									pl.Inter = inter
								}
								plans = append(plans, pl)
							}
						}
					}
				}
			}
		}
	}
	return plans, false
}

// HasCoroutines reports whether p has a public coroutine.
func (p *Prog) HasCoroutines() bool {
	for _, f := range p.PublicMethods() {
		if f.Effect.Coroutine() {
			return true
		}
	}
	return false
}

// ExploreCoro runs every plan; onRun sees each outcome.
func ExploreCoro(p *Prog, opt ExploreOptions, maxLen, maxPlans int, onRun func(pl CoroPlan, r *CoroRun)) *ExploreStats {
	st := &ExploreStats{}
	m := NewMachine(p)
	m.CheckBounds = opt.Bounds
	m.WantTrace = opt.Trace
	var fm *FactMonitor
	if opt.Facts != nil {
		fm = NewFactMonitor(p, opt.Facts)
		m.Mon = fm
	}
	plans, capped := p.CoroPlans(maxLen, maxPlans)
	st.CappedExec = capped
	for _, pl := range plans {
		r := RunCoroPlan(p, m, fm, pl)
		st.Executions += int64(r.Calls)
		for _, s := range r.Statuses {
			if len(s) > 1 && s[1] == '$' {
				st.Suspensions++
			}
		}
		if r.Bug != "" && len(st.Bugs) < 4 {
			st.Bugs = append(st.Bugs, r.Bug+" in "+pl.String())
		}
		if r.Hung {
			st.Hung++
		}
		if onRun != nil {
			onRun(pl, r)
		}
	}
	st.Steps, st.Evals, st.BoundsN, st.ConstN = m.Steps, m.Evals, m.BoundsN, m.ConstN
	if fm != nil {
		st.Pairs, st.PointVisits, st.PointStates, st.Uneval = fm.Pairs, fm.Points, fm.States, fm.Uneval
		st.Problems = fm.Problems
	}
	return st
}

// DiagnoseCoro re-runs one plan with snapshots on and returns the findings.
func DiagnoseCoro(p *Prog, fo *FactOracle, pl CoroPlan) *Diagnosis {
	d := &Diagnosis{}
	m := NewMachine(p)
	m.WantTrace = true
	fm := NewFactMonitor(p, fo)
	fm.Diagnose = true
	m.Mon = fm
	r := RunCoroPlan(p, m, fm, pl)
	d.False = r.False
	d.Lines = append(d.Lines, "plan: "+pl.String(), fmt.Sprintf("statuses=%v consumed=%d written=%s fields=%v", r.Statuses, r.Consumed, r.Written, r.Fields))
	for _, ff := range r.False {
		d.Lines = append(d.Lines, fmt.Sprintf("  false fact at line %d: %s  [%s]", ff.Line, ff.Fact, ff.Signature))
	}
	if r.Viol != nil {
		d.Viol = r.Viol
		d.C01Sig = C01Signature(r.Viol, fm)
		d.Lines = append(d.Lines, "  violation: "+r.Viol.String()+"  ["+d.C01Sig+"]")
	}
	d.Bug, d.Hung = r.Bug, r.Hung
	d.Problem = fm.Problems
	return d
}

// SuspendedSites returns, for every suspended coroutine frame currently saved
// in the receiver (the active public coroutine first, then nested callees in
// source order), the line of the statement the frame is parked at: the
// `read_u8?` / `skip_u32?` / `write_u8?` / `yield?` / `this.sub?()` statement
// that is the leaf of the saved resume path (classify it from p.Lines[line-1]).
func (o *Object) SuspendedSites() []int {
	var out []int
	add := func(cs *CoroState) {
		if cs != nil && len(cs.path) > 0 {
			out = append(out, cs.path[len(cs.path)-1].Line)
		}
	}
	if o.ActiveCo != nil && o.Coro != nil {
		add(o.Coro[o.ActiveCo])
	}
	for _, cs := range sortedCoro(o.Coro) {
		if cs.fn != o.ActiveCo {
			add(cs)
		}
	}
	return out
}
