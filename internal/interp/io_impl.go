package interp

import (
	"encoding/hex"
	"strings"
)

// I/O built-ins under the ideal semantics of DESIGN Appendix B.
//
// A reader may consume Data[RI:end) where end = WI narrowed by io_limit; a
// writer may fill Data[WI:end) where end = len(Data) (or WI when closed),
// narrowed by io_limit. "Fast" methods have proof obligations (enough bytes /
// room, enough history) that the safety monitor checks.

func (b *IOBuf) end() int {
	e := b.WI
	if b.Writer {
		e = len(b.Data)
		if b.Closed {
			e = b.WI
		}
	}
	if b.Lim >= 0 && b.Lim < e {
		e = b.Lim
	}
	return e
}

func (b *IOBuf) idx() int {
	if b.Writer {
		return b.WI
	}
	return b.RI
}

func (b *IOBuf) setIdx(i int) {
	if b.Writer {
		b.WI = i
	} else {
		b.RI = i
	}
}

func (b *IOBuf) avail() int { return b.end() - b.idx() }

// parseIOWidth parses names like read_u16le, peek_u24be_as_u32, write_u32le_fast.
func parseIOWidth(meth, prefix string) (nbytes int, big bool, ok bool) {
	if !strings.HasPrefix(meth, prefix+"_u") {
		return 0, false, false
	}
	s := strings.TrimPrefix(meth, prefix+"_u")
	n := 0
	i := 0
	for i < len(s) && s[i] >= '0' && s[i] <= '9' {
		n = n*10 + int(s[i]-'0')
		i++
	}
	if n == 0 || n%8 != 0 || n > 64 {
		return 0, false, false
	}
	rest := s[i:]
	if n == 8 {
		return 1, false, rest == "" || strings.HasPrefix(rest, "_as_u") || rest == "_fast" || rest == "_at"
	}
	if strings.HasPrefix(rest, "be") {
		big = true
	} else if !strings.HasPrefix(rest, "le") {
		return 0, false, false
	}
	return n / 8, big, true
}

func bytesToInts(b []byte) []Int {
	out := make([]Int, len(b))
	for i, x := range b {
		out[i] = I64(int64(x))
	}
	return out
}

func (m *Machine) ioBuf(e *Expr, recv Value) *IOBuf {
	if recv.Poison {
		m.PoisonUses++
	}
	if recv.IO == nil {
		m.fail("nullptr", e, "I/O call on an unset reader/writer")
	}
	return recv.IO
}

func (m *Machine) ioCallImpl(fr *frame, e *Expr, recv Value, args []Value) Value {
	b := m.ioBuf(e, recv)
	meth := e.Meth
	need := func(n int, what string) {
		if b.avail() < n {
			m.fail("io-precondition", e, "%s needs %d bytes but only %d are available", what, n, b.avail())
		}
	}
	switch meth {
	case "length":
		return IntVal(I64(int64(b.avail())))
	case "is_closed":
		return BoolVal(b.Closed)
	case "mark":
		return IntVal(I64(int64(b.idx() - b.HistMark0())))
	case "position":
		return IntVal(U64(b.Pos).Add(I64(int64(b.idx()))))
	case "count_since":
		cur := I64(int64(b.idx() - b.HistMark0()))
		if cur.Cmp(args[0].I) >= 0 {
			return IntVal(cur.Sub(args[0].I))
		}
		return IntVal(Int{})
	case "since":
		cur := b.idx() - b.HistMark0()
		mk, small := args[0].I.Int64()
		if !small || mk > int64(cur) {
			return Value{K: VSlice}
		}
		arr := &Array{E: bytesToInts(b.Data[b.HistMark0()+int(mk) : b.idx()]), RO: !b.Writer}
		return Value{K: VSlice, A: arr, Lo: 0, Hi: len(arr.E)}
	case "can_undo_byte":
		return BoolVal(b.idx() > b.Mark)
	case "undo_byte":
		if b.idx() <= b.Mark {
			m.fail("io-precondition", e, "undo_byte at the position the function was entered with")
		}
		b.setIdx(b.idx() - 1)
		return Value{K: VEmpty}
	case "peek_undo_byte":
		if b.idx() <= b.Mark {
			m.fail("io-precondition", e, "peek_undo_byte at the position the function was entered with")
		}
		return IntVal(I64(int64(b.Data[b.idx()-1])))
	case "history_length":
		return IntVal(I64(int64(b.WI - b.HistMark0())))
	case "history_position":
		return IntVal(U64(b.Pos).Add(I64(int64(b.HistMark0()))))
	}
	if !b.Writer {
		switch meth {
		case "skip_u32_fast":
			n, small := args[0].I.Int64()
			if !small || n < 0 || int64(b.avail()) < n {
				m.fail("io-precondition", e, "skip_u32_fast(actual: %s) with %d bytes available", args[0].I, b.avail())
			}
			if args[0].I.Cmp(args[1].I) > 0 {
				m.fail("io-precondition", e, "skip_u32_fast: actual %s exceeds worst_case %s", args[0].I, args[1].I)
			}
			b.RI += int(n)
			return Value{K: VEmpty}
		case "peek_u8_at", "peek_u64le_at":
			off, _ := args[0].I.Int64()
			w := 1
			if meth == "peek_u64le_at" {
				w = 8
			}
			need(int(off)+w, meth)
			return IntVal(assemble(bytesToInts(b.Data[b.RI+int(off):b.RI+int(off)+w]), false))
		case "limited_copy_u32_to_slice":
			n, _ := args[0].I.Int64()
			dst := args[1]
			k := dst.Hi - dst.Lo
			if int64(k) > n {
				k = int(n)
			}
			if k > b.avail() {
				k = b.avail()
			}
			for i := 0; i < k; i++ {
				m.storeElem(e, dst.A, dst.Lo+i, I64(int64(b.Data[b.RI+i])))
			}
			b.RI += k
			return IntVal(I64(int64(k)))
		}
		if nb, big, ok := parseIOWidth(meth, "peek"); ok {
			need(nb, meth)
			return IntVal(assemble(bytesToInts(b.Data[b.RI:b.RI+nb]), big))
		}
	} else {
		if strings.HasSuffix(meth, "_fast") {
			if nb, big, ok := parseIOWidth(meth, "write"); ok {
				need(nb, meth)
				for i, x := range disassemble(args[0].I, nb, big) {
					v, _ := x.Int64()
					b.Data[b.WI+i] = byte(v)
				}
				b.WI += nb
				return Value{K: VEmpty}
			}
		}
		switch meth {
		case "copy_from_slice", "limited_copy_u32_from_slice":
			src := args[len(args)-1]
			k := src.Hi - src.Lo
			if meth == "limited_copy_u32_from_slice" {
				if n, small := args[0].I.Int64(); small && int64(k) > n {
					k = int(n)
				}
			}
			if k > b.avail() {
				k = b.avail()
			}
			for i := 0; i < k; i++ {
				v, _ := src.A.E[src.Lo+i].Int64()
				b.Data[b.WI+i] = byte(v)
			}
			b.WI += k
			return IntVal(I64(int64(k)))
		case "limited_copy_u32_from_reader":
			r := m.ioBuf(e, args[1])
			k := r.avail()
			if n, small := args[0].I.Int64(); small && int64(k) > n {
				k = int(n)
			}
			if k > b.avail() {
				k = b.avail()
			}
			copy(b.Data[b.WI:b.WI+k], r.Data[r.RI:r.RI+k])
			b.WI += k
			r.RI += k
			return IntVal(I64(int64(k)))
		}
		if strings.HasPrefix(meth, "limited_copy_u32_from_history") {
			upTo, _ := args[0].I.Int64()
			dist, _ := args[1].I.Int64()
			hist := int64(b.WI - b.HistMark0())
			fast := strings.Contains(meth, "_fast")
			adj := int64(0)
			if strings.Contains(meth, "8_byte_chunks") {
				adj = 8
			}
			if fast {
				if upTo < 1 || upTo+adj > int64(b.avail()) || dist < 1 || dist > hist ||
					(strings.Contains(meth, "distance_1") && dist != 1) ||
					(adj == 8 && !strings.Contains(meth, "distance_1") && dist < 8) {
					m.fail("io-precondition", e, "%s(up_to: %d, distance: %d) with %d bytes of room and %d bytes of history", meth, upTo, dist, b.avail(), hist)
				}
			} else if dist < 1 || dist > hist {
				return IntVal(Int{})
			}
			k := upTo
			if !fast && k > int64(b.avail()) {
				k = int64(b.avail())
			}
			for i := int64(0); i < k; i++ {
				b.Data[b.WI] = b.Data[b.WI-int(dist)]
				b.WI++
			}
			if strings.HasSuffix(meth, "return_cusp") {
				// (last byte before the copy << 8) | last byte written
				return IntVal(Int{})
			}
			return IntVal(I64(k))
		}
	}
	m.bug("unsupported I/O built-in %s", e.String())
	return Value{}
}

// HistMark0 is io0: the start of the window that counts as history / marks.
func (b *IOBuf) HistMark0() int { return b.HistMark }

// ioCoro performs a suspendible built-in: it returns the result and "" or a
// suspension status. Arguments were evaluated once, before the first attempt.
func (m *Machine) ioCoro(fr *frame, e *Expr, recv Value, args []Value) (Value, string) {
	b := m.ioBuf(e, recv)
	meth := e.Meth
	if !b.Writer {
		switch meth {
		case "skip", "skip_u32":
			// The remaining count lives in the coroutine frame (pendingSkip).
			remaining := args[0].I
			if fr.co != nil && fr.co.pendingSkip != nil {
				remaining = *fr.co.pendingSkip
			}
			av := I64(int64(b.avail()))
			if remaining.Cmp(av) > 0 {
				rest := remaining.Sub(av)
				b.RI = b.end()
				m.pendingSkip = &rest
				return Value{}, "$base: short read"
			}
			n, _ := remaining.Int64()
			b.RI += int(n)
			return Value{K: VEmpty}, ""
		}
		if nb, big, ok := parseIOWidth(meth, "read"); ok {
			if b.avail() < nb {
				return Value{}, "$base: short read"
			}
			v := assemble(bytesToInts(b.Data[b.RI:b.RI+nb]), big)
			b.RI += nb
			return IntVal(v), ""
		}
	} else if meth == "write_u8" {
		if b.avail() < 1 {
			return Value{}, "$base: short write"
		}
		v, _ := args[0].I.Int64()
		b.Data[b.WI] = byte(v)
		b.WI++
		return Value{K: VEmpty}, ""
	}
	m.bug("unsupported I/O coroutine %s", e.String())
	return Value{}, ""
}

func (m *Machine) execIOManip(fr *frame, s *Stmt) flow {
	if m.resume != nil {
		m.bug("resumption inside %s at line %d is outside the E2 subset", s.IOKw, s.Line)
	}
	switch s.IOKw {
	case "io_forget_history":
		v := m.eval(fr, s.IO)
		b := m.ioBuf(s.IO, v)
		saved := b.HistMark
		b.HistMark = b.idx()
		fl := m.execBlock(fr, s.Body, s.BodyEnd, s.BodyTerm)
		b.HistMark = saved
		m.lastEvent = Event{"stmt", s}
		return fl
	case "io_limit":
		v := m.eval(fr, s.IO)
		b := m.ioBuf(s.IO, v)
		lim := m.eval(fr, s.Arg1).I
		savedLim, savedClosed := b.Lim, b.Closed
		if n, small := lim.Int64(); small && n < int64(b.avail()) {
			b.Lim = b.idx() + int(n)
			if !b.Writer {
				b.Closed = false
			}
		}
		m.lastEvent = Event{"io_limit-enter", s}
		fl := m.execBlock(fr, s.Body, s.BodyEnd, s.BodyTerm)
		if fl.c == cSuspend {
			m.bug("suspension inside io_limit at line %d is outside the E2 subset", s.Line)
		}
		b.Lim, b.Closed = savedLim, savedClosed
		if fl.c == cNormal {
			m.lastEvent = Event{"io_limit-exit", s}
		}
		return fl
	case "io_bind":
		data := m.eval(fr, s.Arg1)
		if data.K != VSlice {
			m.bug("io_bind to a non-slice at line %d", s.Line)
		}
		pos, _ := m.eval(fr, s.HistPos).I.Int64()
		// The bound variable refers to a fresh buffer over the slice for the body.
		raw := make([]byte, data.Hi-data.Lo)
		for i := range raw {
			x, _ := data.A.E[data.Lo+i].Int64()
			raw[i] = byte(x)
		}
		nb := &IOBuf{Data: raw, Lim: -1, Pos: uint64(pos)}
		if s.IO.Typ != nil && s.IO.Typ.K == TIOWriter {
			nb.Writer = true
		} else {
			nb.WI = len(raw)
		}
		old := m.eval(fr, s.IO)
		m.assignTo(fr, s, s.IO, Value{K: VIO, IO: nb})
		m.lastEvent = Event{"io_bind-enter", s}
		fl := m.execBlock(fr, s.Body, s.BodyEnd, s.BodyTerm)
		if fl.c == cSuspend {
			m.bug("suspension inside io_bind at line %d is outside the E2 subset", s.Line)
		}
		if nb.Writer {
			for i := 0; i < nb.WI; i++ {
				data.A.E[data.Lo+i] = I64(int64(nb.Data[i]))
			}
		}
		m.assignTo(fr, s, s.IO, old)
		if fl.c == cNormal {
			m.lastEvent = Event{"io_bind-exit", s}
		}
		return fl
	}
	m.bug("%s not supported", s.IOKw)
	return flow{}
}

// Source buffers offered to reader-typed arguments of non-coroutine methods:
// byte strings over {00, 01, 7F, 80, FF}, open and closed.
func (p *Prog) readerDomain() []ArgSpec {
	var out []ArgSpec
	for _, d := range [][]byte{{}, {0x01}, {0xFF, 0x80}, {0x00, 0x01, 0x7F}, {0x80, 0xFF, 0x01, 0x00}, {0x01, 0x02, 0x03, 0x04, 0x05, 0x06, 0x07, 0x08, 0x09}} {
		out = append(out, ArgSpec{Kind: "reader", Bytes: hex.EncodeToString(d)})
	}
	out = append(out, ArgSpec{Kind: "reader", Bytes: "017f", Closed: true})
	return out
}

func (p *Prog) writerDomain() []ArgSpec {
	var out []ArgSpec
	for _, c := range []int{0, 1, 2, 4, 9, 16} {
		out = append(out, ArgSpec{Kind: "writer", Cap: c})
	}
	return out
}
