package interp

// IOBuf models a wuffs_base__io_buffer handed to a coroutine: data[ri:wi] is
// readable (reader) and data[wi:len] is writable (writer). Lim is the end of
// the window as narrowed by io_limit (-1: not narrowed). Mark is the index at
// function entry (io1).
type IOBuf struct {
	Data   []byte
	RI, WI int
	Closed bool
	Pos    uint64 // stream position of Data[0]
	Writer bool
	Lim    int
	Mark   int
	// HistMark is the lowest index that still counts as history for a writer
	// (io_forget_history raises it).
	HistMark int
	CanUndo  bool
}

func (b *IOBuf) hash(h uint64) uint64 {
	h = I64(int64(b.RI)).Hash64(h)
	h = I64(int64(b.WI)).Hash64(h)
	if b.Closed {
		h ^= 0xC1
		h *= 1099511628211
	}
	for _, x := range b.Data[:b.WI] {
		h ^= uint64(x)
		h *= 1099511628211
	}
	return h
}

func (m *Machine) ioCall(fr *frame, e *Expr, recv Value, args []Value) Value {
	return m.ioCallImpl(fr, e, recv, args)
}
