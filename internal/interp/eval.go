package interp

import (
	"fmt"
	"strings"
)

// ---------------------------------------------------------------- values

type VKind uint8

const (
	VInt VKind = iota // integers and booleans (0/1)
	VStatus
	VArray
	VSlice
	VPtr
	VIO
	VEmpty
)

// Array is a backing store: a field array, a local array or a caller buffer.
type Array struct {
	E  []Int
	RO bool
	ET *Type // declared (innermost) element type of the object, refinements included; nil for caller buffers
	// Recv: the array is (part of) a receiver object's field. owner: the frame
	// whose local variable it is (nil for fields and caller buffers).
	Recv  bool
	owner *frame
}

// flatSize is the number of scalars a value of type ty occupies in a backing store.
func flatSize(ty *Type) int {
	if ty != nil && ty.K == TArray {
		return ty.Len * flatSize(ty.Elem)
	}
	return 1
}

func innermost(ty *Type) *Type {
	for ty != nil && ty.K == TArray {
		ty = ty.Elem
	}
	return ty
}

// elemSize is the flat size of one element of an array / slice / pointer-to-array typed expression.
func elemSize(ty *Type) int {
	if ty == nil {
		return 1
	}
	switch ty.K {
	case TArray, TSlice:
		return flatSize(ty.Elem)
	case TPtr:
		if ty.Elem != nil && ty.Elem.K == TArray {
			return flatSize(ty.Elem.Elem)
		}
	}
	return 1
}

// arrView is the flat range of an array value (nested arrays are views into
// the flat backing store of the outermost one; Lo == Hi == 0 means all of it).
func arrView(v Value) (int, int) {
	if v.Lo == 0 && v.Hi == 0 {
		return 0, len(v.A.E)
	}
	return v.Lo, v.Hi
}

// storeElem writes v into the backing store, demanding that it respects the
// declared element type of the object written to (a slice typed `slice
// base.u8` may alias an array of refined elements).
func (m *Machine) storeElem(e *Expr, arr *Array, idx int, v Int) {
	if arr.ET != nil && arr.ET.K == TInt && !inRange(v, arr.ET) {
		m.fail("store-range", e, "value %s stored into an element declared %s", v, arr.ET.Str)
	}
	m.pureStore(e, arr, false)
	arr.E[idx] = v
}

type Value struct {
	K      VKind
	I      Int
	S      string // status: "" is ok
	A      *Array // VArray: the array; VSlice: backing; VPtr: array pointed into
	Lo, Hi int    // VSlice / VPtr-to-array view [Lo, Hi)
	O      *Object
	IO     *IOBuf
	Poison bool // pointer-typed local after a resumption (nothing is promised)
}

func IntVal(i Int) Value { return Value{K: VInt, I: i} }
func BoolVal(b bool) Value {
	if b {
		return Value{K: VInt, I: I64(1)}
	}
	return Value{K: VInt}
}
func StatusVal(s string) Value { return Value{K: VStatus, S: s} }

func (v Value) String() string {
	switch v.K {
	case VInt:
		return v.I.String()
	case VStatus:
		if v.S == "" {
			return "ok"
		}
		return fmt.Sprintf("%q", v.S)
	case VArray:
		lo, hi := arrView(v)
		return fmt.Sprintf("array%v", intsString(v.A.E[lo:hi]))
	case VSlice:
		if v.A == nil {
			return "slice[]"
		}
		return fmt.Sprintf("slice[%d..%d]%v", v.Lo, v.Hi, intsString(v.A.E[v.Lo:v.Hi]))
	case VPtr:
		if v.O == nil && v.A == nil {
			return "nullptr"
		}
		return "ptr"
	case VIO:
		return "io"
	case VEmpty:
		return "nothing"
	}
	return "?"
}

func intsString(e []Int) string {
	var sb strings.Builder
	sb.WriteByte('[')
	for i, x := range e {
		if i > 0 {
			sb.WriteByte(' ')
		}
		sb.WriteString(x.String())
	}
	sb.WriteByte(']')
	return sb.String()
}

// Object is a struct instance (the receiver).
type Object struct {
	SI       *StructInfo
	F        []Value
	Disabled bool
	Choose   map[string]string // choosy function name -> chosen alternative
	Coro     map[*Func]*CoroState
	ActiveCo *Func // the public coroutine that is currently suspended, if any
}

func (p *Prog) ZeroValue(ty *Type) Value {
	switch ty.K {
	case TInt, TBool, TIdeal:
		return Value{K: VInt}
	case TStatus:
		return Value{K: VStatus}
	case TArray:
		if in := innermost(ty); in == nil || (in.K != TInt && in.K != TBool) {
			// Arrays of structs: E1 never accesses them; an opaque placeholder.
			return Value{K: VEmpty}
		}
		return Value{K: VArray, A: &Array{E: make([]Int, flatSize(ty)), ET: innermost(ty)}}
	case TSlice:
		return Value{K: VSlice}
	case TPtr:
		return Value{K: VPtr}
	case TIOReader, TIOWriter:
		return Value{K: VIO}
	case TEmpty:
		return Value{K: VEmpty}
	case TStruct:
		if o := p.NewObject(ty.Struct); o != nil {
			return Value{K: VPtr, O: o}
		}
	}
	unsupported("zero value of type %s", ty.Str)
	return Value{}
}

func (p *Prog) NewObject(structName string) *Object {
	si := p.Structs[structName]
	if si == nil {
		return nil
	}
	o := &Object{SI: si, F: make([]Value, len(si.Fields))}
	for i, f := range si.Fields {
		o.F[i] = p.ZeroValue(f.Typ)
		if o.F[i].K == VArray {
			o.F[i].A.Recv = true
		}
	}
	return o
}

func (o *Object) Clone() *Object {
	n := &Object{SI: o.SI, F: make([]Value, len(o.F)), Disabled: o.Disabled, ActiveCo: o.ActiveCo}
	for i, v := range o.F {
		if v.K == VArray {
			v.A = &Array{E: append([]Int(nil), v.A.E...), RO: v.A.RO, ET: v.A.ET, Recv: v.A.Recv}
		}
		if v.K == VPtr && v.O != nil && o.SI.Fields[i].Typ.K == TStruct {
			v.O = v.O.Clone()
		}
		n.F[i] = v
	}
	if o.Choose != nil {
		n.Choose = map[string]string{}
		for k, v := range o.Choose {
			n.Choose[k] = v
		}
	}
	if o.Coro != nil {
		n.Coro = map[*Func]*CoroState{}
		for k, v := range o.Coro {
			n.Coro[k] = v.clone(o, n)
		}
	}
	return n
}

func hashValue(h uint64, v Value) uint64 {
	h ^= uint64(v.K) + 0x9E
	h *= 1099511628211
	switch v.K {
	case VInt:
		h = v.I.Hash64(h)
	case VStatus:
		for i := 0; i < len(v.S); i++ {
			h ^= uint64(v.S[i])
			h *= 1099511628211
		}
	case VArray:
		lo, hi := arrView(v)
		for _, x := range v.A.E[lo:hi] {
			h = x.Hash64(h)
		}
	case VSlice:
		// (identity of the backing store is approximated by its contents + view)
		h = I64(int64(v.Lo)).Hash64(h)
		h = I64(int64(v.Hi)).Hash64(h)
		if v.A != nil {
			for _, x := range v.A.E {
				h = x.Hash64(h)
			}
		}
	case VPtr:
		if v.O != nil || v.A != nil {
			h ^= 1
			h *= 1099511628211
		}
	case VIO:
		if v.IO != nil {
			h = v.IO.hash(h)
		}
	}
	return h
}

// Hash is a hash of the receiver state (fields, chosen alternatives, disabled
// flag, suspended coroutine frames).
func (o *Object) Hash() uint64 {
	h := uint64(14695981039346656037)
	for i, v := range o.F {
		h = hashValue(h, v)
		if v.K == VPtr && v.O != nil && o.SI.Fields[i].Typ.K == TStruct {
			h ^= v.O.Hash()
			h *= 1099511628211
		}
	}
	if o.Disabled {
		h ^= 0xD15
		h *= 1099511628211
	}
	for _, fn := range sortedChoose(o.Choose) {
		for i := 0; i < len(fn); i++ {
			h ^= uint64(fn[i])
			h *= 1099511628211
		}
	}
	if o.ActiveCo != nil {
		h ^= uint64(o.ActiveCo.Line) + 0xC0
		h *= 1099511628211
	}
	for _, cs := range sortedCoro(o.Coro) {
		h = cs.hash(h)
	}
	return h
}

func sortedChoose(m map[string]string) []string {
	if len(m) == 0 {
		return nil
	}
	var out []string
	for k, v := range m {
		out = append(out, k+"="+v)
	}
	sortStrings(out)
	return out
}

func sortStrings(s []string) {
	for i := 1; i < len(s); i++ {
		for j := i; j > 0 && s[j] < s[j-1]; j-- {
			s[j], s[j-1] = s[j-1], s[j]
		}
	}
}

// ---------------------------------------------------------------- violations

// Violation describes the first safety / MBounds / fact failure of an execution.
type Violation struct {
	Kind   string // index-oob, slice-oob, overflow, as-range, div0, shift-range, store-range, arg-range, ret-range, nullptr, recursion, mbounds, interp-bug
	Line   int    // line of the statement being executed
	Expr   string // offending expression text
	Detail string
	Node   *Expr
	Stmt   *Stmt
	// InCond: the failing evaluation happened inside a while condition or assertion tree.
	Where string // "stmt", "if-cond", "while-cond"
	Obj   string // load-range: which kind of object was read ("receiver array", "local array", "caller buffer")
	frame *frame
}

func (v *Violation) String() string {
	return fmt.Sprintf("%s at line %d in %q: %s", v.Kind, v.Line, v.Expr, v.Detail)
}

type abortExec struct{}

type frame struct {
	fn   *Func
	vars []Value // args then locals
	this *Object
	co   *CoroState // non-nil for coroutine frames
	mon  *prevInfo  // fact monitor: the previous point visited in this frame
}

// Frame is the stack frame handed to monitors.
type Frame = frame

func (fr *frame) Func() *Func { return fr.fn }

// Machine executes calls on one program.
type Machine struct {
	P   *Prog
	Mon PointMonitor // optional: called at every program point
	// CheckBounds enables the value-in-MBounds monitor.
	CheckBounds bool
	// WantTrace: fill CallResult.Trace.
	WantTrace bool
	// CheckPure enables the purity monitor (C10): see pureStore and runFrame.
	CheckPure bool
	// PureCalls counts the calls of pure methods bracketed by the purity monitor.
	PureCalls int64

	Steps   int64 // statements executed
	Evals   int64 // expression nodes evaluated
	BoundsN int64 // MBounds comparisons made
	ConstN  int64 // ConstValue cross-checks made
	// PoisonUses counts uses of pointer-typed locals after a suspension (the
	// ideal semantics preserves them; generated C does not - a C05 matter).
	PoisonUses int64
	Viol       *Violation
	Bug        string // interpreter self-check failure (harness error, not a violation)

	curStmt *Stmt
	where   string
	depth   int
	// event tracking for the fact monitor
	lastEvent Event
	// suspension support
	resume      *resumeCursor
	suspended   *suspendInfo
	StepLimit   int64
	stepsInRun  int64
	Hung        bool
	curFrame    *frame
	failObj     string
	pendingArgs []Value
	pendingSkip *Int
	pure        int
}

// Event is what happened between two program points.
type Event struct {
	Kind string // "entry", "stmt", "if-true", "if-false", "join", "while-enter", "while-exit", "while-back", "break", "continue", "resume", "call-return"
	Stmt *Stmt
}

// PointMonitor is called whenever execution reaches a program point: before
// the statement on the given line, or at the closing brace of a block that
// runs off its end.
type PointMonitor interface {
	AtPoint(m *Machine, fr *Frame, line int, ev Event)
}

func NewMachine(p *Prog) *Machine {
	return &Machine{P: p, CheckBounds: true, StepLimit: 5000}
}

func (m *Machine) fail(kind string, e *Expr, format string, args ...any) {
	if m.Viol == nil {
		v := &Violation{Kind: kind, Node: e, Stmt: m.curStmt, Where: m.where, Detail: fmt.Sprintf(format, args...)}
		if e != nil {
			v.Expr = e.String()
		}
		if m.curStmt != nil {
			v.Line = m.curStmt.Line
		}
		v.frame = m.curFrame
		v.Obj, m.failObj = m.failObj, ""
		m.Viol = v
	}
	panic(abortExec{})
}

func (m *Machine) bug(format string, args ...any) {
	if m.Bug == "" {
		m.Bug = fmt.Sprintf(format, args...)
	}
	panic(abortExec{})
}

// ---------------------------------------------------------------- expression evaluation

func inRange(v Int, ty *Type) bool {
	return v.Cmp(ty.Min) >= 0 && v.Cmp(ty.Max) <= 0
}

// opType returns the type that decides the width of a ~mod / ~sat / shift operator.
func widthType(e *Expr) *Type {
	if e.L != nil && e.L.Typ != nil && e.L.Typ.K == TInt {
		return e.L.Typ
	}
	if e.R != nil && e.R.Typ != nil && e.R.Typ.K == TInt {
		return e.R.Typ
	}
	if e.Typ != nil && e.Typ.K == TInt {
		return e.Typ
	}
	return nil
}

func (m *Machine) eval(fr *frame, e *Expr) Value {
	m.Evals++
	var v Value
	switch e.Op {
	case OConst:
		v = e.Val
	case OStatus:
		v = e.Val
	case ONull:
		v = Value{K: VPtr}
	case ONothing:
		v = Value{K: VEmpty}
	case OLocal:
		v = fr.vars[e.Slot]
	case OArg:
		v = fr.vars[e.Slot]
	case OThis:
		v = Value{K: VPtr, O: fr.this}
	case OCoroResumed:
		v = BoolVal(fr.co != nil && fr.co.resumedFlag)
	case OField:
		if e.Slot < 0 {
			m.bug("method reference %s evaluated as a value", e.String())
		}
		if e.L == nil {
			v = fr.this.F[e.Slot]
		} else {
			o := m.eval(fr, e.L)
			if o.K != VPtr || o.O == nil {
				m.fail("nullptr", e, "field access through a null pointer")
			}
			v = o.O.F[e.Slot]
		}
	case ONeg:
		v = IntVal(m.eval(fr, e.R).I.Neg())
		m.checkArith(e, v.I)
	case OPos:
		v = m.eval(fr, e.R)
	case ONot:
		v = BoolVal(m.eval(fr, e.R).I.Sign() == 0)
	case OLAnd:
		l := m.eval(fr, e.L)
		if l.I.Sign() == 0 {
			v = BoolVal(false)
		} else {
			v = BoolVal(m.eval(fr, e.R).I.Sign() != 0)
		}
	case OLOr:
		l := m.eval(fr, e.L)
		if l.I.Sign() != 0 {
			v = BoolVal(true)
		} else {
			v = BoolVal(m.eval(fr, e.R).I.Sign() != 0)
		}
	case OAssoc:
		v = m.evalAssoc(fr, e)
	case OAs:
		v = m.evalAs(fr, e)
	case OIndex:
		v = m.evalIndex(fr, e)
	case OSlice:
		v = m.evalSlice(fr, e)
	case OCall:
		v = m.evalCall(fr, e)
	case ONe, OEq:
		l, r := m.eval(fr, e.L), m.eval(fr, e.R)
		eq := false
		switch {
		case l.K == VInt && r.K == VInt:
			eq = l.I.Eq(r.I)
		case l.K == VStatus && r.K == VStatus:
			eq = l.S == r.S
		case l.K == VPtr && r.K == VPtr:
			ln, rn := l.O == nil && l.A == nil, r.O == nil && r.A == nil
			if !ln && !rn {
				eq = l.O == r.O && l.A == r.A && l.Lo == r.Lo
			} else {
				eq = ln == rn
			}
		default:
			m.bug("comparison of %v and %v in %s", l.K, r.K, e.String())
		}
		v = BoolVal(eq == (e.Op == OEq))
	case OLt, OLe, OGe, OGt:
		l, r := m.eval(fr, e.L), m.eval(fr, e.R)
		if l.K != VInt || r.K != VInt {
			m.bug("ordering of non-integers in %s", e.String())
		}
		c := l.I.Cmp(r.I)
		switch e.Op {
		case OLt:
			v = BoolVal(c < 0)
		case OLe:
			v = BoolVal(c <= 0)
		case OGe:
			v = BoolVal(c >= 0)
		default:
			v = BoolVal(c > 0)
		}
	case OList:
		m.bug("list expression evaluated")
	default:
		l, r := m.eval(fr, e.L), m.eval(fr, e.R)
		if l.K != VInt || r.K != VInt {
			m.bug("arithmetic on non-integers in %s", e.String())
		}
		v = IntVal(m.binop(e, e.Op, l.I, r.I))
	}

	if e.CV != nil && v.K == VInt {
		m.ConstN++
		if !v.I.Eq(*e.CV) {
			m.bug("constant-folding cross-check: %s evaluates to %s but ConstValue() is %s", e.String(), v.I, e.CV)
		}
	}
	if e.CheckB && e.HasB && m.CheckBounds {
		switch v.K {
		case VInt:
			if e.Typ != nil && (e.Typ.K == TInt || e.Typ.K == TBool || e.Typ.K == TIdeal) {
				m.BoundsN++
				if v.I.Cmp(e.B0) < 0 || v.I.Cmp(e.B1) > 0 {
					m.fail("mbounds", e, "value %s outside MBounds [%s ..= %s]", v.I, e.B0, e.B1)
				}
			}
		case VPtr:
			if e.Typ != nil && e.Typ.K == TPtr && e.B0.Sign() > 0 && v.O == nil && v.A == nil {
				m.BoundsN++
				m.fail("mbounds", e, "null pointer but MBounds [%s ..= %s] excludes nullptr", e.B0, e.B1)
			}
		}
	}
	return v
}

// checkArith demands that a non-modular arithmetic result fits the
// expression's (unrefined) type.
func (m *Machine) checkArith(e *Expr, v Int) {
	if e.Typ != nil && e.Typ.K == TInt && !inRange(v, e.Typ) {
		m.fail("overflow", e, "ideal result %s does not fit %s", v, e.Typ.Str)
	}
}

func (m *Machine) binop(e *Expr, op Op, l, r Int) Int {
	switch op {
	case OAdd:
		v := l.Add(r)
		m.checkArith(e, v)
		return v
	case OSub:
		v := l.Sub(r)
		m.checkArith(e, v)
		return v
	case OMul:
		v := l.Mul(r)
		m.checkArith(e, v)
		return v
	case ODiv, OMod:
		if r.Sign() == 0 {
			m.fail("div0", e, "divisor is zero")
		}
		var v Int
		if op == ODiv {
			v = l.Quo(r)
		} else {
			v = l.Rem(r)
		}
		m.checkArith(e, v)
		return v
	case OShl, OShr, OModShl:
		wt := widthType(e)
		n, small := r.Int64()
		if wt != nil {
			if !small || n < 0 || n >= int64(wt.Bits) {
				m.fail("shift-range", e, "shift count %s outside [0 ..= %d]", r, wt.Bits-1)
			}
		} else if !small || n < 0 || n > 65535 {
			m.fail("shift-range", e, "shift count %s outside [0 ..= 65535]", r)
		}
		switch op {
		case OShl:
			if l.Sign() < 0 {
				m.fail("overflow", e, "left shift of negative value %s", l)
			}
			v := l.Lsh(uint(n))
			m.checkArith(e, v)
			return v
		case OShr:
			return l.Rsh(uint(n))
		default:
			if wt == nil {
				m.bug("~mod<< without a width in %s", e.String())
			}
			if l.Sign() < 0 {
				m.fail("overflow", e, "left shift of negative value %s", l)
			}
			return l.Lsh(uint(n)).ModPow2(wt.Bits)
		}
	case OAnd:
		return l.And(r)
	case OOr:
		return l.Or(r)
	case OXor:
		return l.Xor(r)
	case OModAdd, OModSub, OModMul:
		wt := widthType(e)
		if wt == nil {
			m.bug("~mod operator without a width in %s", e.String())
		}
		var v Int
		switch op {
		case OModAdd:
			v = l.Add(r)
		case OModSub:
			v = l.Sub(r)
		default:
			v = l.Mul(r)
		}
		return v.ModPow2(wt.Bits)
	case OSatAdd, OSatSub:
		wt := widthType(e)
		if wt == nil {
			m.bug("~sat operator without a width in %s", e.String())
		}
		lo, hi := baseRange(wt.Bits, wt.Signed)
		var v Int
		if op == OSatAdd {
			v = l.Add(r)
		} else {
			v = l.Sub(r)
		}
		return MaxInt(lo, MinInt(hi, v))
	}
	m.bug("unhandled binary operator %s", op)
	return Int{}
}

func (m *Machine) evalAssoc(fr *frame, e *Expr) Value {
	switch e.Sub {
	case OLAnd:
		for _, x := range e.Args {
			if m.eval(fr, x).I.Sign() == 0 {
				return BoolVal(false)
			}
		}
		return BoolVal(true)
	case OLOr:
		for _, x := range e.Args {
			if m.eval(fr, x).I.Sign() != 0 {
				return BoolVal(true)
			}
		}
		return BoolVal(false)
	}
	acc := m.eval(fr, e.Args[0]).I
	for _, x := range e.Args[1:] {
		r := m.eval(fr, x).I
		switch e.Sub {
		case OAdd:
			acc = acc.Add(r)
		case OMul:
			acc = acc.Mul(r)
		case OAnd:
			acc = acc.And(r)
		case OOr:
			acc = acc.Or(r)
		case OXor:
			acc = acc.Xor(r)
		}
	}
	m.checkArith(e, acc)
	return IntVal(acc)
}

func (m *Machine) evalAs(fr *frame, e *Expr) Value {
	l := m.eval(fr, e.L)
	switch {
	case l.K == VInt && e.AsTyp.K == TInt:
		if !inRange(l.I, e.AsTyp) {
			m.fail("as-range", e, "value %s does not fit %s", l.I, e.AsTyp.Str)
		}
		return l
	case l.K == VSlice && e.AsTyp.K == TPtr && e.AsTyp.Elem != nil && e.AsTyp.Elem.K == TArray:
		if l.Poison {
			m.PoisonUses++
		}
		n := e.AsTyp.Elem.Len
		if l.Hi-l.Lo < n {
			m.fail("as-length", e, "slice of length %d converted to ptr array[%d]", l.Hi-l.Lo, n)
		}
		return Value{K: VPtr, A: l.A, Lo: l.Lo, Hi: l.Lo + n}
	}
	m.bug("unsupported conversion %s", e.String())
	return Value{}
}

// view returns the (backing, lo, hi) of an array, slice or pointer-to-array value.
func (m *Machine) view(e *Expr, v Value) (*Array, int, int) {
	switch v.K {
	case VArray:
		lo, hi := arrView(v)
		return v.A, lo, hi
	case VSlice:
		if v.Poison {
			m.PoisonUses++
		}
		return v.A, v.Lo, v.Hi
	case VPtr:
		if v.A == nil {
			m.fail("nullptr", e, "index through a null pointer")
		}
		return v.A, v.Lo, v.Hi
	}
	m.bug("indexing a %v in %s", v.K, e.String())
	return nil, 0, 0
}

func (m *Machine) evalIndex(fr *frame, e *Expr) Value {
	base := m.eval(fr, e.L)
	i := m.eval(fr, e.R).I
	arr, lo, hi := m.view(e, base)
	es := elemSize(e.L.Typ)
	n, small := i.Int64()
	if !small || n < 0 || n >= int64((hi-lo)/es) {
		m.fail("index-oob", e, "index %s outside [0, %d)", i, (hi-lo)/es)
	}
	if es > 1 {
		// An element that is itself an array: a view into the flat backing store.
		return Value{K: VArray, A: arr, Lo: lo + int(n)*es, Hi: lo + (int(n)+1)*es}
	}
	v := arr.E[lo+int(n)]
	if arr.ET != nil && arr.ET.K == TInt && arr.ET.Refined && !inRange(v, arr.ET) {
		// Only zero-initialisation can put such a value there: every store is checked.
		obj := "caller buffer"
		switch {
		case arr.Recv:
			obj = "receiver array"
		case arr.owner != nil:
			obj = "local array"
		}
		m.failObj = obj
		m.fail("load-range", e, "element value %s read from a zero-initialised %s whose elements are declared %s", v, obj, arr.ET.Str)
	}
	return IntVal(v)
}

func (m *Machine) evalSlice(fr *frame, e *Expr) Value {
	base := m.eval(fr, e.L)
	arr, lo, hi := m.view(e, base)
	es := elemSize(e.L.Typ)
	length := int64((hi - lo) / es)
	i, j := int64(0), length
	if e.M != nil {
		v := m.eval(fr, e.M).I
		n, small := v.Int64()
		if !small || n < 0 || n > length {
			m.fail("slice-oob", e, "low bound %s outside [0, %d]", v, length)
		}
		i = n
	}
	if e.R != nil {
		v := m.eval(fr, e.R).I
		n, small := v.Int64()
		if !small || n < 0 || n > length {
			m.fail("slice-oob", e, "high bound %s outside [0, %d]", v, length)
		}
		j = n
	}
	if i > j {
		m.fail("slice-oob", e, "low bound %d exceeds high bound %d", i, j)
	}
	return Value{K: VSlice, A: arr, Lo: lo + int(i)*es, Hi: lo + int(j)*es}
}

var peekWidths = map[string][2]int{ // method -> {nbytes, bigEndian}
	"peek_u8": {1, 0}, "peek_u16be": {2, 1}, "peek_u16le": {2, 0}, "peek_u24be_as_u32": {3, 1}, "peek_u24le_as_u32": {3, 0},
	"peek_u32be": {4, 1}, "peek_u32le": {4, 0}, "peek_u40be_as_u64": {5, 1}, "peek_u40le_as_u64": {5, 0},
	"peek_u48be_as_u64": {6, 1}, "peek_u48le_as_u64": {6, 0}, "peek_u56be_as_u64": {7, 1}, "peek_u56le_as_u64": {7, 0},
	"peek_u64be": {8, 1}, "peek_u64le": {8, 0},
	"peek_u8_as_u16": {1, 0}, "peek_u8_as_u32": {1, 0}, "peek_u8_as_u64": {1, 0},
	"peek_u16be_as_u32": {2, 1}, "peek_u16le_as_u32": {2, 0}, "peek_u16be_as_u64": {2, 1}, "peek_u16le_as_u64": {2, 0},
	"peek_u24be_as_u64": {3, 1}, "peek_u24le_as_u64": {3, 0}, "peek_u32be_as_u64": {4, 1}, "peek_u32le_as_u64": {4, 0},
}

func assemble(b []Int, bigEndian bool) Int {
	acc := Int{}
	if bigEndian {
		for _, x := range b {
			acc = acc.Lsh(8).Or(x)
		}
	} else {
		for i := len(b) - 1; i >= 0; i-- {
			acc = acc.Lsh(8).Or(b[i])
		}
	}
	return acc
}

func disassemble(v Int, n int, bigEndian bool) []Int {
	out := make([]Int, n)
	for i := 0; i < n; i++ {
		b := v.Rsh(uint(8 * i)).And(I64(0xFF))
		if bigEndian {
			out[n-1-i] = b
		} else {
			out[i] = b
		}
	}
	return out
}

func (m *Machine) evalCall(fr *frame, e *Expr) Value {
	if e.Callee != nil {
		return m.callUser(fr, e)
	}
	recv := m.eval(fr, e.L)
	args := make([]Value, len(e.Args))
	for i, x := range e.Args {
		args[i] = m.eval(fr, x)
	}
	switch recv.K {
	case VInt:
		switch e.Meth {
		case "min":
			return IntVal(MinInt(recv.I, args[0].I))
		case "max":
			return IntVal(MaxInt(recv.I, args[0].I))
		case "low_bits", "high_bits":
			wt := e.L.Typ
			n, small := args[0].I.Int64()
			if wt == nil || wt.K != TInt {
				m.bug("%s on untyped receiver", e.Meth)
			}
			if !small || n < 0 || n >= int64(wt.Bits) {
				m.fail("arg-range", e, "%s(n: %s) outside [0 ..= %d]", e.Meth, args[0].I, wt.Bits-1)
			}
			if e.Meth == "low_bits" {
				return IntVal(recv.I.ModPow2(uint(n)))
			}
			return IntVal(recv.I.Rsh(wt.Bits - uint(n)))
		}
	case VStatus:
		c := byte(0)
		if recv.S != "" {
			c = recv.S[0]
		}
		switch e.Meth {
		case "is_ok":
			return BoolVal(recv.S == "")
		case "is_error":
			return BoolVal(c == '#')
		case "is_suspension":
			return BoolVal(c == '$')
		case "is_note":
			return BoolVal(c == '@')
		}
	case VSlice:
		if recv.Poison {
			m.PoisonUses++
		}
		n := recv.Hi - recv.Lo
		switch e.Meth {
		case "length":
			return IntVal(I64(int64(n / elemSize(e.L.Typ))))
		case "copy_from_slice":
			src := args[0]
			k := src.Hi - src.Lo
			if n < k {
				k = n
			}
			if k > 0 {
				tmp := append([]Int(nil), src.A.E[src.Lo:src.Lo+k]...)
				for i, x := range tmp {
					m.storeElem(e, recv.A, recv.Lo+i, x)
				}
			}
			return IntVal(I64(int64(k)))
		case "bulk_memset":
			for i := recv.Lo; i < recv.Hi; i++ {
				m.storeElem(e, recv.A, i, args[0].I)
			}
			return Value{K: VEmpty}
		case "prefix", "suffix":
			k, small := args[0].I.Int64()
			if !small || k > int64(n) {
				k = int64(n)
			}
			if e.Meth == "prefix" {
				return Value{K: VSlice, A: recv.A, Lo: recv.Lo, Hi: recv.Lo + int(k)}
			}
			return Value{K: VSlice, A: recv.A, Lo: recv.Hi - int(k), Hi: recv.Hi}
		}
		if w, ok := peekWidths[e.Meth]; ok {
			if n < w[0] {
				m.fail("index-oob", e, "%s on a slice of length %d", e.Meth, n)
			}
			return IntVal(assemble(recv.A.E[recv.Lo:recv.Lo+w[0]], w[1] == 1))
		}
		if strings.HasPrefix(e.Meth, "poke_") {
			if w, ok := peekWidths["peek_"+strings.TrimPrefix(e.Meth, "poke_")]; ok {
				if n < w[0] {
					m.fail("index-oob", e, "%s on a slice of length %d", e.Meth, n)
				}
				for i, x := range disassemble(args[0].I, w[0], w[1] == 1) {
					m.storeElem(e, recv.A, recv.Lo+i, x)
				}
				return Value{K: VEmpty}
			}
		}
	case VIO:
		return m.ioCall(fr, e, recv, args)
	case VPtr:
		if e.Meth == "reset" && recv.O != nil {
			// The implicit reset! method zeroes the receiver.
			z := m.P.NewObject(recv.O.SI.Name)
			copy(recv.O.F, z.F)
			recv.O.Choose, recv.O.Coro, recv.O.ActiveCo = nil, nil, nil
			return Value{K: VEmpty}
		}
	}
	m.bug("unsupported built-in call %s (receiver kind %d)", e.String(), recv.K)
	return Value{}
}
