#!/bin/bash
# ./internal/interp/cmd/ppdrive/run.sh [<wuffs tree>] [quick|thorough]
# Runs only the generated-program part of C10 against the given tree (default /repo).
cd /verif
export GOFLAGS=-mod=mod GOPROXY=off GOSUMDB=off GOTOOLCHAIN=local
tree="${1:-/repo}"; tier="${2:-quick}"
scratch=$(mktemp -d /dev/shm/ppdrive.XXXXXX); trap 'rm -rf "$scratch"' EXIT
if [ "$tree" != "/repo" ]; then
  sed "s|=> /repo|=> $tree|" go.mod > "$scratch/go.mod"; cp go.sum "$scratch/go.sum"
  export GOFLAGS="-mod=mod -modfile=$scratch/go.mod" VERIF_REPO="$tree" VERIF_OUT="${VERIF_OUT:-$scratch/out}"
fi
go build -o "$scratch/ppdrive" ./internal/interp/cmd/ppdrive || exit 2
"$scratch/ppdrive" "$tier"
