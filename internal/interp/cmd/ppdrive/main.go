// ppdrive runs the generated-program part of C10 (checks/c10/pure_programs.go,
// symlinked into this directory) on its own:
//
//	VERIF_REPO=<worktree> go run -modfile=<go.mod with the replace pointing at it> ./internal/interp/cmd/ppdrive [quick|thorough]
//
// (or simply `./internal/interp/cmd/ppdrive/run.sh <worktree> [tier]`). It
// writes no evidence file; it prints the counts and exits 1 if a violation
// with an unlisted signature was recorded (replay files go where ev puts them).
package main

import (
	"fmt"
	"os"

	"verif/internal/ev"
)

func main() {
	if len(os.Args) > 2 && os.Args[1] == "replay" {
		if !pureProgramsReplay(os.Args[2]) {
			fmt.Println("not a pure-program witness")
		}
		return
	}
	r := ev.Start("C10", "exploration")
	ev1, nt := pureProgramsPart(r)
	fmt.Printf("pure programs part: pure-method calls monitored=%d accepted programs with a pure call=%d counters=%v violations=%d\n",
		ev1, nt, r.Counters, r.NumViolations())
	for k, v := range r.Hist["pure_programs_outcome"] {
		fmt.Printf("  %-40s %d\n", k, v)
	}
	if r.NumViolations() > 0 {
		os.Exit(1)
	}
}
