// wprobe: developer tool. Compiles one Wuffs program with the real checker,
// prints the checker's fact list at every program point, explores it with the
// E2 rules and prints every distinct finding.
//
//	go run ./internal/interp/cmd/wprobe file.wuffs [-facts] [-trace]
package main

import (
	"fmt"
	"io"
	"os"
	"runtime/pprof"

	"verif/internal/interp"
)

func main() {
	var src []byte
	var err error
	showFacts, showTrace, noBounds := false, false, false
	path := ""
	for _, a := range os.Args[1:] {
		switch a {
		case "-facts":
			showFacts = true
		case "-trace":
			showTrace = true
		case "-nobounds":
			noBounds = true
		default:
			path = a
		}
	}
	if path == "" || path == "-" {
		src, err = io.ReadAll(os.Stdin)
	} else {
		src, err = os.ReadFile(path)
	}
	if err != nil {
		fmt.Println(err)
		os.Exit(2)
	}
	p, err := interp.Compile(string(src))
	if err != nil {
		fmt.Println("NOT ACCEPTED:", err)
		os.Exit(1)
	}
	fmt.Println("accepted; id", p.ID[:12])
	fo := interp.NewFactOracle()
	if showFacts {
		for _, ln := range p.Points() {
			rf := fo.Raw(p, ln)
			fmt.Printf("point %3d  %-40s", ln, p.Lines[ln-1])
			if rf.Err != "" {
				fmt.Printf("  PROBE-ERR %s\n", rf.Err)
				continue
			}
			fmt.Printf("  %v\n", rf.Strs)
		}
	}
	sigs := map[string]int{}
	interp.DiagnoseWithoutBounds = noBounds
	memo := map[string]bool{}
	opt := interp.ExploreOptions{Depth: 2, MaxExec: 200000, MaxStates: 4096, MaxTuples: 4096, Bounds: !noBounds, Facts: fo, Pure: true}
	opt.OnExec = func(x *interp.Execution) {
		if showTrace {
			fmt.Printf("%v %s -> %q %v\n", x.History, x.Call, x.Result.Trace.Ret, x.Result.Trace.Fields)
		}
		if x.Result.Viol == nil && len(x.False) == 0 && x.Result.Bug == "" {
			return
		}
		memoKey := ""
		if x.Result.Viol != nil {
			memoKey = x.Result.Viol.String()
		}
		for _, ff := range x.False {
			memoKey += fmt.Sprintf("|%d:%s", ff.Line, ff.Fact)
		}
		if memo[memoKey] {
			return
		}
		memo[memoKey] = true
		d := interp.Diagnose(p, fo, x.History, x.Call)
		keys := []string{}
		if d.Viol != nil {
			keys = append(keys, "C01 "+d.C01Sig)
		}
		for _, ff := range d.False {
			keys = append(keys, "C02 "+ff.Signature)
		}
		if d.Bug != "" {
			keys = append(keys, "BUG "+d.Bug)
		}
		for _, k := range keys {
			sigs[k]++
			if sigs[k] == 1 {
				fmt.Println("FINDING", k)
				fmt.Println("  history:", x.History, "call:", x.Call)
				for _, l := range d.Lines {
					fmt.Println("   ", l)
				}
			}
		}
	}
	if pf := os.Getenv("WPROBE_PROF"); pf != "" {
		f, _ := os.Create(pf)
		pprof.StartCPUProfile(f)
		defer pprof.StopCPUProfile()
	}
	st := interp.Explore(p, opt)
	fmt.Printf("stats: %+v\n", *st)
	if p.HasCoroutines() {
		pl, capped := p.CoroPlans(3, 100000)
		fmt.Printf("quick-tier plan space: %d plans (capped=%v)\n", len(pl), capped)
		nruns := 0
		cst := interp.ExploreCoro(p, opt, 3, 2000, func(pl interp.CoroPlan, r *interp.CoroRun) {
			nruns++
			if showTrace {
				fmt.Printf("%s -> %v consumed=%d written=%s %v stuck=%v\n", pl, r.Statuses, r.Consumed, r.Written, r.Fields, r.Stuck)
			}
			if r.Viol == nil && len(r.False) == 0 && r.Bug == "" {
				return
			}
			d := interp.DiagnoseCoro(p, fo, pl)
			keys := []string{}
			if d.Viol != nil {
				keys = append(keys, "C01 "+d.C01Sig)
			}
			for _, ff := range d.False {
				keys = append(keys, "C02 "+ff.Signature)
			}
			if d.Bug != "" {
				keys = append(keys, "BUG "+d.Bug)
			}
			for _, k := range keys {
				sigs[k]++
				if sigs[k] == 1 {
					fmt.Println("FINDING", k)
					for _, l := range d.Lines {
						fmt.Println("   ", l)
					}
				}
			}
		})
		fmt.Printf("coroutine plans: %d stats: %+v\n", nruns, *cst)
	}
	for k, n := range sigs {
		fmt.Printf("%6d  %s\n", n, k)
	}
}
