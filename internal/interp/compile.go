package interp

import (
	"crypto/sha1"
	"encoding/hex"
	"fmt"
	"math/big"
	"strings"

	a "github.com/google/wuffs/lang/ast"
	"github.com/google/wuffs/lang/check"
	"github.com/google/wuffs/lang/parse"
	t "github.com/google/wuffs/lang/token"
)

// ---------------------------------------------------------------- types

type TKind uint8

const (
	TOther TKind = iota
	TInt
	TBool
	TIdeal
	TStatus
	TArray
	TSlice
	TPtr // ptr / nptr to a struct or to an array
	TStruct
	TIOReader
	TIOWriter
	TEmpty
	TFunc
)

type Type struct {
	K        TKind
	Bits     uint
	Signed   bool
	Min, Max Int // TInt: effective range including the refinement; TBool: 0..1
	Refined  bool
	Elem     *Type // array / slice / ptr
	Len      int   // array
	RO       bool
	Nullable bool   // nptr
	Struct   string // TStruct (or Elem of TPtr)
	Str      string // Wuffs text
}

func (ty *Type) IsNum() bool { return ty != nil && ty.K == TInt }

var intBits = map[string]struct {
	bits   uint
	signed bool
}{
	"u8": {8, false}, "u16": {16, false}, "u32": {32, false}, "u64": {64, false},
	"i8": {8, true}, "i16": {16, true}, "i32": {32, true}, "i64": {64, true},
}

func baseRange(bits uint, signed bool) (Int, Int) {
	if signed {
		lo := I64(1).Lsh(bits - 1).Neg()
		hi := I64(1).Lsh(bits - 1).Sub(I64(1))
		return lo, hi
	}
	return Int{}, I64(1).Lsh(bits).Sub(I64(1))
}

func lowerType(tm *t.Map, te *a.TypeExpr) *Type {
	if te == nil {
		return &Type{K: TEmpty, Str: "empty_struct"}
	}
	ty := &Type{Str: te.Str(tm)}
	switch te.Decorator() {
	case t.IDArray, t.IDRoarray:
		ty.K = TArray
		ty.RO = te.Decorator() == t.IDRoarray
		ty.Elem = lowerType(tm, te.Inner())
		if cv := te.ArrayLength().ConstValue(); cv != nil && cv.IsInt64() {
			ty.Len = int(cv.Int64())
		}
		return ty
	case t.IDSlice, t.IDRoslice:
		ty.K = TSlice
		ty.RO = te.Decorator() == t.IDRoslice
		ty.Elem = lowerType(tm, te.Inner())
		return ty
	case t.IDPtr, t.IDNptr:
		ty.K = TPtr
		ty.Nullable = te.Decorator() == t.IDNptr
		ty.Elem = lowerType(tm, te.Inner())
		return ty
	case t.IDFunc:
		ty.K = TFunc
		return ty
	case 0:
	default:
		return ty
	}
	qid := te.QID()
	name := tm.ByID(qid[1])
	if qid[0] == t.IDBase {
		if ib, ok := intBits[name]; ok {
			ty.K, ty.Bits, ty.Signed = TInt, ib.bits, ib.signed
			ty.Min, ty.Max = baseRange(ib.bits, ib.signed)
			if x := te.Min(); x != nil && x.ConstValue() != nil {
				ty.Min, ty.Refined = FromBig(x.ConstValue()), true
			}
			if x := te.Max(); x != nil && x.ConstValue() != nil {
				ty.Max, ty.Refined = FromBig(x.ConstValue()), true
			}
			return ty
		}
		switch name {
		case "bool":
			ty.K, ty.Max = TBool, I64(1)
		case "status":
			ty.K = TStatus
		case "io_reader":
			ty.K = TIOReader
		case "io_writer":
			ty.K = TIOWriter
		case "empty_struct":
			ty.K = TEmpty
		case "", "ideal", "Qideal":
			ty.K = TIdeal
		default:
			if te.IsIdeal() {
				ty.K = TIdeal
			}
		}
		if te.IsIdeal() {
			ty.K = TIdeal
		}
		return ty
	}
	if qid[0] == 0 {
		ty.K, ty.Struct = TStruct, name
	}
	return ty
}

// ---------------------------------------------------------------- program

type Field struct {
	Name string
	Typ  *Type
}

type StructInfo struct {
	Name   string
	Public bool
	Fields []Field
	index  map[string]int
}

type Var struct {
	Name string
	Typ  *Type
}

type Func struct {
	Prog    *Prog
	Name    string // method name without receiver
	Recv    string
	Public  bool
	Effect  a.Effect
	Choosy  bool
	Args    []Var
	Locals  []Var // slots len(Args).. ; Locals[i] is slot len(Args)+i
	Out     *Type
	Body    []*Stmt
	AST     *a.Func
	Line    int // line of the "func" header
	EndLine int // line of the closing brace (the end-of-body program point)
	Term    bool
	slots   map[string]int // local variable name -> slot
	argIdx  map[string]int
	nslots  int
	active  int // activation count (recursion monitor)
}

func (f *Func) QName() string { return f.Recv + "." + f.Name }

type Prog struct {
	Src     string
	ID      string // SHA-1 of Src (hex)
	Lines   []string
	TM      *t.Map
	File    *a.File
	Structs map[string]*StructInfo
	Funcs   map[string]*Func // "recv.name"
	Order   []*Func          // source order
	// closer[l] is the line of the "}" that closes the block opened at the end of line l.
	closer  map[int]int
	opener  map[int]int // closer line -> opener line
	funcOf  map[int]*Func
	nStmts  int
	checker *check.Checker
	loopMap map[*a.While]*Stmt
	iterMap map[*a.Iterate]*Stmt
	pfCache map[int]*PointFacts
}

// CheckSource runs the real Tokenize -> Parse -> Check pipeline.
func CheckSource(src string) (*t.Map, *a.File, *check.Checker, error) {
	tm := &t.Map{}
	tokens, _, err := t.Tokenize(tm, "p.wuffs", []byte(src))
	if err != nil {
		return nil, nil, nil, err
	}
	f, err := parse.Parse(tm, "p.wuffs", tokens, nil)
	if err != nil {
		return tm, nil, nil, err
	}
	c, err := check.Check(tm, []*a.File{f}, nil)
	if err != nil {
		return tm, f, nil, err
	}
	return tm, f, c, nil
}

func SrcID(src string) string {
	h := sha1.Sum([]byte(src))
	return hex.EncodeToString(h[:])
}

// Compile checks src with the real checker and, if it is accepted, lowers the
// annotated AST for interpretation. A non-nil error of type *Rejected means
// the toolchain rejected the program; any other error is a harness error (the
// program is outside the E2 subset or violates the canonical layout).
type Rejected struct {
	Stage string // "tokenize", "parse", "check"
	Err   error
}

func (r *Rejected) Error() string { return r.Stage + ": " + r.Err.Error() }

func Compile(src string) (p *Prog, err error) {
	tm := &t.Map{}
	tokens, _, terr := t.Tokenize(tm, "p.wuffs", []byte(src))
	if terr != nil {
		return nil, &Rejected{"tokenize", terr}
	}
	f, perr := parse.Parse(tm, "p.wuffs", tokens, nil)
	if perr != nil {
		return nil, &Rejected{"parse", perr}
	}
	c, cerr := check.Check(tm, []*a.File{f}, nil)
	if cerr != nil {
		return nil, &Rejected{"check", cerr}
	}
	defer func() {
		if r := recover(); r != nil {
			if le, ok := r.(lowerErr); ok {
				p, err = nil, fmt.Errorf("interp: unsupported construct: %s", string(le))
				return
			}
			panic(r)
		}
	}()
	return lowerProg(src, tm, f, c), nil
}

type lowerErr string

func unsupported(format string, args ...any) { panic(lowerErr(fmt.Sprintf(format, args...))) }

func lowerProg(src string, tm *t.Map, f *a.File, c *check.Checker) *Prog {
	p := &Prog{Src: src, ID: SrcID(src), TM: tm, File: f, checker: c,
		Structs: map[string]*StructInfo{}, Funcs: map[string]*Func{},
		closer: map[int]int{}, opener: map[int]int{}, funcOf: map[int]*Func{}}
	p.Lines = strings.Split(src, "\n")
	p.scanBraces()
	for _, n := range f.TopLevelDecls() {
		if n.Kind() == a.KStruct {
			s := n.AsStruct()
			si := &StructInfo{Name: tm.ByID(s.QID()[1]), Public: s.Public(), index: map[string]int{}}
			for _, fn := range s.Fields() {
				fl := fn.AsField()
				si.index[tm.ByID(fl.Name())] = len(si.Fields)
				si.Fields = append(si.Fields, Field{tm.ByID(fl.Name()), lowerType(tm, fl.XType())})
			}
			p.Structs[si.Name] = si
		}
	}
	// Function headers first (calls refer to them), then bodies.
	for _, n := range f.TopLevelDecls() {
		if n.Kind() != a.KFunc {
			continue
		}
		af := n.AsFunc()
		fn := &Func{Prog: p, Name: tm.ByID(af.FuncName()), Recv: tm.ByID(af.Receiver()[1]),
			Public: af.Public(), Effect: af.Effect(), Choosy: af.Choosy(), AST: af, Line: int(af.Line()),
			slots: map[string]int{}, argIdx: map[string]int{}}
		for _, o := range af.In().Fields() {
			fl := o.AsField()
			fn.argIdx[tm.ByID(fl.Name())] = len(fn.Args)
			fn.Args = append(fn.Args, Var{tm.ByID(fl.Name()), lowerType(tm, fl.XType())})
		}
		if af.Out() != nil {
			fn.Out = lowerType(tm, af.Out())
		}
		fn.nslots = len(fn.Args)
		for _, o := range af.Body() {
			if o.Kind() != a.KVar {
				break
			}
			v := o.AsVar()
			fn.slots[tm.ByID(v.Name())] = fn.nslots
			fn.Locals = append(fn.Locals, Var{tm.ByID(v.Name()), lowerType(tm, v.XType())})
			fn.nslots++
		}
		p.Funcs[fn.QName()] = fn
		p.Order = append(p.Order, fn)
	}
	for _, fn := range p.Order {
		// The header may span one line only (canonical layout): the body opens on fn.Line.
		cl, ok := p.closer[fn.Line]
		if !ok {
			unsupported("func %s: header line %d does not end with '{' (canonical layout required)", fn.QName(), fn.Line)
		}
		fn.EndLine = cl
		for l := fn.Line; l <= cl; l++ {
			p.funcOf[l] = fn
		}
		lw := &lowerer{p: p, tm: tm, fn: fn}
		fn.Body = lw.block(fn.AST.Body())
		fn.Term = a.Terminates(fn.AST.Body())
	}
	return p
}

// scanBraces matches block openers (lines ending in "{") with closers (lines
// starting with "}"). The canonical layout has one statement per line.
func (p *Prog) scanBraces() {
	var stack []int
	for i, ln := range p.Lines {
		line := i + 1
		s := strings.TrimSpace(ln)
		if strings.HasPrefix(s, "}") {
			if len(stack) == 0 {
				unsupported("unbalanced '}' at line %d", line)
			}
			op := stack[len(stack)-1]
			stack = stack[:len(stack)-1]
			p.closer[op] = line
			p.opener[line] = op
		}
		if strings.HasSuffix(s, "{") {
			stack = append(stack, line)
		}
	}
	if len(stack) != 0 {
		unsupported("unbalanced '{' at line %d", stack[len(stack)-1])
	}
}

// ---------------------------------------------------------------- expressions

type Op uint8

const (
	OConst Op = iota
	OStatus
	ONull
	ONothing
	OLocal
	OArg
	OField // this.f  (L == nil) or L.f
	OThis
	OCoroResumed
	ONeg
	OPos
	ONot
	OAdd
	OSub
	OMul
	ODiv
	OMod
	OShl
	OShr
	OAnd
	OOr
	OXor
	OModAdd
	OModSub
	OModMul
	OModShl
	OSatAdd
	OSatSub
	ONe
	OLt
	OLe
	OEq
	OGe
	OGt
	OLAnd
	OLOr
	OAs
	OAssoc // Sub = the binary Op folded over Args
	OIndex
	OSlice
	OCall
	OList
)

var opNames = [...]string{
	OConst: "const", OStatus: "status", ONull: "nullptr", ONothing: "nothing", OLocal: "local", OArg: "arg",
	OField: "field", OThis: "this", OCoroResumed: "coroutine_resumed", ONeg: "neg", OPos: "pos", ONot: "not",
	OAdd: "+", OSub: "-", OMul: "*", ODiv: "/", OMod: "%", OShl: "<<", OShr: ">>", OAnd: "&", OOr: "|", OXor: "^",
	OModAdd: "~mod+", OModSub: "~mod-", OModMul: "~mod*", OModShl: "~mod<<", OSatAdd: "~sat+", OSatSub: "~sat-",
	ONe: "<>", OLt: "<", OLe: "<=", OEq: "==", OGe: ">=", OGt: ">", OLAnd: "and", OLOr: "or", OAs: "as",
	OAssoc: "assoc", OIndex: "index", OSlice: "slice", OCall: "call", OList: "list",
}

func (o Op) String() string { return opNames[o] }

var binOps = map[t.ID]Op{
	t.IDXBinaryPlus: OAdd, t.IDXBinaryMinus: OSub, t.IDXBinaryStar: OMul, t.IDXBinarySlash: ODiv,
	t.IDXBinaryPercent: OMod, t.IDXBinaryShiftL: OShl, t.IDXBinaryShiftR: OShr, t.IDXBinaryAmp: OAnd,
	t.IDXBinaryPipe: OOr, t.IDXBinaryHat: OXor, t.IDXBinaryTildeModPlus: OModAdd,
	t.IDXBinaryTildeModMinus: OModSub, t.IDXBinaryTildeModStar: OModMul, t.IDXBinaryTildeModShiftL: OModShl,
	t.IDXBinaryTildeSatPlus: OSatAdd, t.IDXBinaryTildeSatMinus: OSatSub,
	t.IDXBinaryNotEq: ONe, t.IDXBinaryLessThan: OLt, t.IDXBinaryLessEq: OLe, t.IDXBinaryEqEq: OEq,
	t.IDXBinaryGreaterEq: OGe, t.IDXBinaryGreaterThan: OGt, t.IDXBinaryAnd: OLAnd, t.IDXBinaryOr: OLOr,
}

var assocOps = map[t.ID]Op{
	t.IDXAssociativePlus: OAdd, t.IDXAssociativeStar: OMul, t.IDXAssociativeAmp: OAnd,
	t.IDXAssociativePipe: OOr, t.IDXAssociativeHat: OXor, t.IDXAssociativeAnd: OLAnd, t.IDXAssociativeOr: OLOr,
}

// Expr is a lowered expression; P is the copy of the checker-annotated node.
type Expr struct {
	Op      Op
	Sub     Op     // OAssoc: the folded operator
	P       *PExpr // the portable copy of the source node
	Typ     *Type
	CV      *Int // ConstValue of the source node, if any
	Val     Value
	Slot    int
	Name    string // field / method / variable name
	L, M, R *Expr
	Args    []*Expr
	ArgName []string
	AsTyp   *Type
	Callee  *Func  // user function
	Meth    string // built-in method name
	Effect  a.Effect
	// MBounds of the source node.
	HasB   bool
	B0, B1 Int
	// CheckB: the node is in statement position, so value in MBounds is demanded.
	CheckB bool
	str    string
}

func (e *Expr) String() string { return e.str }

type lowerer struct {
	p  *Prog
	tm *t.Map
	fn *Func
}

// PExpr is a self-contained ("portable") copy of a checker-annotated
// expression: it keeps nothing of the token map or AST it came from, so fact
// lists can be cached cheaply and lowered into any program by name.
type PExpr struct {
	Op       t.ID
	Ident    string
	CV       *Int
	Typ      *Type
	HasB     bool
	B0, B1   Int
	L, M, R  *PExpr
	Args     []*PExpr
	ArgNames []string
	AsTyp    *Type
	Effect   a.Effect
	Str      string
}

// Portable copies n (annotations included).
func Portable(tm *t.Map, n *a.Expr) *PExpr {
	if n == nil {
		return nil
	}
	pe := &PExpr{Op: n.Operator(), Effect: n.Effect(), Str: n.Str(tm)}
	if id := n.Ident(); id != 0 {
		pe.Ident = tm.ByID(id)
	}
	if mt := n.MType(); mt != nil {
		pe.Typ = lowerType(tm, mt)
	}
	if b := n.MBounds(); b[0] != nil && b[1] != nil {
		pe.HasB, pe.B0, pe.B1 = true, FromBig(b[0]), FromBig(b[1])
	}
	if cv := n.ConstValue(); cv != nil {
		v := FromBig(cv)
		pe.CV = &v
	}
	pe.L = Portable(tm, n.LHS().AsExpr())
	pe.M = Portable(tm, n.MHS().AsExpr())
	if n.Operator() == t.IDXBinaryAs {
		pe.AsTyp = lowerType(tm, n.RHS().AsTypeExpr())
	} else {
		pe.R = Portable(tm, n.RHS().AsExpr())
	}
	for _, x := range n.Args() {
		if x.Kind() == a.KArg {
			pe.ArgNames = append(pe.ArgNames, tm.ByID(x.AsArg().Name()))
			pe.Args = append(pe.Args, Portable(tm, x.AsArg().Value()))
		} else {
			pe.Args = append(pe.Args, Portable(tm, x.AsExpr()))
		}
	}
	return pe
}

// LowerFact lowers a portable expression (typically a fact taken from another
// Check run) in the scope of fn: identifiers are resolved by name.
func (p *Prog) LowerFact(fn *Func, pe *PExpr) (e *Expr, err error) {
	defer func() {
		if r := recover(); r != nil {
			if le, ok := r.(lowerErr); ok {
				e, err = nil, fmt.Errorf("%s", string(le))
				return
			}
			panic(r)
		}
	}()
	lw := &lowerer{p: p, fn: fn}
	return lw.lower(pe), nil
}

func (lw *lowerer) expr(n *a.Expr) *Expr {
	if n == nil {
		return nil
	}
	return lw.lower(Portable(lw.tm, n))
}

func (lw *lowerer) lower(n *PExpr) *Expr {
	if n == nil {
		return nil
	}
	e := &Expr{P: n, Typ: n.Typ, CV: n.CV, HasB: n.HasB, B0: n.B0, B1: n.B1, str: n.Str}
	op := n.Op
	switch {
	case op == 0:
		lw.ident(e, n)
	case op.IsXUnaryOp():
		e.R = lw.lower(n.R)
		switch op {
		case t.IDXUnaryPlus:
			e.Op = OPos
		case t.IDXUnaryMinus:
			e.Op = ONeg
		case t.IDXUnaryNot:
			e.Op = ONot
		default:
			unsupported("unary op %q", n.Str)
		}
	case op == t.IDXBinaryAs:
		e.Op = OAs
		e.L = lw.lower(n.L)
		e.AsTyp = n.AsTyp
	case op.IsXBinaryOp():
		o, ok := binOps[op]
		if !ok {
			unsupported("binary op in %q", n.Str)
		}
		e.Op = o
		e.L = lw.lower(n.L)
		e.R = lw.lower(n.R)
	case op.IsXAssociativeOp():
		o, ok := assocOps[op]
		if !ok {
			unsupported("associative op in %q", n.Str)
		}
		e.Op, e.Sub = OAssoc, o
		for _, x := range n.Args {
			e.Args = append(e.Args, lw.lower(x))
		}
	case op == t.IDOpenBracket:
		e.Op = OIndex
		e.L = lw.lower(n.L)
		e.R = lw.lower(n.R)
	case op == t.IDDotDot:
		e.Op = OSlice
		e.L = lw.lower(n.L)
		e.M = lw.lower(n.M)
		e.R = lw.lower(n.R)
	case op == t.IDDot:
		lw.dot(e, n)
	case op == t.IDOpenParen:
		lw.call(e, n)
	case op == t.IDComma:
		e.Op = OList
		for _, x := range n.Args {
			e.Args = append(e.Args, lw.lower(x))
		}
	default:
		unsupported("expression %q", n.Str)
	}
	return e
}

func (lw *lowerer) ident(e *Expr, n *PExpr) {
	name := n.Ident
	e.Name = name
	switch name {
	case "this":
		e.Op = OThis
		return
	case "nullptr":
		e.Op = ONull
		return
	case "nothing":
		e.Op = ONothing
		return
	case "ok":
		e.Op, e.Val = OStatus, Value{K: VStatus}
		return
	case "coroutine_resumed":
		e.Op = OCoroResumed
		return
	case "args":
		unsupported("bare args")
	}
	if len(name) > 0 && name[0] == '"' {
		s, _ := t.Unescape(name)
		e.Op, e.Val = OStatus, Value{K: VStatus, S: s}
		return
	}
	if lw.fn != nil {
		if slot, ok := lw.fn.slots[name]; ok {
			e.Op, e.Slot = OLocal, slot
			if e.Typ == nil {
				e.Typ = lw.fn.Locals[slot-len(lw.fn.Args)].Typ
			}
			return
		}
	}
	if e.CV != nil {
		// Literals, true/false and named constants.
		e.Op, e.Val = OConst, Value{K: VInt, I: *e.CV}
		return
	}
	unsupported("identifier %q", name)
}

func isIdent(n *PExpr, name string) bool { return n != nil && n.Op == 0 && n.Ident == name }

func (lw *lowerer) dot(e *Expr, n *PExpr) {
	lhs := n.L
	name := n.Ident
	e.Name = name
	switch {
	case isIdent(lhs, "args"):
		if lw.fn == nil {
			unsupported("args outside a function")
		}
		idx, ok := lw.fn.argIdx[name]
		if !ok {
			unsupported("no argument %q", name)
		}
		e.Op, e.Slot = OArg, idx
		if e.Typ == nil {
			e.Typ = lw.fn.Args[idx].Typ
		}
		return
	case isIdent(lhs, "this"):
		if lw.fn != nil {
			if si := lw.p.Structs[lw.fn.Recv]; si != nil {
				if idx, ok := si.index[name]; ok {
					e.Op, e.Slot = OField, idx
					if e.Typ == nil {
						e.Typ = si.Fields[idx].Typ
					}
					return
				}
			}
		}
	case isIdent(lhs, "base"):
		if len(name) > 0 && name[0] == '"' {
			// Built-in statuses read "#base: bad data" in generated code.
			s, _ := t.Unescape(name)
			if len(s) > 0 {
				s = s[:1] + "base: " + s[1:]
			}
			e.Op, e.Val = OStatus, Value{K: VStatus, S: s}
			return
		}
		if e.CV != nil {
			e.Op, e.Val = OConst, Value{K: VInt, I: *e.CV}
			return
		}
	}
	if e.CV != nil {
		e.Op, e.Val = OConst, Value{K: VInt, I: *e.CV}
		return
	}
	// Method reference (only meaningful as the LHS of a call): keep the receiver.
	e.Op = OField
	e.Slot = -1
	e.L = lw.lower(lhs)
}

func (lw *lowerer) call(e *Expr, n *PExpr) {
	e.Op = OCall
	e.Effect = n.Effect
	sel := n.L
	if sel == nil || sel.Op != t.IDDot {
		unsupported("call of non-selector %q", n.Str)
	}
	e.Meth = sel.Ident
	e.L = lw.lower(sel.L)
	e.ArgName = n.ArgNames
	for _, x := range n.Args {
		e.Args = append(e.Args, lw.lower(x))
	}
	// User method?
	rt := e.L.Typ
	structName := ""
	if rt != nil {
		if rt.K == TPtr && rt.Elem != nil && rt.Elem.K == TStruct {
			structName = rt.Elem.Struct
		} else if rt.K == TStruct {
			structName = rt.Struct
		}
	}
	if e.L.Op == OThis && lw.fn != nil {
		structName = lw.fn.Recv
	}
	if structName != "" {
		if f := lw.p.Funcs[structName+"."+e.Meth]; f != nil {
			e.Callee = f
			return
		}
		if e.Meth == "reset" {
			return
		}
		unsupported("no method %s.%s", structName, e.Meth)
	}
}

// ---------------------------------------------------------------- statements

type SKind uint8

const (
	SAssign SKind = iota
	SVar
	SIf
	SWhile
	SJump
	SRet
	SAssert
	SIOManip
	SChoose
	SIterate
)

// IterRound is one `(length: L, advance: A, unroll: U) { body }` of an iterate statement.
type IterRound struct {
	Length, Advance, Unroll int
	Body                    []*Stmt
	BodyEnd                 int
	BodyTerm                bool
}

type AssertInfo struct {
	Keyword string // assert / pre / inv / post
	Cond    *Expr
	Reason  string
	Src     *a.Assert
}

type Stmt struct {
	K    SKind
	Line int
	Node *a.Node
	Fn   *Func
	// SAssign
	AOp      t.ID // the assignment operator token (t.IDEq, t.IDPlusEq, ...)
	BinOp    Op   // the binary form for compound assignments
	LHS, RHS *Expr
	// SVar
	Slot int
	Typ  *Type
	// SIf
	Cond     *Expr
	Then     []*Stmt
	Else     []*Stmt
	ElseIf   *Stmt
	ThenEnd  int
	ElseEnd  int
	ThenTerm bool
	ElseTerm bool
	// SWhile
	Label    string
	Asserts  []*AssertInfo
	Body     []*Stmt
	BodyEnd  int
	BodyTerm bool
	// SJump
	Break  bool
	Target *Stmt
	// SRet
	Yield bool
	Val   *Expr
	// SAssert
	Assert *AssertInfo
	// SIOManip
	IOKw    string
	IO      *Expr
	Arg1    *Expr
	HistPos *Expr
	// SIterate
	IterVars []*Expr // the local slice variables
	IterSrcs []*Expr
	Rounds   []*IterRound
	// SChoose
	ChooseName string
	ChooseAlts []string
	str        string
}

func (s *Stmt) String() string {
	if s.str == "" {
		s.str = strings.TrimSpace(s.Fn.Prog.Lines[s.Line-1])
	}
	return s.str
}

func markStmtPos(e *Expr) {
	if e == nil {
		return
	}
	e.CheckB = true
	markStmtPos(e.L)
	markStmtPos(e.M)
	markStmtPos(e.R)
	for _, x := range e.Args {
		markStmtPos(x)
	}
}

func (lw *lowerer) block(nodes []*a.Node) []*Stmt {
	var out []*Stmt
	for _, n := range nodes {
		out = append(out, lw.stmt(n))
	}
	return out
}

func (lw *lowerer) assertInfo(n *a.Assert) *AssertInfo {
	ai := &AssertInfo{Keyword: lw.tm.ByID(n.Keyword()), Cond: lw.expr(n.Condition()), Src: n}
	if r := n.Reason(); r != 0 {
		ai.Reason, _ = t.Unescape(lw.tm.ByID(r))
	}
	return ai
}

func (lw *lowerer) stmt(n *a.Node) *Stmt {
	_, line := n.AsRaw().FilenameLine()
	s := &Stmt{Line: int(line), Node: n, Fn: lw.fn}
	lw.p.nStmts++
	switch n.Kind() {
	case a.KAssign:
		o := n.AsAssign()
		s.K, s.AOp = SAssign, o.Operator()
		if o.LHS() != nil {
			s.LHS = lw.expr(o.LHS())
			markStmtPos(s.LHS)
		}
		s.RHS = lw.expr(o.RHS())
		markStmtPos(s.RHS)
		if s.AOp != t.IDEq && s.AOp != t.IDEqQuestion {
			bo, ok := binOps[s.AOp.BinaryForm()]
			if !ok {
				unsupported("assignment operator at line %d", line)
			}
			s.BinOp = bo
		}
	case a.KVar:
		v := n.AsVar()
		s.K = SVar
		s.Slot = lw.fn.slots[lw.tm.ByID(v.Name())]
		s.Typ = lowerType(lw.tm, v.XType())
	case a.KIf:
		lw.ifStmt(s, n.AsIf())
	case a.KWhile:
		w := n.AsWhile()
		s.K = SWhile
		if w.Label() != 0 {
			s.Label = lw.tm.ByID(w.Label())
		}
		s.Cond = lw.expr(w.Condition())
		for _, o := range w.Asserts() {
			s.Asserts = append(s.Asserts, lw.assertInfo(o.AsAssert()))
		}
		lw.p.loops()[w] = s
		s.Body = lw.block(w.Body())
		cl, ok := lw.p.closer[s.Line]
		if !ok {
			unsupported("while at line %d: header must end with '{' on the same line", s.Line)
		}
		s.BodyEnd = cl
		s.BodyTerm = a.Terminates(w.Body())
	case a.KJump:
		j := n.AsJump()
		s.K, s.Break = SJump, j.Keyword() == t.IDBreak
		if it, ok := j.JumpTarget().(*a.Iterate); ok {
			s.Target = lw.p.iterLoops()[it]
			if s.Target == nil {
				unsupported("jump target at line %d not found", s.Line)
			}
			break
		}
		w, ok := j.JumpTarget().(*a.While)
		if !ok {
			unsupported("jump target at line %d is not a while loop", s.Line)
		}
		s.Target = lw.p.loops()[w]
		if s.Target == nil {
			unsupported("jump target at line %d not found", s.Line)
		}
	case a.KRet:
		r := n.AsRet()
		s.K, s.Yield = SRet, r.Keyword() == t.IDYield
		s.Val = lw.expr(r.Value())
		markStmtPos(s.Val)
	case a.KAssert:
		s.K = SAssert
		s.Assert = lw.assertInfo(n.AsAssert())
	case a.KIOManip:
		m := n.AsIOManip()
		s.K = SIOManip
		s.IOKw = lw.tm.ByID(m.Keyword())
		s.IO = lw.expr(m.IO())
		s.Arg1 = lw.expr(m.Arg1())
		s.HistPos = lw.expr(m.HistoryPosition())
		markStmtPos(s.IO)
		markStmtPos(s.Arg1)
		markStmtPos(s.HistPos)
		s.Body = lw.block(m.Body())
		cl, ok := lw.p.closer[s.Line]
		if !ok {
			unsupported("%s at line %d: header must end with '{'", s.IOKw, s.Line)
		}
		s.BodyEnd = cl
		s.BodyTerm = a.Terminates(m.Body())
	case a.KIterate:
		it := n.AsIterate()
		s.K = SIterate
		// break / continue may target any round of the iterate: a continue goes on to the
		// advance of the round it is lexically in (the one executing), a break leaves the
		// whole statement. Both resolve to this statement.
		for cur := it; cur != nil; cur = cur.ElseIterate() {
			lw.p.iterLoops()[cur] = s
		}
		for _, o := range it.Assigns() {
			as := o.AsAssign()
			lhs := lw.expr(as.LHS())
			if lhs.Op != OLocal {
				unsupported("iterate variable at line %d is not a local", s.Line)
			}
			rhs := lw.expr(as.RHS())
			markStmtPos(rhs)
			s.IterVars = append(s.IterVars, lhs)
			s.IterSrcs = append(s.IterSrcs, rhs)
		}
		opener := s.Line
		for cur := it; cur != nil; cur = cur.ElseIterate() {
			rd := &IterRound{}
			fmt.Sscan(lw.tm.ByID(cur.Length()), &rd.Length)
			fmt.Sscan(lw.tm.ByID(cur.Advance()), &rd.Advance)
			fmt.Sscan(lw.tm.ByID(cur.Unroll()), &rd.Unroll)
			if rd.Length < 1 || rd.Advance < 1 || rd.Advance > rd.Length {
				unsupported("iterate round at line %d: bad length / advance", opener)
			}
			rd.Body = lw.block(cur.Body())
			cl, ok := lw.p.closer[opener]
			if !ok {
				unsupported("iterate at line %d: header must end with '{'", opener)
			}
			rd.BodyEnd, rd.BodyTerm = cl, a.Terminates(cur.Body())
			s.Rounds = append(s.Rounds, rd)
			opener = cl // "} else (length: ..) {" sits on the closer line
		}
	case a.KChoose:
		c := n.AsChoose()
		s.K = SChoose
		s.ChooseName = lw.tm.ByID(c.Name())
		for _, o := range c.Args() {
			s.ChooseAlts = append(s.ChooseAlts, lw.tm.ByID(o.AsExpr().Ident()))
		}
	default:
		unsupported("statement kind %s at line %d", n.Kind(), line)
	}
	return s
}

func (p *Prog) iterLoops() map[*a.Iterate]*Stmt {
	if p.iterMap == nil {
		p.iterMap = map[*a.Iterate]*Stmt{}
	}
	return p.iterMap
}

func (p *Prog) loops() map[*a.While]*Stmt {
	if p.loopMap == nil {
		p.loopMap = map[*a.While]*Stmt{}
	}
	return p.loopMap
}

func (lw *lowerer) ifStmt(s *Stmt, n *a.If) {
	s.K = SIf
	s.Cond = lw.expr(n.Condition())
	markStmtPos(s.Cond)
	s.Then = lw.block(n.BodyIfTrue())
	s.ThenTerm = a.Terminates(n.BodyIfTrue())
	cl, ok := lw.p.closer[s.Line]
	if !ok {
		unsupported("if at line %d: header must end with '{' on the same line", s.Line)
	}
	s.ThenEnd = cl
	if ei := n.ElseIf(); ei != nil {
		// "} else if c {" sits on line cl.
		es := &Stmt{Line: cl, Node: ei.AsNode(), Fn: lw.fn}
		lw.p.nStmts++
		lw.ifStmt(es, ei)
		s.ElseIf = es
	} else if len(n.BodyIfFalse()) > 0 {
		s.Else = lw.block(n.BodyIfFalse())
		s.ElseTerm = a.Terminates(n.BodyIfFalse())
		ecl, ok := lw.p.closer[cl]
		if !ok {
			unsupported("else at line %d: '} else {' expected", cl)
		}
		s.ElseEnd = ecl
	}
}

// bigOf is a helper for messages.
func bigOf(x *big.Int) string {
	if x == nil {
		return "nil"
	}
	return x.String()
}
