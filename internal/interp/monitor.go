package interp

import (
	"fmt"
	"sort"
	"strings"

	t "github.com/google/wuffs/lang/token"
)

// EvalPure evaluates e in frame fr without side effects on the machine's
// violation state: a failing evaluation returns ok == false.
func (m *Machine) EvalPure(fr *frame, e *Expr) (v Value, ok bool) {
	savedViol, savedBug, savedStmt, savedWhere := m.Viol, m.Bug, m.curStmt, m.where
	savedEvent, savedResume, savedSusp := m.lastEvent, m.resume, m.suspended
	savedCB, savedMon := m.CheckBounds, m.Mon
	m.CheckBounds, m.Mon = false, nil
	m.pure++
	defer func() {
		m.pure--
		m.CheckBounds, m.Mon = savedCB, savedMon
		if r := recover(); r != nil {
			if _, isAbort := r.(abortExec); !isAbort {
				panic(r)
			}
			v, ok = Value{}, false
		}
		m.Viol, m.Bug, m.curStmt, m.where = savedViol, savedBug, savedStmt, savedWhere
		m.lastEvent, m.resume, m.suspended = savedEvent, savedResume, savedSusp
	}()
	if e == nil {
		return Value{}, false
	}
	return m.eval(fr, e), true
}

// snapshot is a deep copy of a frame and its receiver (slices are re-pointed
// at the copied backing stores).
func snapshotFrame(fr *frame) *frame {
	remap := map[*Array]*Array{}
	cp := func(a *Array) *Array {
		if a == nil {
			return nil
		}
		if n, ok := remap[a]; ok {
			return n
		}
		n := &Array{E: append([]Int(nil), a.E...), RO: a.RO, ET: a.ET, Recv: a.Recv, owner: a.owner}
		remap[a] = n
		return n
	}
	var obj *Object
	if fr.this != nil {
		obj = &Object{SI: fr.this.SI, F: make([]Value, len(fr.this.F)), Disabled: fr.this.Disabled, Choose: fr.this.Choose}
		for i, v := range fr.this.F {
			if v.A != nil {
				v.A = cp(v.A)
			}
			obj.F[i] = v
		}
	}
	nf := &frame{fn: fr.fn, this: obj, co: fr.co, vars: make([]Value, len(fr.vars))}
	for i, v := range fr.vars {
		if v.A != nil {
			v.A = cp(v.A)
		}
		if v.O != nil && v.O == fr.this {
			v.O = obj
		}
		if v.IO != nil {
			c := *v.IO
			c.Data = append([]byte(nil), v.IO.Data...)
			v.IO = &c
		}
		nf.vars[i] = v
	}
	return nf
}

func valuesEqual(x, y Value) bool {
	if x.K != y.K {
		return false
	}
	switch x.K {
	case VInt:
		return x.I.Eq(y.I)
	case VStatus:
		return x.S == y.S
	case VArray:
		xl, xh := arrView(x)
		yl, yh := arrView(y)
		if xh-xl != yh-yl {
			return false
		}
		for i := 0; i < xh-xl; i++ {
			if !x.A.E[xl+i].Eq(y.A.E[yl+i]) {
				return false
			}
		}
		return true
	case VSlice:
		if (x.A == nil) != (y.A == nil) || x.Lo != y.Lo || x.Hi != y.Hi {
			return false
		}
		for i := x.Lo; i < x.Hi; i++ {
			if !x.A.E[i].Eq(y.A.E[i]) {
				return false
			}
		}
		return true
	case VPtr:
		return (x.O == nil && x.A == nil) == (y.O == nil && y.A == nil)
	case VIO:
		if x.IO == nil || y.IO == nil {
			return x.IO == y.IO
		}
		return x.IO.RI == y.IO.RI && x.IO.WI == y.IO.WI && x.IO.Closed == y.IO.Closed && string(x.IO.Data[:x.IO.WI]) == string(y.IO.Data[:y.IO.WI])
	}
	return true
}

// FalseFact is one C02 observation: a fact the checker lists at Line that is
// false (or cannot be evaluated) in a concrete state reaching the line.
type FalseFact struct {
	Line      int
	Fact      string
	Uneval    bool
	Signature string
	Event     string // shape of the statement / control event executed just before
	Created   bool
	Reason    string // the axiom name, when the fact was created by `assert ... via "axiom"`
}

// FactShape abstracts a fact's text: decimal literals become C.
func FactShape(s string) string {
	var sb strings.Builder
	for i := 0; i < len(s); i++ {
		c := s[i]
		if c >= '0' && c <= '9' && (i == 0 || !isIdentByte(s[i-1])) {
			for i+1 < len(s) && (s[i+1] >= '0' && s[i+1] <= '9' || s[i+1] == 'x' || s[i+1] >= 'A' && s[i+1] <= 'F' || s[i+1] == '_') {
				i++
			}
			sb.WriteByte('C')
			continue
		}
		sb.WriteByte(c)
	}
	return sb.String()
}

func isIdentByte(c byte) bool {
	return c == '_' || c >= '0' && c <= '9' || c >= 'a' && c <= 'z' || c >= 'A' && c <= 'Z'
}

// FactMonitor evaluates the checker's fact list at every program point.
type FactMonitor struct {
	P      *Prog
	Oracle *FactOracle

	// Diagnose: keep snapshots so that signatures can be computed (slow mode).
	Diagnose bool

	Pairs    int64 // (point, fact) evaluations
	Points   int64 // program points visited (including deduplicated ones)
	States   int64 // distinct (line, store hash) pairs
	Uneval   int64
	NFalse   int64
	Problems []string // probe / lowering problems (harness-level)
	Shapes   map[string]int64

	seen u64set
	flat bool
	// StatesCapped: the visited-state set is full; States is then a lower bound.
	StatesCapped bool

	// per execution
	False     []*FalseFact
	reported  map[string]bool
	prevFacts *PointFacts // of the current frame (set in AtPoint)
	prevFrame *frame
	// LastPoint is the most recent point visited (for C01 blame).
	LastLine       int
	LastFalse      []*FalseFact // facts false at the most recent point
	falseAtCurrent []*FalseFact
}

type prevInfo struct {
	facts     *PointFacts
	snap      *frame
	lastFalse []*FalseFact // facts false at the most recent point of this frame
	// knownFalse: facts already reported false in this frame (kept across a
	// suspension, so that a resumed frame does not report them again).
	knownFalse map[string]bool
	// sig: signature of each fact at the first point of this frame where it was false (Diagnose mode).
	sig    map[string]string
	reason map[string]string
}

func NewFactMonitor(p *Prog, fo *FactOracle) *FactMonitor {
	return &FactMonitor{P: p, Oracle: fo, Shapes: map[string]int64{}}
}

// BeginExecution resets the per-execution state.
func (fm *FactMonitor) BeginExecution() {
	fm.False = nil
	fm.reported = nil
	fm.prevFacts, fm.prevFrame = nil, nil
	fm.LastLine, fm.LastFalse = 0, nil
}

func frameHash(line int, fr *frame) uint64 {
	h := uint64(14695981039346656037)
	h = I64(int64(line)).Hash64(h)
	for _, v := range fr.vars {
		h = hashValue(h, v)
	}
	if fr.this != nil {
		for _, v := range fr.this.F {
			h = hashValue(h, v)
		}
	}
	return h
}

func (fm *FactMonitor) AtPoint(m *Machine, f *Frame, line int, ev Event) {
	fr := f
	fm.Points++
	pf := fm.P.pointFacts(fm.Oracle, line)
	if pf.Err != "" {
		if len(fm.Problems) < 8 {
			fm.Problems = append(fm.Problems, fmt.Sprintf("line %d: %s", line, pf.Err))
		}
		fr.mon = nil
		return
	}
	pi := fr.mon
	if pi == nil {
		pi = &prevInfo{}
		fr.mon = pi
	}
	fm.prevFacts, fm.prevFrame = pi.facts, pi.snap
	if len(pf.Bad) > 0 && len(fm.Problems) < 8 {
		fm.Problems = append(fm.Problems, pf.Bad...)
	}
	fm.LastLine = line
	fm.LastFalse = nil
	pi.lastFalse = nil
	if !fm.Diagnose {
		h := frameHash(line, fr)
		dup, full := fm.seen.insert(h)
		if dup {
			pi.facts = pf
			return
		}
		if full {
			fm.StatesCapped = true
		} else {
			fm.States++
		}
	}
	// Only the facts false at the FIRST point of an execution at which any fact
	// is false are reported: later false facts are usually rewrites of those.
	firstFalsePoint := len(fm.False) == 0
	for i, fe := range pf.Facts {
		if fe == nil {
			continue
		}
		fm.Pairs++
		v, ok := m.EvalPure(fr, fe)
		if ok && v.K == VInt && v.I.Sign() != 0 {
			continue
		}
		ff := &FalseFact{Line: line, Fact: pf.Strs[i], Uneval: !ok}
		if !ok {
			fm.Uneval++
		}
		fm.NFalse++
		fm.LastFalse = append(fm.LastFalse, ff)
		pi.lastFalse = append(pi.lastFalse, ff)
		if fm.Diagnose {
			if pi.sig == nil {
				pi.sig, pi.reason = map[string]string{}, map[string]string{}
			}
			if sg, ok := pi.sig[ff.Fact]; ok {
				ff.Signature, ff.Reason = sg, pi.reason[ff.Fact]
			} else {
				fm.sign(m, fr, ff, fe, pf, ev)
				pi.sig[ff.Fact], pi.reason[ff.Fact] = ff.Signature, ff.Reason
			}
		}
		if fm.reported[ff.Fact] || !firstFalsePoint || pi.knownFalse[ff.Fact] {
			continue
		}
		if pi.knownFalse == nil {
			pi.knownFalse = map[string]bool{}
		}
		pi.knownFalse[ff.Fact] = true
		if fm.reported == nil {
			fm.reported = map[string]bool{}
		}
		fm.reported[ff.Fact] = true
		fm.False = append(fm.False, ff)
	}
	if fm.Diagnose {
		pi.snap = snapshotFrame(fr)
	}
	pi.facts = pf
}

// ---------------------------------------------------------------- signatures

func roleOf(e *Expr) string {
	switch e.Op {
	case OLocal:
		switch {
		case e.Typ == nil:
			return "V"
		case e.Typ.K == TSlice:
			return "S"
		case e.Typ.K == TArray:
			return "A"
		case e.Typ.K == TPtr:
			return "Q"
		case e.Typ.K == TIOReader || e.Typ.K == TIOWriter:
			return "IO"
		case e.Typ.K == TStatus:
			return "T"
		}
		return "V"
	case OArg:
		if e.Typ != nil {
			switch e.Typ.K {
			case TSlice:
				return "PS"
			case TPtr:
				return "PQ"
			case TIOReader, TIOWriter:
				return "PIO"
			}
		}
		return "P"
	case OField:
		if e.Slot < 0 {
			return "M"
		}
		if e.Typ != nil && e.Typ.K == TArray {
			return "A"
		}
		return "F"
	case OThis:
		return "this"
	case OIndex:
		return roleOf(e.L) + "[]"
	case OSlice:
		return roleOf(e.L) + "[..]"
	}
	return ""
}

func isLvalueLeaf(e *Expr) bool {
	switch e.Op {
	case OLocal, OArg:
		return true
	case OField:
		return e.Slot >= 0
	}
	return false
}

// cmpShape renders a comparison with the operator collapsed to "~" and the
// sides in lexicographic order: which of < <= == <> >= > it was, and which side
// the changed lvalue stood on, does not distinguish root causes.
func cmpShape(l, r string) string {
	if r < l {
		l, r = r, l
	}
	return l + " ~ " + r
}

// collectRoles gathers the role classes of changed lvalues inside e.
func (fm *FactMonitor) collectRoles(m *Machine, cur, prev *frame, e *Expr, out map[string]bool, onlyChanged bool) {
	if e == nil {
		return
	}
	if isLvalueLeaf(e) || e.Op == OIndex {
		if !onlyChanged || fm.changed(m, cur, prev, e) {
			if r := roleOf(e); r != "" {
				out[r] = true
			}
		}
		if e.Op == OIndex {
			fm.collectRoles(m, cur, prev, e.R, out, onlyChanged)
		}
		return
	}
	fm.collectRoles(m, cur, prev, e.L, out, onlyChanged)
	fm.collectRoles(m, cur, prev, e.M, out, onlyChanged)
	fm.collectRoles(m, cur, prev, e.R, out, onlyChanged)
	for _, x := range e.Args {
		fm.collectRoles(m, cur, prev, x, out, onlyChanged)
	}
}

func (fm *FactMonitor) changed(m *Machine, cur, prev *frame, e *Expr) bool {
	if prev == nil {
		return false
	}
	if e.Op == OConst || e.Op == OStatus || e.Op == ONull {
		return false
	}
	a, ok1 := m.EvalPure(cur, e)
	b, ok2 := m.EvalPure(prev, e)
	if !ok1 || !ok2 {
		return true
	}
	return !valuesEqual(a, b)
}

func rolesString(rs map[string]bool) string {
	var l []string
	for r := range rs {
		l = append(l, r)
	}
	sort.Strings(l)
	return strings.Join(l, ",")
}

// abstractFact implements DESIGN C02 "abstract(F)": maximal sub-expressions
// whose value the last statement did not change become E; changed lvalues
// become their role class; other changed composites become f(<roles>).
func (fm *FactMonitor) abstractFact(m *Machine, cur, prev *frame, e *Expr, top bool) string {
	if e == nil {
		return "_"
	}
	switch e.Op {
	case ONe, OLt, OLe, OEq, OGe, OGt:
		return cmpShape(fm.abstractFact(m, cur, prev, e.L, false), fm.abstractFact(m, cur, prev, e.R, false))
	case OLAnd, OLOr:
		return "(" + fm.abstractFact(m, cur, prev, e.L, false) + " " + e.Op.String() + " " + fm.abstractFact(m, cur, prev, e.R, false) + ")"
	case ONot:
		return "not (" + fm.abstractFact(m, cur, prev, e.R, false) + ")"
	case OAs, OPos:
		if e.L != nil {
			return fm.abstractFact(m, cur, prev, e.L, false)
		}
		return fm.abstractFact(m, cur, prev, e.R, false)
	}
	if !fm.changed(m, cur, prev, e) {
		return "E"
	}
	if isLvalueLeaf(e) || e.Op == OIndex {
		return roleOf(e)
	}
	if e.Op == OCall {
		rs := map[string]bool{}
		fm.collectRoles(m, cur, prev, e, rs, false)
		kind := e.Meth
		if e.Callee != nil {
			kind = "call"
		}
		return kind + "(" + rolesString(rs) + ")"
	}
	rs := map[string]bool{}
	fm.collectRoles(m, cur, prev, e, rs, true)
	if fm.flat {
		// Stale facts: a composite over a changed lvalue is the same root cause
		// as the lvalue itself.
		return rolesString(rs)
	}
	return "f(" + rolesString(rs) + ")"
}

// staticFact abstracts a fact when the preceding event changed nothing (a
// control event): lvalues become roles, constants C, composites f(<roles>).
func (fm *FactMonitor) staticFact(e *Expr) string {
	if e == nil {
		return "_"
	}
	switch e.Op {
	case ONe, OLt, OLe, OEq, OGe, OGt:
		return cmpShape(fm.staticFact(e.L), fm.staticFact(e.R))
	case OLAnd, OLOr:
		return "(" + fm.staticFact(e.L) + " " + e.Op.String() + " " + fm.staticFact(e.R) + ")"
	case ONot:
		return "not (" + fm.staticFact(e.R) + ")"
	case OAs:
		return fm.staticFact(e.L)
	case OConst:
		if e.Val.I.Sign() == 0 {
			return "0"
		}
		return "C"
	case OStatus, ONull:
		return "C"
	}
	if isLvalueLeaf(e) || e.Op == OIndex {
		return roleOf(e)
	}
	rs := map[string]bool{}
	fm.collectRoles(nil, nil, nil, e, rs, false)
	if e.Op == OCall {
		kind := e.Meth
		if e.Callee != nil {
			kind = "call"
		}
		return kind + "(" + rolesString(rs) + ")"
	}
	return "f(" + rolesString(rs) + ")"
}

// mentionsLvalue reports whether e structurally mentions the lvalue l.
func mentionsLvalue(e, l *Expr) bool {
	if e == nil {
		return false
	}
	if e.Op == l.Op && (e.Op == OLocal || e.Op == OArg || (e.Op == OField && e.L == nil && l.L == nil)) && e.Slot == l.Slot {
		return true
	}
	if l.Op == OIndex && e.Op == OIndex && mentionsLvalue(e.L, l.L) {
		return true
	}
	if mentionsLvalue(e.L, l) || mentionsLvalue(e.M, l) || mentionsLvalue(e.R, l) {
		return true
	}
	for _, x := range e.Args {
		if mentionsLvalue(x, l) {
			return true
		}
	}
	return false
}

func callKind(e *Expr) string {
	if e.Callee != nil {
		switch {
		case e.Effect.Coroutine():
			return "coro-call"
		case e.Effect.Impure():
			return "impure-call"
		}
		return "pure-call"
	}
	rk := ""
	if e.L != nil && e.L.Typ != nil {
		switch e.L.Typ.K {
		case TIOReader:
			rk = "reader."
		case TIOWriter:
			rk = "writer."
		case TSlice:
			rk = "slice."
		case TInt:
			rk = "num."
		case TStatus:
			rk = "status."
		}
	}
	s := rk + e.Meth
	switch {
	case e.Effect.Coroutine():
		s += "?"
	case e.Effect.Impure():
		s += "!"
	}
	return s
}

// StmtShape is DESIGN C02 "shape(S)".
func StmtShape(s *Stmt) string {
	if s == nil {
		return "entry"
	}
	switch s.K {
	case SVar:
		return "var"
	case SAssert:
		if s.Assert.Reason != "" {
			return "assert-via"
		}
		return "assert"
	case SRet:
		if s.Yield {
			return "yield"
		}
		return "return"
	case SChoose:
		return "choose"
	case SIOManip:
		return s.IOKw
	case SIf:
		return "if"
	case SIterate:
		return "iterate"
	case SWhile:
		return "while"
	case SJump:
		if s.Break {
			return "break"
		}
		return "continue"
	case SAssign:
		rhs := "E"
		switch {
		case s.RHS.Op == OCall:
			rhs = callKind(s.RHS)
		case s.LHS != nil && mentionsLvalue(s.RHS, s.LHS):
			rhs = "f(" + roleOf(s.LHS) + ")"
		case s.RHS.Op == OSlice:
			rhs = roleOf(s.RHS)
		case s.RHS.Op == OAs && s.RHS.L != nil && s.RHS.L.Op == OSlice:
			rhs = "(" + roleOf(s.RHS.L) + " as ptr)"
		}
		if s.LHS == nil {
			return rhs
		}
		op := "="
		switch s.AOp {
		case t.IDEq:
		case t.IDEqQuestion:
			op = "=?"
		default:
			op = s.BinOp.String() + "="
		}
		return roleOf(s.LHS) + " " + op + " " + rhs
	}
	return "stmt"
}

func eventShape(ev Event) string {
	switch ev.Kind {
	case "stmt":
		return StmtShape(ev.Stmt)
	case "", "entry":
		return "entry"
	}
	return ev.Kind
}

func (fm *FactMonitor) sign(m *Machine, fr *frame, ff *FalseFact, fe *Expr, pf *PointFacts, ev Event) {
	created := true
	if fm.prevFacts != nil {
		for _, s := range fm.prevFacts.Strs {
			if s == ff.Fact {
				created = false
				break
			}
		}
	}
	ff.Created = created
	ff.Event = eventShape(ev)
	if created && ev.Kind == "stmt" && ev.Stmt != nil && ev.Stmt.K == SAssert && ev.Stmt.Assert.Reason != "" {
		ff.Reason = ev.Stmt.Assert.Reason
	}
	abs := ""
	anyChanged := fm.prevFrame != nil && fm.changed(m, fr, fm.prevFrame, fe.L) || (fm.prevFrame != nil && fe.R != nil && fm.changed(m, fr, fm.prevFrame, fe.R))
	if ev.Kind == "stmt" && fm.prevFrame != nil && anyChanged {
		fm.flat = !created
		abs = fm.abstractFact(m, fr, fm.prevFrame, fe, true)
	} else {
		abs = fm.staticFact(fe)
	}
	cs := "stale"
	if created {
		cs = "created"
	}
	if ff.Uneval {
		cs += "/uneval"
	}
	ff.Signature = cs + ", " + ff.Event + ", " + abs
	fm.Shapes[abs]++
}

// u64set is an open-addressing set of non-zero uint64 keys with a size cap.
type u64set struct {
	tab []uint64
	n   int
}

const u64setMax = 1 << 18

// insert adds h; it reports whether h was already present, and whether the
// set is full (h was not recorded).
func (s *u64set) insert(h uint64) (dup bool, full bool) {
	if h == 0 {
		h = 1
	}
	if s.tab == nil {
		s.tab = make([]uint64, 1024)
	}
	mask := uint64(len(s.tab) - 1)
	i := mix64(h) & mask
	for s.tab[i] != 0 {
		if s.tab[i] == h {
			return true, false
		}
		i = (i + 1) & mask
	}
	if s.n >= u64setMax {
		return false, true
	}
	s.tab[i] = h
	s.n++
	if s.n*2 > len(s.tab) {
		old := s.tab
		s.tab = make([]uint64, 2*len(old))
		mask = uint64(len(s.tab) - 1)
		for _, k := range old {
			if k == 0 {
				continue
			}
			j := mix64(k) & mask
			for s.tab[j] != 0 {
				j = (j + 1) & mask
			}
			s.tab[j] = k
		}
	}
	return false, false
}

func mix64(x uint64) uint64 {
	x ^= x >> 33
	x *= 0xff51afd7ed558ccd
	x ^= x >> 33
	x *= 0xc4ceb9fe1a85ec53
	x ^= x >> 33
	return x
}
