package interp

import (
	"encoding/hex"
	"fmt"
	"strings"
)

// ---------------------------------------------------------------- argument domains

// ArgSpec is a serialisable argument value.
type ArgSpec struct {
	Kind   string `json:"kind"`          // int, slice, null, obj, reader, writer
	Int    string `json:"int,omitempty"` // decimal
	Bytes  string `json:"bytes,omitempty"`
	RO     bool   `json:"ro,omitempty"`
	Closed bool   `json:"closed,omitempty"`
	Cap    int    `json:"cap,omitempty"` // writer capacity
	Struct string `json:"struct,omitempty"`
	val    *Value // cached immutable value (ints)
}

func (a ArgSpec) String() string {
	switch a.Kind {
	case "int":
		return a.Int
	case "slice":
		return "slice{" + a.Bytes + "}"
	case "reader":
		c := ""
		if a.Closed {
			c = ",closed"
		}
		return "reader{" + a.Bytes + c + "}"
	case "writer":
		return fmt.Sprintf("writer{cap=%d}", a.Cap)
	case "obj":
		return "obj{" + a.Struct + "}"
	}
	return a.Kind
}

type CallSpec struct {
	Method string    `json:"method"`
	Args   []ArgSpec `json:"args"`
}

func (c CallSpec) String() string {
	var parts []string
	for _, a := range c.Args {
		parts = append(parts, a.String())
	}
	return c.Method + "(" + strings.Join(parts, ", ") + ")"
}

func boundaryInts(ty *Type) []Int {
	var out []Int
	seen := map[string]bool{}
	add := func(v Int) {
		if inRange(v, ty) && !seen[v.String()] {
			seen[v.String()] = true
			out = append(out, v)
		}
	}
	for _, v := range []int64{0, 1, 2, 3, 4, 7, 8, 9} {
		add(I64(v))
	}
	for _, k := range []uint{8, 16, 31, 32, 63} {
		p := I64(1).Lsh(k)
		add(p.Sub(I64(1)))
		add(p)
		add(p.Add(I64(1)))
	}
	add(ty.Max.Sub(I64(1)))
	add(ty.Max)
	add(ty.Min)
	add(ty.Min.Add(I64(1)))
	if ty.Signed {
		for _, v := range []int64{-1, -2, -3, -128, -129} {
			add(I64(v))
		}
	}
	return out
}

func allInts(ty *Type) []Int {
	n, _ := ty.Max.Sub(ty.Min).Int64()
	out := make([]Int, 0, n+1)
	for v := ty.Min; v.Cmp(ty.Max) <= 0; v = v.Add(I64(1)) {
		out = append(out, v)
	}
	return out
}

type domain struct {
	full     []ArgSpec
	boundary []ArgSpec // nil if full is already small
}

// SliceContents are the caller buffers offered for slice-typed arguments.
var sliceContents = [][]byte{
	{}, {0x00}, {0xFF}, {0x01, 0x80}, {0x7F, 0x00, 0xFF}, {0x01, 0x02, 0x03, 0x04}, {0xFF, 0x80, 0x7F, 0x01, 0x00},
	{0x05, 0x04, 0x03, 0x02, 0x01, 0x00, 0xFF, 0xFE},
}

func (p *Prog) domainOf(ty *Type, fullLimit int) domain {
	ints := func(vs []Int) []ArgSpec {
		out := make([]ArgSpec, len(vs))
		for i, v := range vs {
			val := IntVal(v)
			out[i] = ArgSpec{Kind: "int", Int: v.String(), val: &val}
		}
		return out
	}
	switch ty.K {
	case TBool:
		return domain{full: ints([]Int{I64(0), I64(1)})}
	case TInt:
		size := ty.Max.Sub(ty.Min).Add(I64(1))
		if n, small := size.Int64(); small && n <= int64(fullLimit) {
			d := domain{full: ints(allInts(ty))}
			if n > 24 {
				d.boundary = ints(boundaryInts(ty))
			}
			return d
		}
		return domain{full: ints(boundaryInts(ty))}
	case TSlice:
		var out []ArgSpec
		for _, c := range sliceContents {
			out = append(out, ArgSpec{Kind: "slice", Bytes: hex.EncodeToString(c), RO: ty.RO})
		}
		return domain{full: out}
	case TPtr:
		out := []ArgSpec{}
		if ty.Nullable {
			out = append(out, ArgSpec{Kind: "null"})
		}
		if ty.Elem != nil && ty.Elem.K == TStruct {
			out = append(out, ArgSpec{Kind: "obj", Struct: ty.Elem.Struct})
		}
		return domain{full: out}
	case TIOReader:
		return domain{full: p.readerDomain()}
	case TIOWriter:
		return domain{full: p.writerDomain()}
	case TStatus:
		return domain{full: []ArgSpec{{Kind: "status", Int: ""}, {Kind: "status", Int: "#bad"}}}
	}
	return domain{}
}

// ArgTuples enumerates the argument tuples of fn per the E2 rules: the full
// product of the declared domains when it has at most maxTuples elements,
// otherwise the widest domains are replaced by their boundary alphabets (and
// the enumeration is truncated, reported by capped, if that is still too many).
func (p *Prog) ArgTuples(fn *Func, maxTuples int) (tuples [][]ArgSpec, reduced bool, capped bool) {
	doms := make([][]ArgSpec, len(fn.Args))
	bnd := make([][]ArgSpec, len(fn.Args))
	for i, a := range fn.Args {
		d := p.domainOf(a.Typ, 256)
		if len(d.full) == 0 {
			return nil, false, true
		}
		doms[i], bnd[i] = d.full, d.boundary
	}
	prod := func() int {
		n := 1
		for _, d := range doms {
			n *= len(d)
			if n > 1<<30 {
				return 1 << 30
			}
		}
		return n
	}
	for prod() > maxTuples {
		// Reduce the largest reducible domain.
		best := -1
		for i := range doms {
			if bnd[i] != nil && len(bnd[i]) < len(doms[i]) && (best < 0 || len(doms[i]) > len(doms[best])) {
				best = i
			}
		}
		if best < 0 {
			break
		}
		doms[best], bnd[best] = bnd[best], nil
		reduced = true
	}
	n := prod()
	if n > maxTuples {
		n, capped = maxTuples, true
	}
	idx := make([]int, len(doms))
	for k := 0; k < n; k++ {
		tup := make([]ArgSpec, len(doms))
		for i := range doms {
			tup[i] = doms[i][idx[i]]
		}
		tuples = append(tuples, tup)
		for i := len(doms) - 1; i >= 0; i-- {
			idx[i]++
			if idx[i] < len(doms[i]) {
				break
			}
			idx[i] = 0
		}
	}
	return tuples, reduced, capped
}

func parseInt(s string) Int {
	neg := false
	if strings.HasPrefix(s, "-") {
		neg, s = true, s[1:]
	}
	acc := Int{}
	for i := 0; i < len(s); i++ {
		acc = acc.Mul(I64(10)).Add(I64(int64(s[i] - '0')))
	}
	if neg {
		return acc.Neg()
	}
	return acc
}

// MakeArg materialises an argument value (fresh buffers for every call).
func (p *Prog) MakeArg(a ArgSpec) Value {
	if a.val != nil {
		return *a.val
	}
	switch a.Kind {
	case "int":
		return IntVal(parseInt(a.Int))
	case "status":
		return StatusVal(a.Int)
	case "slice":
		b, _ := hex.DecodeString(a.Bytes)
		arr := &Array{E: make([]Int, len(b)), RO: a.RO}
		for i, x := range b {
			arr.E[i] = I64(int64(x))
		}
		return Value{K: VSlice, A: arr, Lo: 0, Hi: len(b)}
	case "null":
		return Value{K: VPtr}
	case "obj":
		return Value{K: VPtr, O: p.NewObject(a.Struct)}
	case "reader":
		b, _ := hex.DecodeString(a.Bytes)
		return Value{K: VIO, IO: &IOBuf{Data: b, WI: len(b), Closed: a.Closed, Lim: -1}}
	case "writer":
		return Value{K: VIO, IO: &IOBuf{Data: make([]byte, a.Cap), Writer: true, Lim: -1}}
	}
	return Value{}
}

// ---------------------------------------------------------------- public calls and traces

// Trace is the observable outcome of one public call (DESIGN E2 "trace").
type Trace struct {
	Method    string   `json:"method"`
	Args      []string `json:"args"`
	Ret       string   `json:"ret"`               // returned value ("" if none) or status text ("ok", "$short read", ...)
	Suspended bool     `json:"suspended"`         // the call ended in a suspension
	IO        []string `json:"io,omitempty"`      // per I/O argument: name ri=.. wi=.. closed=.. written=<hex>
	Fields    []string `json:"fields"`            // receiver field dump after the call
	Skipped   string   `json:"skipped,omitempty"` // call not executed (disabled receiver, interleaved coroutine)
}

func (o *Object) FieldDump() []string {
	out := make([]string, len(o.F))
	for i, v := range o.F {
		out[i] = o.SI.Fields[i].Name + "=" + v.String()
	}
	return out
}

// CallResult is what CallPublic returns.
type CallResult struct {
	Ret       Value
	Suspended bool
	Trace     Trace
	Viol      *Violation
	Bug       string
	Hung      bool
}

// CallPublic performs one public call with the envelope of generated code:
// a disabled receiver refuses impure calls, an error status disables it.
func (m *Machine) CallPublic(obj *Object, fn *Func, spec CallSpec) (res CallResult) {
	args := make([]Value, len(spec.Args))
	for i, a := range spec.Args {
		args[i] = m.P.MakeArg(a)
	}
	return m.CallPublicValues(obj, fn, spec, args)
}

func (m *Machine) CallPublicValues(obj *Object, fn *Func, spec CallSpec, args []Value) (res CallResult) {
	if m.WantTrace {
		res.Trace.Method = fn.Name
		for _, a := range spec.Args {
			res.Trace.Args = append(res.Trace.Args, a.String())
		}
	}
	m.Viol, m.Bug, m.Hung = nil, "", false
	m.stepsInRun = 0
	m.depth = 0
	m.resume, m.suspended = nil, nil
	for _, f := range m.P.Order {
		f.active = 0
	}
	statusRet := fn.Effect.Coroutine() || (fn.Out != nil && fn.Out.K == TStatus)
	if fn.Effect.Impure() {
		if obj.Disabled {
			res.Trace.Skipped = "disabled"
			if statusRet {
				res.Ret = StatusVal("#base: disabled by previous error")
				res.Trace.Ret = res.Ret.S
			} else if fn.Out != nil {
				res.Ret = m.P.ZeroValue(fn.Out)
				res.Trace.Ret = res.Ret.String()
			}
			if m.WantTrace {
				res.Trace.Fields = obj.FieldDump()
			}
			return res
		}
		if fn.Effect.Coroutine() && obj.ActiveCo != nil && obj.ActiveCo != fn {
			res.Trace.Skipped = "interleaved"
			res.Ret = StatusVal("#base: interleaved coroutine calls")
			res.Trace.Ret = res.Ret.S
			obj.Disabled = true
			if m.WantTrace {
				res.Trace.Fields = obj.FieldDump()
			}
			return res
		}
	}
	func() {
		defer func() {
			if r := recover(); r != nil {
				if _, ok := r.(abortExec); !ok {
					panic(r)
				}
			}
		}()
		var cs *CoroState
		var nf *frame
		if fn.Effect.Coroutine() && obj.Coro != nil && obj.Coro[fn] != nil {
			cs = obj.Coro[fn]
			delete(obj.Coro, fn)
			nf = &frame{fn: fn, this: obj, vars: cs.vars, co: cs}
			copy(nf.vars, args)
			poisonPointers(fn, nf.vars)
		} else {
			nf = m.newFrame(fn, obj, args)
		}
		v, susp := m.runFrame(nf, cs)
		res.Ret, res.Suspended = v, susp
	}()
	res.Viol, res.Bug, res.Hung = m.Viol, m.Bug, m.Hung
	if res.Viol != nil || res.Bug != "" || res.Hung {
		return res
	}
	if fn.Effect.Coroutine() {
		if res.Suspended {
			obj.ActiveCo = fn
		} else {
			obj.ActiveCo = nil
		}
	}
	// Generated code disables the receiver on an error status in the epilogue of
	// public coroutines and of status-returning methods that take I/O arguments
	// (internal/cgen/func.go writeFuncImplEpilogue).
	hasIO := false
	for _, a := range fn.Args {
		if a.Typ.K == TIOReader || a.Typ.K == TIOWriter {
			hasIO = true
		}
	}
	if (fn.Effect.Coroutine() || (statusRet && hasIO)) && res.Ret.K == VStatus && strings.HasPrefix(res.Ret.S, "#") {
		obj.Disabled = true
	}
	if !m.WantTrace {
		return res
	}
	switch {
	case statusRet:
		res.Trace.Ret = res.Ret.String()
	case fn.Out != nil:
		res.Trace.Ret = res.Ret.String()
	}
	res.Trace.Suspended = res.Suspended
	for i, a := range args {
		if a.K == VIO && a.IO != nil {
			b := a.IO
			s := fmt.Sprintf("%s ri=%d wi=%d closed=%v", fn.Args[i].Name, b.RI, b.WI, b.Closed)
			if b.Writer {
				s += " written=" + hex.EncodeToString(b.Data[:b.WI])
			}
			res.Trace.IO = append(res.Trace.IO, s)
		}
	}
	res.Trace.Fields = obj.FieldDump()
	return res
}

// ---------------------------------------------------------------- exploration

type ExploreOptions struct {
	Depth     int // prior public calls (DESIGN: 2)
	MaxExec   int // executions per program
	MaxStates int // distinct receiver states per program
	MaxTuples int // argument tuples per method
	Bounds    bool
	Trace     bool        // build Trace records (needed by C04/C05 consumers)
	Pure      bool        // purity monitor (C10): pure methods leave receiver and buffers unchanged
	Facts     *FactOracle // non-nil: evaluate the checker's fact lists at every point (C02)
	// OnExec is called after every execution.
	OnExec func(x *Execution)
}

type Execution struct {
	History []CallSpec
	Call    CallSpec
	Result  CallResult
	False   []*FalseFact
}

type ExploreStats struct {
	Executions   int64
	RecvStates   int64
	Steps        int64
	Evals        int64
	BoundsN      int64
	ConstN       int64
	Pairs        int64
	PointVisits  int64
	PointStates  int64
	Uneval       int64
	Hung         int64
	CappedExec   bool
	CappedStates bool
	CappedTuples bool
	Reduced      bool
	Problems     []string
	Bugs         []string
	Suspensions  int64
	PureCalls    int64 // calls of pure methods bracketed by the purity monitor
}

type recvNode struct {
	obj   *Object
	hist  []CallSpec
	depth int
}

// PublicMethods lists the public methods in source order.
func (p *Prog) PublicMethods() []*Func {
	var out []*Func
	for _, f := range p.Order {
		if f.Public {
			out = append(out, f)
		}
	}
	return out
}

// MainStruct is the receiver of the first public method.
func (p *Prog) MainStruct() string {
	for _, f := range p.Order {
		if f.Public {
			return f.Recv
		}
	}
	for _, f := range p.Order {
		return f.Recv
	}
	return ""
}

// Explore runs every public method with every argument tuple from every
// receiver state reachable by at most opt.Depth prior public calls.
func Explore(p *Prog, opt ExploreOptions) *ExploreStats {
	st := &ExploreStats{}
	m := NewMachine(p)
	m.CheckBounds = opt.Bounds
	m.WantTrace = opt.Trace
	m.CheckPure = opt.Pure
	var fm *FactMonitor
	if opt.Facts != nil {
		fm = NewFactMonitor(p, opt.Facts)
		m.Mon = fm
	}
	methods := p.PublicMethods()
	tuples := make([][][]ArgSpec, len(methods))
	for i, f := range methods {
		tp, red, cap := p.ArgTuples(f, opt.MaxTuples)
		tuples[i] = tp
		st.Reduced = st.Reduced || red
		st.CappedTuples = st.CappedTuples || cap
	}
	root := p.NewObject(p.MainStruct())
	if root == nil {
		st.Bugs = append(st.Bugs, "no receiver struct")
		return st
	}
	seen := map[uint64]bool{root.Hash(): true}
	queue := []recvNode{{obj: root}}
	st.RecvStates = 1
	for qi := 0; qi < len(queue); qi++ {
		n := queue[qi]
		for mi, f := range methods {
			if f.Recv != root.SI.Name {
				continue
			}
			for _, tup := range tuples[mi] {
				if st.Executions >= int64(opt.MaxExec) {
					st.CappedExec = true
					goto done
				}
				obj := n.obj.Clone()
				spec := CallSpec{Method: f.Name, Args: tup}
				if fm != nil {
					fm.BeginExecution()
				}
				res := m.CallPublic(obj, f, spec)
				st.Executions++
				if res.Bug != "" && len(st.Bugs) < 4 {
					st.Bugs = append(st.Bugs, res.Bug+" in "+spec.String())
				}
				if res.Hung {
					st.Hung++
				}
				if res.Suspended {
					st.Suspensions++
				}
				if opt.OnExec != nil {
					x := &Execution{History: n.hist, Call: spec, Result: res}
					if fm != nil {
						x.False = fm.False
					}
					opt.OnExec(x)
				}
				if res.Viol != nil || res.Bug != "" || res.Hung {
					continue
				}
				if n.depth < opt.Depth {
					h := obj.Hash()
					if !seen[h] {
						if len(seen) >= opt.MaxStates {
							st.CappedStates = true
							continue
						}
						seen[h] = true
						st.RecvStates++
						hist := append(append([]CallSpec(nil), n.hist...), spec)
						queue = append(queue, recvNode{obj: obj, hist: hist, depth: n.depth + 1})
					}
				}
			}
		}
	}
done:
	st.Steps, st.Evals, st.BoundsN, st.ConstN = m.Steps, m.Evals, m.BoundsN, m.ConstN
	st.PureCalls = m.PureCalls
	if fm != nil {
		st.Pairs, st.PointVisits, st.PointStates, st.Uneval = fm.Pairs, fm.Points, fm.States, fm.Uneval
		st.Problems = fm.Problems
	}
	return st
}

// ---------------------------------------------------------------- diagnosis / replay

// Diagnosis is the result of re-executing one history linearly with all
// monitors in diagnostic mode.
type Diagnosis struct {
	Traces  []Trace
	Viol    *Violation
	False   []*FalseFact // with signatures
	C01Sig  string
	Bug     string
	Hung    bool
	Lines   []string // human-readable observations
	Problem []string
}

func typeShape(e *Expr) string {
	if e == nil {
		return "_"
	}
	if e.CV != nil {
		return "c"
	}
	if e.Typ == nil {
		return "?"
	}
	switch e.Typ.K {
	case TInt:
		if e.Typ.Signed {
			return "i"
		}
		return "u"
	case TBool:
		return "bool"
	case TSlice:
		return "slice"
	case TArray:
		return "array"
	case TPtr:
		return "ptr"
	case TIdeal:
		return "c"
	}
	return "?"
}

// BoundsShape names the operator and operand type shapes of a node whose
// value fell outside its MBounds although every operand was inside its own.
func BoundsShape(e *Expr) string {
	switch e.Op {
	case OLocal, OArg, OField:
		return "refine:" + roleOf(e) + ":" + typeShape(e)
	case OCall:
		return callKind(e) + ":" + typeShape(e.L)
	case OAssoc:
		return "assoc" + e.Sub.String()
	case OAs:
		return "as:" + typeShape(e.L) + "->" + typeShape(&Expr{Typ: e.AsTyp})
	case OIndex:
		return "index:" + typeShape(e.L)
	case ONeg, OPos, ONot:
		return e.Op.String() + ":" + typeShape(e.R)
	}
	return e.Op.String() + ":" + typeShape(e.L) + "," + typeShape(e.R)
}

// C01Signature computes the blame-site signature of a safety / MBounds violation.
func C01Signature(v *Violation, fm *FactMonitor) string {
	var lastFalse []*FalseFact
	if v.frame != nil && v.frame.mon != nil {
		lastFalse = v.frame.mon.lastFalse
	}
	if fm != nil && len(lastFalse) > 0 {
		ff := lastFalse[0]
		if ff.Reason != "" {
			return "false-fact: axiom:" + ff.Reason
		}
		if ff.Signature != "" {
			return "false-fact: " + ff.Signature
		}
		return "false-fact: " + FactShape(ff.Fact)
	}
	if v.Kind == "mbounds" && v.Node != nil {
		return "op-bounds:" + BoundsShape(v.Node)
	}
	if v.Kind == "load-range" {
		// A refined element that was never stored to: the root cause is the
		// declaration of the object, not the statement that reads it.
		return "obligation:load-range:" + v.Obj
	}
	shape := StmtShape(v.Stmt)
	if v.Where != "stmt" && v.Where != "" {
		shape = v.Where
	}
	return "obligation:" + v.Kind + ":" + shape
}

// DiagnoseWithoutBounds switches the MBounds monitor off in Diagnose (developer
// tool: shows which safety obligation fails once a wrong range is ignored).
var DiagnoseWithoutBounds bool

// Diagnose re-executes history + call on a fresh receiver with snapshots on.
func Diagnose(p *Prog, fo *FactOracle, history []CallSpec, call CallSpec) *Diagnosis {
	d := &Diagnosis{}
	m := NewMachine(p)
	m.CheckBounds = !DiagnoseWithoutBounds
	m.WantTrace = true
	fm := NewFactMonitor(p, fo)
	fm.Diagnose = true
	m.Mon = fm
	obj := p.NewObject(p.MainStruct())
	calls := append(append([]CallSpec(nil), history...), call)
	for i, c := range calls {
		fn := p.Funcs[obj.SI.Name+"."+c.Method]
		if fn == nil {
			d.Bug = "no method " + c.Method
			return d
		}
		fm.BeginExecution()
		res := m.CallPublic(obj, fn, c)
		d.Traces = append(d.Traces, res.Trace)
		d.Lines = append(d.Lines, fmt.Sprintf("call %d: %s -> ret=%q suspended=%v fields=%v", i, c.String(), res.Trace.Ret, res.Suspended, res.Trace.Fields))
		for _, ff := range fm.False {
			d.Lines = append(d.Lines, fmt.Sprintf("  false fact at line %d: %s  [%s]", ff.Line, ff.Fact, ff.Signature))
		}
		d.False = append(d.False, fm.False...)
		if res.Viol != nil {
			d.Viol = res.Viol
			d.C01Sig = C01Signature(res.Viol, fm)
			d.Lines = append(d.Lines, "  violation: "+res.Viol.String()+"  ["+d.C01Sig+"]")
			break
		}
		if res.Bug != "" {
			d.Bug = res.Bug
			break
		}
		if res.Hung {
			d.Hung = true
			break
		}
	}
	d.Problem = fm.Problems
	return d
}
