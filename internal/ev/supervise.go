package ev

import (
	"bytes"
	"crypto/sha1"
	"encoding/hex"
	"encoding/json"
	"fmt"
	"io"
	"os"
	"os/exec"
	"path/filepath"
	"strconv"
	"strings"
	"sync"
	"syscall"
	"time"
)

// MemLimitGB, when set by a check's init(), caps the address space of the check
// process (prlimit --as) so that a decoder that trusts a hostile length field dies
// inside the check instead of taking the machine down. 0 = no cap. Do not set it in
// checks that start children needing a huge address space (-race binaries).
var MemLimitGB int

// supervise makes every check a two-process affair: the parent re-executes the
// binary as the worker (VERIF_CHILD=1) and only watches it. A worker that ends
// with exit status 0 or 1 is passed through. A worker that DIES — Go "fatal error"
// (out of memory, stack overflow, all goroutines asleep, concurrent map writes),
// an unrecovered panic, a signal — is the code under test misbehaving in a way
// recover() cannot catch, provided the crashing goroutine's innermost non-runtime
// frame is in github.com/google/wuffs: that is reported as a VIOLATION (exit 1) with
// the crash head as the witness. Anything else that dies is a harness error (exit 2).
func supervise(id string) {
	if os.Getenv("VERIF_CHILD") == "1" || os.Getenv("VERIF_NO_SUPERVISOR") != "" {
		return
	}
	exe, err := os.Executable()
	if err != nil {
		return
	}
	start := time.Now()
	args := os.Args[1:]
	attempt := 0
retry:
	attempt++
	var cmd *exec.Cmd
	if MemLimitGB > 0 {
		if pl, err := exec.LookPath("prlimit"); err == nil {
			cmd = exec.Command(pl, append([]string{"--as=" + strconv.Itoa(MemLimitGB<<30), exe}, args...)...)
		}
	}
	if cmd == nil {
		cmd = exec.Command(exe, args...)
	}
	cmd.Env = append(os.Environ(), "VERIF_CHILD=1")
	cmd.Stdin, cmd.Stdout = os.Stdin, os.Stdout
	cmd.SysProcAttr = &syscall.SysProcAttr{Pdeathsig: syscall.SIGKILL}
	keep := &headTail{head: 24 << 10, tail: 8 << 10}
	cmd.Stderr = io.MultiWriter(os.Stderr, keep)
	err = cmd.Run()
	code := 0
	if err != nil {
		if ee, ok := err.(*exec.ExitError); ok {
			code = ee.ExitCode() // -1 for a signal
		} else {
			fmt.Fprintf(os.Stderr, "HARNESS-ERROR: cannot run the check worker: %v\n", err)
			os.Exit(2)
		}
	}
	if code == 0 || code == 1 {
		os.Exit(code)
	}
	text := keep.String()
	headline, frame, inSUT := classifyCrash(text)
	// A heap inconsistency detected BY the garbage collector ("found pointer to free object", "marked
	// free object", "found bad pointer in Go heap") is raised on whichever goroutine happens to be
	// assisting the collector at that moment, so its stack says nothing about who is responsible.
	gcDetected := strings.Contains(headline, "found pointer to free object") || strings.Contains(headline, "found bad pointer") ||
		strings.Contains(text, "marked free object in span")
	if gcDetected {
		inSUT, frame = false, ""
	}
	if !inSUT && frame == "" && attempt < 3 && (strings.HasPrefix(headline, "SIGSEGV") || strings.HasPrefix(headline, "fatal error: ") || strings.HasPrefix(headline, "unexpected fault")) {
		// The crashing goroutine has no frame outside the Go runtime (seen twice in ~10^3 runs on the
		// overloaded machine: SIGSEGV in runtime.(*mheap).freeManual called from the background
		// sweeper, once in a check that has no cgo at all). Nothing of the check or of the code under
		// test is on that stack, the checks are deterministic, so the run is simply repeated; a
		// crash that persists is still reported as a harness error.
		fmt.Fprintf(os.Stderr, "NOTE: check worker crashed inside the Go runtime (%s); repeating the run (attempt %d)\n", headline, attempt+1)
		goto retry
	}
	if !inSUT {
		fmt.Fprintf(os.Stderr, "HARNESS-ERROR: check worker ended with status %d (%s); innermost frame %q is not in the code under test\n", code, headline, frame)
		os.Exit(2)
	}
	tier := os.Getenv("VERIF_TIER")
	if len(args) > 0 && (args[0] == "quick" || args[0] == "thorough") {
		tier = args[0]
	}
	if tier != "thorough" {
		tier = "quick"
	}
	sig := "fatal:" + headline + ":" + frame
	what := fmt.Sprintf("the check process died inside the code under test: %s in %s (not recoverable: the run could not continue)", headline, frame)
	// a listed known finding keeps its meaning here too
	if b, err := os.ReadFile(filepath.Join(Root, "known_findings.json")); err == nil {
		var fs []Finding
		if json.Unmarshal(b, &fs) == nil {
			for _, f := range fs {
				if f.Property == id && f.Status == "known" && f.Signature == sig {
					fmt.Printf("KNOWN-FINDING: property=%s %s [signature %s]\n", id, f.WhatFails, sig)
					fmt.Fprintf(os.Stderr, "HARNESS-ERROR: the run cannot be completed past a known fatal finding\n")
					os.Exit(2)
				}
			}
		}
	}
	h := sha1.Sum([]byte(sig))
	dir := filepath.Join(OutRoot(), "replays", id)
	os.MkdirAll(dir, 0o755)
	path := filepath.Join(dir, hex.EncodeToString(h[:6])+".json")
	if len(text) > 16<<10 {
		text = text[:16<<10]
	}
	b, _ := json.MarshalIndent(map[string]any{"property": id, "signature": sig, "what": what,
		"witness": map[string]any{"exit_status": code, "stderr_head": text, "args": args}}, "", " ")
	os.WriteFile(path, b, 0o644)
	fmt.Printf("VIOLATION property=%s replay=%s\n  signature: %s\n  what: %s\n", id, path, sig, what)
	seed, _ := strconv.ParseInt(os.Getenv("VERIF_SEED"), 10, 64)
	evd := map[string]any{"property_id": id, "tier": tier, "seed": seed, "level": "other", "wall_s": time.Since(start).Seconds(), "violations": 1,
		"coverage": map[string]any{"explanation": "the check worker died inside the code under test before it could finish (" + headline + " in " + frame +
			"); nothing beyond the violation is claimed by this run", "exhaustive": false, "samples": []any{sig}},
		"assumptions": []string{"a crash whose innermost non-runtime frame is in github.com/google/wuffs is attributed to the code under test"}}
	eb, _ := json.MarshalIndent(evd, "", " ")
	os.MkdirAll(filepath.Join(OutRoot(), "evidence"), 0o755)
	os.WriteFile(filepath.Join(OutRoot(), "evidence", id+".json"), append(eb, '\n'), 0o644)
	os.Exit(1)
}

// classifyCrash finds the crash headline ("fatal error: …", "panic: …", "signal …") and the
// innermost non-runtime frame of the crashing goroutine in a Go crash dump.
func classifyCrash(text string) (headline, frame string, inSUT bool) {
	lines := strings.Split(text, "\n")
	hi := -1
	for i, l := range lines {
		if strings.HasPrefix(l, "fatal error: ") || strings.HasPrefix(l, "panic: ") || strings.HasPrefix(l, "runtime: goroutine stack exceeds") || strings.HasPrefix(l, "SIGSEGV") || strings.HasPrefix(l, "unexpected fault address") {
			hi = i
			headline = strings.TrimSpace(l)
			if strings.HasPrefix(l, "runtime: goroutine stack exceeds") {
				headline = "fatal error: stack overflow"
			}
			break
		}
	}
	if hi < 0 {
		return "no Go crash dump on stderr", "", false
	}
	if len(headline) > 120 {
		headline = headline[:120]
	}
	// the first "goroutine N [...]:" block after the headline is the crashing goroutine
	gi := -1
	for i := hi; i < len(lines); i++ {
		if strings.HasPrefix(lines[i], "goroutine ") && strings.HasSuffix(strings.TrimSpace(lines[i]), ":") {
			gi = i
			break
		}
	}
	if gi < 0 {
		return headline, "", false
	}
	for i := gi + 1; i < len(lines); i++ {
		l := lines[i]
		if l == "" {
			break
		}
		if strings.HasPrefix(l, "\t") || strings.HasPrefix(l, "...") {
			continue
		}
		fn := l
		if j := strings.LastIndex(fn, "("); j > 0 {
			fn = fn[:j]
		}
		if strings.HasPrefix(fn, "runtime.") || strings.HasPrefix(fn, "runtime/") || strings.HasPrefix(fn, "panic") || strings.HasPrefix(fn, "created by") ||
			strings.HasPrefix(fn, "math/big.") || strings.HasPrefix(fn, "bytes.") || strings.HasPrefix(fn, "strings.") || strings.HasPrefix(fn, "io.") ||
			strings.HasPrefix(fn, "bufio.") || strings.HasPrefix(fn, "compress/") || strings.HasPrefix(fn, "hash/") || strings.HasPrefix(fn, "sort.") ||
			strings.HasPrefix(fn, "internal/") || strings.HasPrefix(fn, "sync.") || strings.HasPrefix(fn, "sync/") || strings.HasPrefix(fn, "fmt.") ||
			strings.HasPrefix(fn, "strconv.") || strings.HasPrefix(fn, "encoding/") || strings.HasPrefix(fn, "image") || strings.HasPrefix(fn, "slices.") {
			continue // standard library called by whoever is below
		}
		return headline, fn, strings.Contains(fn, "github.com/google/wuffs/")
	}
	return headline, "", false
}

type headTail struct {
	mu         sync.Mutex
	head, tail int
	h, t       bytes.Buffer
}

func (k *headTail) Write(p []byte) (int, error) {
	k.mu.Lock()
	defer k.mu.Unlock()
	n := len(p)
	if room := k.head - k.h.Len(); room > 0 {
		m := min(room, len(p))
		k.h.Write(p[:m])
		p = p[m:]
	}
	if len(p) > 0 {
		k.t.Write(p)
		if k.t.Len() > 2*k.tail {
			b := k.t.Bytes()
			k.t = *bytes.NewBuffer(append([]byte{}, b[len(b)-k.tail:]...))
		}
	}
	return n, nil
}

func (k *headTail) String() string {
	k.mu.Lock()
	defer k.mu.Unlock()
	if k.t.Len() == 0 {
		return k.h.String()
	}
	return k.h.String() + "\n[...]\n" + k.t.String()
}
