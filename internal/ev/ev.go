// Package ev is the plumbing shared by all checks: tier/seed handling,
// violation signatures vs known findings, replay files, evidence files,
// deterministic parallel-for and internal time budgets.
package ev

import (
	"crypto/sha1"
	"encoding/hex"
	"encoding/json"
	"fmt"
	"os"
	"path/filepath"
	"runtime"
	"sort"
	"strconv"
	"sync"
	"sync/atomic"
	"time"
)

// Root is the verification tree the check runs from: /verif, or $VERIF_ROOT (set by
// run.sh to its own directory, so that a `vp run` snapshot writes into the snapshot).
var Root = func() string {
	if r := os.Getenv("VERIF_ROOT"); r != "" {
		return r
	}
	return "/verif"
}()

// OutRoot is where evidence/ and replays/ are written: /verif, or $VERIF_OUT when a
// scratch worktree is being checked (so that /verif/evidence always describes /repo).
func OutRoot() string {
	if Repo() != "/repo" {
		if o := os.Getenv("VERIF_OUT"); o != "" {
			return o
		}
		return "/dev/shm/verif-alt-out"
	}
	return Root
}

// Repo is the wuffs tree under check: /repo, or $VERIF_REPO (a scratch worktree
// holding a candidate change; run.sh points the go.mod replace at it too).
func Repo() string {
	if r := os.Getenv("VERIF_REPO"); r != "" {
		return r
	}
	return "/repo"
}

type Finding struct {
	Property  string `json:"property"`
	Signature string `json:"signature"`
	Status    string `json:"status"` // "known" | "fixed"
	Commit    string `json:"commit,omitempty"`
	WhatFails string `json:"what_fails"`
	Witness   any    `json:"witness,omitempty"`
}

type Run struct {
	ID     string
	Tier   string
	Seed   int64
	Level  string
	start  time.Time
	budget time.Duration

	mu        sync.Mutex
	known     map[string]Finding
	seenSig   map[string]int
	knownHit  map[string]int
	nViol     int
	capped    atomic.Bool
	Counters  map[string]int64
	Hist      map[string]map[string]int64
	samples   []any
	maxSample int
}

// Start reads the tier from argv[1] (or VERIF_TIER) and the seed from VERIF_SEED.
func Start(id, level string) *Run {
	supervise(id)
	tier := os.Getenv("VERIF_TIER")
	if len(os.Args) > 1 && (os.Args[1] == "quick" || os.Args[1] == "thorough") {
		tier = os.Args[1]
	}
	if tier != "thorough" {
		tier = "quick"
	}
	seed, _ := strconv.ParseInt(os.Getenv("VERIF_SEED"), 10, 64)
	r := &Run{ID: id, Tier: tier, Seed: seed, Level: level, start: time.Now(),
		known: map[string]Finding{}, seenSig: map[string]int{}, knownHit: map[string]int{},
		Counters: map[string]int64{}, Hist: map[string]map[string]int64{}, maxSample: 12}
	if b, err := os.ReadFile(filepath.Join(Root, "known_findings.json")); err == nil {
		var fs []Finding
		if err := json.Unmarshal(b, &fs); err != nil {
			fmt.Fprintf(os.Stderr, "HARNESS-ERROR: known_findings.json: %v\n", err)
			os.Exit(2)
		}
		for _, f := range fs {
			if f.Property == id && f.Status == "known" {
				r.known[f.Signature] = f
			}
		}
	}
	r.budget = 8 * time.Minute
	if tier == "thorough" {
		r.budget = 45 * time.Minute
	}
	if s := os.Getenv("VERIF_BUDGET_S"); s != "" {
		if n, err := strconv.Atoi(s); err == nil {
			r.budget = time.Duration(n) * time.Second
		}
	}
	return r
}

func (r *Run) Thorough() bool { return r.Tier == "thorough" }

// SetBudget overrides the internal wall-clock budget (hitting it is reported as
// exhaustive:false, never as a violation).
func (r *Run) SetBudget(quick, thorough time.Duration) {
	if os.Getenv("VERIF_BUDGET_S") != "" {
		return
	}
	if r.Thorough() {
		r.budget = thorough
	} else {
		r.budget = quick
	}
}

// Expired reports whether the internal budget is used up; once true the run is
// marked as capped.
func (r *Run) Expired() bool {
	if time.Since(r.start) > r.budget {
		r.capped.Store(true)
		return true
	}
	return false
}

func (r *Run) MarkCapped()  { r.capped.Store(true) }
func (r *Run) Capped() bool { return r.capped.Load() }

func (r *Run) Add(name string, n int64) {
	r.mu.Lock()
	r.Counters[name] += n
	r.mu.Unlock()
}

func (r *Run) HistAdd(hist, key string, n int64) {
	r.mu.Lock()
	m := r.Hist[hist]
	if m == nil {
		m = map[string]int64{}
		r.Hist[hist] = m
	}
	m[key] += n
	r.mu.Unlock()
}

// MergeHist merges a worker-local histogram.
func (r *Run) MergeHist(hist string, local map[string]int64) {
	r.mu.Lock()
	m := r.Hist[hist]
	if m == nil {
		m = map[string]int64{}
		r.Hist[hist] = m
	}
	for k, v := range local {
		m[k] += v
	}
	r.mu.Unlock()
}

func (r *Run) Sample(s any) {
	r.mu.Lock()
	if len(r.samples) < r.maxSample {
		r.samples = append(r.samples, s)
	}
	r.mu.Unlock()
}

// Violation records a violation with the given signature. Signatures listed as
// "known" in known_findings.json are reported once as KNOWN-FINDING; anything
// else writes a replay file and prints a VIOLATION line (once per signature).
func (r *Run) Violation(sig, what string, witness any) {
	r.mu.Lock()
	defer r.mu.Unlock()
	if f, ok := r.known[sig]; ok {
		r.knownHit[sig]++
		if r.knownHit[sig] == 1 {
			fmt.Printf("KNOWN-FINDING: property=%s %s [signature %s]\n", r.ID, f.WhatFails, sig)
		}
		return
	}
	r.seenSig[sig]++
	if r.seenSig[sig] > 1 {
		return
	}
	r.nViol++
	h := sha1.Sum([]byte(sig))
	dir := filepath.Join(OutRoot(), "replays", r.ID)
	os.MkdirAll(dir, 0o755)
	path := filepath.Join(dir, hex.EncodeToString(h[:6])+".json")
	b, _ := json.MarshalIndent(map[string]any{"property": r.ID, "signature": sig, "what": what, "witness": witness}, "", " ")
	os.WriteFile(path, b, 0o644)
	if r.nViol <= 25 {
		fmt.Printf("VIOLATION property=%s replay=%s\n", r.ID, path)
		fmt.Printf("  signature: %s\n  what: %s\n", sig, what)
	}
}

func (r *Run) NumViolations() int {
	r.mu.Lock()
	defer r.mu.Unlock()
	return r.nViol
}

// Coverage is what the check hands to Finish; extra keys go into Extra.
type Coverage struct {
	Evaluations        int64
	DistinctNontrivial int64
	Rule               string
	States             int64
	Transitions        int64
	TracesValidated    int64
	Programs           int64
	Disagreements      int64
	Explanation        string
	Exhaustive         bool
	Extra              map[string]any
}

// Finish writes evidence/<id>.json and exits 0 (held / only known findings) or 1.
func (r *Run) Finish(c Coverage, assumptions []string) {
	r.mu.Lock()
	cov := map[string]any{
		"evaluations":         c.Evaluations,
		"distinct_nontrivial": c.DistinctNontrivial,
		"rule":                c.Rule,
		"exhaustive":          c.Exhaustive && !r.capped.Load(),
		"samples":             r.samples,
		"budget_cap_hit":      r.capped.Load(),
	}
	if len(r.samples) == 0 {
		cov["samples"] = []any{"(none recorded)"}
	}
	if c.States > 0 || r.Level == "model_checking" {
		cov["states"] = c.States
		cov["transitions"] = c.Transitions
		cov["traces_validated_against_impl"] = c.TracesValidated
	}
	if c.Programs > 0 {
		cov["programs"] = c.Programs
		cov["disagreements_checked"] = c.Disagreements
	}
	if c.Explanation != "" {
		cov["explanation"] = c.Explanation
	}
	if len(r.Counters) > 0 {
		cov["counters"] = r.Counters
	}
	if len(r.Hist) > 0 {
		hs := map[string]any{}
		for name, m := range r.Hist {
			if len(m) > 64 {
				// keep the 64 largest
				type kv struct {
					k string
					v int64
				}
				var l []kv
				for k, v := range m {
					l = append(l, kv{k, v})
				}
				sort.Slice(l, func(i, j int) bool {
					if l[i].v != l[j].v {
						return l[i].v > l[j].v
					}
					return l[i].k < l[j].k
				})
				mm := map[string]int64{}
				for _, e := range l[:64] {
					mm[e.k] = e.v
				}
				hs[name] = map[string]any{"distinct": len(m), "top64": mm}
			} else {
				hs[name] = m
			}
		}
		cov["histograms"] = hs
	}
	var kh []string
	for s, n := range r.knownHit {
		kh = append(kh, fmt.Sprintf("%s x%d", s, n))
	}
	sort.Strings(kh)
	cov["known_findings_hit"] = kh
	for k, v := range c.Extra {
		cov[k] = v
	}
	out := map[string]any{
		"property_id": r.ID,
		"tier":        r.Tier,
		"seed":        r.Seed,
		"level":       r.Level,
		"coverage":    cov,
		"assumptions": assumptions,
		"wall_s":      time.Since(r.start).Seconds(),
		"violations":  r.nViol,
	}
	nv := r.nViol
	r.mu.Unlock()
	os.MkdirAll(filepath.Join(OutRoot(), "evidence"), 0o755)
	b, _ := json.MarshalIndent(out, "", " ")
	if err := os.WriteFile(filepath.Join(OutRoot(), "evidence", r.ID+".json"), append(b, '\n'), 0o644); err != nil {
		fmt.Fprintf(os.Stderr, "HARNESS-ERROR: cannot write evidence: %v\n", err)
		os.Exit(2)
	}
	fmt.Printf("%s %s: evaluations=%d distinct_nontrivial=%d states=%d transitions=%d violations=%d known_hit=%d exhaustive=%v wall=%.1fs\n",
		r.ID, r.Tier, c.Evaluations, c.DistinctNontrivial, c.States, c.Transitions, nv, len(kh), cov["exhaustive"], time.Since(r.start).Seconds())
	if nv > 0 {
		os.Exit(1)
	}
	os.Exit(0)
}

// ParFor runs f(i) for i in [0,n) on GOMAXPROCS goroutines with a static
// interleaved partition (deterministic per worker; order-independent results
// are the caller's business). f receives the worker id for local accumulators.
func ParFor(n int, f func(worker, i int)) {
	w := runtime.GOMAXPROCS(0)
	if w > n {
		w = n
	}
	if w < 1 {
		w = 1
	}
	var wg sync.WaitGroup
	for k := 0; k < w; k++ {
		wg.Add(1)
		go func(k int) {
			defer wg.Done()
			for i := k; i < n; i += w {
				f(k, i)
			}
		}(k)
	}
	wg.Wait()
}

func Workers() int { return runtime.GOMAXPROCS(0) }

// Hash returns a short stable hex id of b.
func Hash(b []byte) string {
	h := sha1.Sum(b)
	return hex.EncodeToString(h[:8])
}

// Fatal reports a harness error (never a property violation) and exits 2.
func Fatal(format string, a ...any) {
	fmt.Fprintf(os.Stderr, "HARNESS-ERROR: "+format+"\n", a...)
	os.Exit(2)
}
