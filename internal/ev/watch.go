package ev

import (
	"fmt"
	"os"
	"runtime"
	"sync/atomic"
	"time"
)

// Watch is an in-process hang / runaway-memory detector for code that cannot be
// interrupted (a Go function that loops forever). Each worker calls Enter(i)
// before an evaluation (one atomic store); the watchdog goroutine declares a
// hang when a worker has been inside the same evaluation for longer than
// `stall`, or when the heap exceeds memLimit while some evaluation is older than
// 2 s. The oracle is generous (stall >= 10^4 x the typical cost) so it cannot
// fire on correct code; describe(w, i) renders the witness for the report.
type Watch struct {
	cur   []atomic.Int64 // per worker: evaluation id (or -1 when idle)
	since []atomic.Int64 // unix nanos of last change
}

func NewWatch(workers int) *Watch {
	w := &Watch{cur: make([]atomic.Int64, workers), since: make([]atomic.Int64, workers)}
	for i := range w.cur {
		w.cur[i].Store(-1)
	}
	return w
}

func (w *Watch) Enter(worker int, id int64) {
	w.cur[worker].Store(id)
	w.since[worker].Store(time.Now().UnixNano())
}

// EnterFast avoids the clock read: the watchdog detects "unchanged id" itself.
func (w *Watch) EnterFast(worker int, id int64) { w.cur[worker].Store(id) }

func (w *Watch) Leave(worker int) { w.cur[worker].Store(-1) }

// Start launches the watchdog. onHang is called (once) with worker and id; it
// should report the violation; the process then exits 1 after writing evidence
// via finish().
func (w *Watch) Start(stall time.Duration, memLimit uint64, onHang func(worker int, id int64, why string), finish func()) {
	go func() {
		last := make([]int64, len(w.cur))
		lastChange := make([]time.Time, len(w.cur))
		now := time.Now()
		for i := range last {
			last[i] = -2
			lastChange[i] = now
		}
		for {
			time.Sleep(500 * time.Millisecond)
			now = time.Now()
			var ms runtime.MemStats
			runtime.ReadMemStats(&ms)
			for i := range w.cur {
				c := w.cur[i].Load()
				if c != last[i] {
					last[i] = c
					lastChange[i] = now
					continue
				}
				if c < 0 {
					continue
				}
				age := now.Sub(lastChange[i])
				if age > stall || (ms.HeapAlloc > memLimit && age > 2*time.Second) {
					why := fmt.Sprintf("evaluation still running after %.0fs", age.Seconds())
					if ms.HeapAlloc > memLimit {
						why = fmt.Sprintf("heap grew to %d MiB inside one evaluation (%.0fs)", ms.HeapAlloc>>20, age.Seconds())
					}
					onHang(i, c, why)
					finish()
					os.Exit(1)
				}
			}
		}
	}()
}
