// Package wgen rebuilds the Wuffs toolchain from /repo's working tree and
// regenerates C from /repo/std in a scratch wuffs-root (so /repo/gen and
// /repo/release are never written).
package wgen

import (
	"fmt"

	"os"
	"os/exec"
	"path/filepath"
	"verif/internal/ev"
)

// Repo is the wuffs tree under check (/repo unless $VERIF_REPO is set).
var Repo = ev.Repo()

func run(dir string, env []string, name string, args ...string) error {
	cmd := exec.Command(name, args...)
	cmd.Dir = dir
	cmd.Env = append(os.Environ(), env...)
	out, err := cmd.CombinedOutput()
	if err != nil {
		return fmt.Errorf("%s %v (in %s): %v\n%s", name, args, dir, err, out)
	}
	return nil
}

// BuildTools builds cmd/wuffs, cmd/wuffs-c (and wuffsfmt) from the working tree into scratch/bin.
func BuildTools(scratch string) (binDir string, err error) {
	binDir = filepath.Join(scratch, "bin")
	if err := os.MkdirAll(binDir, 0o755); err != nil {
		return "", err
	}
	for _, tool := range []string{"wuffs", "wuffs-c", "wuffsfmt"} {
		if err := run(ev.Root, nil, "go", "build", "-o", filepath.Join(binDir, tool), "github.com/google/wuffs/cmd/"+tool); err != nil {
			return "", err
		}
	}
	return binDir, nil
}

// MakeRoot creates scratch/<name> as a wuffs root holding a copy of /repo/std (and of
// extra directories given relative to /repo).
func MakeRoot(scratch, name string, extra ...string) (root string, err error) {
	root = filepath.Join(scratch, name)
	if err := os.MkdirAll(root, 0o755); err != nil {
		return "", err
	}
	if err := run("/", nil, "cp", filepath.Join(Repo, "wuffs-root-directory.txt"), root+"/"); err != nil {
		return "", err
	}
	for _, d := range append([]string{"std"}, extra...) {
		if err := os.MkdirAll(filepath.Dir(filepath.Join(root, d)), 0o755); err != nil {
			return "", err
		}
		if err := run("/", nil, "cp", "-r", filepath.Join(Repo, d), filepath.Join(root, d)); err != nil {
			return "", err
		}
	}
	return root, nil
}

// Gen runs `wuffs gen <args>` in root with binDir first on PATH. With no args it
// generates base and std/... and the monolithic release file.
func Gen(binDir, root string, env []string, args ...string) error {
	e := append([]string{"PATH=" + binDir + ":" + os.Getenv("PATH")}, env...)
	return run(root, e, filepath.Join(binDir, "wuffs"), append([]string{"gen"}, args...)...)
}

// ReleaseC is the path of the monolithic release file that Gen writes.
func ReleaseC(root string) string {
	return filepath.Join(root, "release", "c", "wuffs-unsupported-snapshot.c")
}
