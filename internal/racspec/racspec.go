// Package racspec is an independent reading of doc/spec/rac-spec.md: a
// structural validator, a leaf walker with a zlib decoder, and a node builder
// (used to craft hostile files). It shares no code with lib/rac.
package racspec

import (
	"bytes"
	"compress/zlib"
	"encoding/binary"
	"errors"
	"fmt"
	"hash/crc32"
	"io"
)

const Magic = "\x72\xC3\x63"

type Elem struct {
	DPtr, DPtrNext int64 // DPtr[i], DPtr[i+1]
	CPtr           int64
	CLen           uint8
	STag, TTag     uint8
}

type Node struct {
	COffset  int64 // Branch COffset
	CBias    int64
	DBias    int64
	Arity    int
	Elems    []Elem
	DPtrMax  int64
	CPtrMax  int64
	CodecB   byte
	Version  byte
	Codec    uint64 // without mix bit; long codecs have bit 63 set
	MixBit   bool
	Children []*Node // same index as Elems; nil for leaves / attributes / empty
	Raw      []byte
}

func u48(b []byte) int64 {
	return int64(b[0]) | int64(b[1])<<8 | int64(b[2])<<16 | int64(b[3])<<24 | int64(b[4])<<32 | int64(b[5])<<40
}

func Checksum(node []byte) uint16 {
	c := crc32.ChecksumIEEE(node[6:])
	return uint16(c) ^ uint16(c>>16)
}

// ParseNode applies "Branch Node Validation" to the bytes at cOffset.
func ParseNode(file []byte, cOffset int64) (*Node, error) {
	if cOffset < 0 || cOffset+4 > int64(len(file)) {
		return nil, errors.New("node offset outside file")
	}
	ar := int(file[cOffset+3])
	if ar == 0 {
		return nil, errors.New("zero arity")
	}
	size := int64(ar*16 + 16)
	if cOffset+size > int64(len(file)) {
		return nil, errors.New("node extends past file")
	}
	b := file[cOffset : cOffset+size]
	if string(b[:3]) != Magic {
		return nil, errors.New("bad magic")
	}
	if int(b[size-1]) != ar {
		return nil, errors.New("arity mismatch")
	}
	if binary.LittleEndian.Uint16(b[4:6]) != Checksum(b) {
		return nil, errors.New("bad checksum")
	}
	n := &Node{COffset: cOffset, Arity: ar, Raw: b}
	n.Version = b[size-2]
	if n.Version != 1 {
		return nil, errors.New("unsupported version")
	}
	// reserved bytes: byte 6 of rows 0..A
	for row := 0; row <= ar; row++ {
		if b[row*8+6] != 0 {
			return nil, errors.New("reserved byte not zero")
		}
	}
	n.DPtrMax = u48(b[8*ar:])
	n.CodecB = b[8*ar+7]
	n.CPtrMax = u48(b[16*ar+8:])
	n.MixBit = n.CodecB&0x40 != 0
	children := 0
	prev := int64(0)
	for i := 0; i < ar; i++ {
		var e Elem
		if i > 0 {
			e.DPtr = u48(b[8*i:])
		}
		e.DPtrNext = u48(b[8*(i+1):])
		e.TTag = b[8*i+7]
		base := 8*ar + 8
		e.CPtr = u48(b[base+8*i:])
		e.CLen = b[base+8*i+6]
		e.STag = b[base+8*i+7]
		if e.DPtr < prev || e.DPtrNext < e.DPtr {
			return nil, errors.New("DPtr not sorted")
		}
		prev = e.DPtr
		switch {
		case e.TTag == 0xFD:
			if e.DPtrNext != e.DPtr {
				return nil, errors.New("codec element with non-empty DRange")
			}
		case e.TTag >= 0xC0 && e.TTag < 0xFD:
			return nil, errors.New("reserved TTag")
		default:
			children++
			if e.CPtr > n.CPtrMax {
				return nil, errors.New("CPtr exceeds CPtrMax")
			}
		}
		n.Elems = append(n.Elems, e)
	}
	if children == 0 {
		return nil, errors.New("no child nodes")
	}
	if n.CodecB&0x80 == 0 {
		n.Codec = uint64(n.CodecB&0x3F) << 56
	} else {
		c64 := int(n.CodecB & 0x3F)
		found := false
		for j := 0; j < 4; j++ {
			i := c64 + 64*j
			if i < ar && n.Elems[i].TTag == 0xFD {
				base := 8*ar + 8
				v := binary.LittleEndian.Uint64(b[base+8*i:])
				n.Codec = (v & 0x00FFFFFFFFFFFFFF) | 1<<63
				found = true
				break
			}
		}
		if !found {
			return nil, errors.New("long codec without codec element")
		}
	}
	return n, nil
}

// FindRoot applies the "Root Node" section.
func FindRoot(file []byte) (*Node, error) {
	size := int64(len(file))
	if size < 32 {
		return nil, errors.New("file shorter than 32 bytes")
	}
	if string(file[:3]) != Magic {
		return nil, errors.New("missing magic")
	}
	try := func(off int64) *Node {
		n, err := ParseNode(file, off)
		if err != nil || n.CPtrMax != size {
			return nil
		}
		return n
	}
	if ar := int64(file[3]); ar != 0 && ar*16+16 <= size {
		if n := try(0); n != nil {
			return n, nil
		}
	}
	ar := int64(file[size-1])
	if ar == 0 || ar*16+16 > size {
		return nil, errors.New("no root node")
	}
	if n := try(size - (ar*16 + 16)); n != nil {
		return n, nil
	}
	return nil, errors.New("no valid root node")
}

type Leaf struct {
	DRange             [2]int64
	Primary, Secondary [2]int64
	Tertiary           [2]int64
	STag, TTag         uint8
	Codec              uint64
}

func (n *Node) makeCRange(i int) [2]int64 {
	max := n.CBias + n.CPtrMax
	if i >= n.Arity {
		return [2]int64{max, max}
	}
	lo := n.CBias + n.Elems[i].CPtr
	hi := max
	if l := n.Elems[i].CLen; l != 0 {
		if v := lo + int64(l)*1024; v < hi {
			hi = v
		}
	}
	return [2]int64{lo, hi}
}

// Validate walks the whole tree from the root, applying every parent/child rule,
// and returns the leaves in DSpace order (empty DRanges skipped).
func Validate(file []byte) (root *Node, leaves []Leaf, err error) {
	root, err = FindRoot(file)
	if err != nil {
		return nil, nil, err
	}
	budget := 1 << 20
	var walk func(n *Node, depth int) error
	walk = func(n *Node, depth int) error {
		if budget--; budget < 0 {
			return errors.New("validator work budget exhausted (cyclic index?)")
		}
		if depth > 64 {
			return errors.New("tree too deep")
		}
		n.Children = make([]*Node, n.Arity)
		for i, e := range n.Elems {
			if e.TTag == 0xFD {
				continue
			}
			if e.DPtrNext == e.DPtr {
				continue // empty DRange: skipped, even if a branch
			}
			if e.TTag == 0xFE {
				cOff := n.CBias + e.CPtr
				cMax := n.CBias + n.CPtrMax
				rem := cMax - cOff
				if rem < 4 {
					return fmt.Errorf("branch child %d: CRemaining < 4", i)
				}
				if cOff+4 > int64(len(file)) {
					return fmt.Errorf("branch child %d outside file", i)
				}
				csize := int64(file[cOff+3])*16 + 16
				if rem < csize {
					return fmt.Errorf("branch child %d: CRemaining < child size", i)
				}
				c, err := ParseNode(file, cOff)
				if err != nil {
					return fmt.Errorf("branch child %d: %v", i, err)
				}
				c.DBias = n.DBias + e.DPtr
				if int(e.STag) < n.Arity {
					c.CBias = n.CBias + n.Elems[e.STag].CPtr
				} else {
					c.CBias = n.CBias
				}
				if !n.MixBit && (c.Codec != n.Codec || (c.CodecB&0x80) != (n.CodecB&0x80)) {
					return fmt.Errorf("branch child %d: codec differs without mix bit", i)
				}
				if c.Version > n.Version {
					return fmt.Errorf("branch child %d: version", i)
				}
				if c.CBias+c.CPtrMax > cMax {
					return fmt.Errorf("branch child %d: COffMax exceeds parent's", i)
				}
				if c.DPtrMax != e.DPtrNext-e.DPtr {
					return fmt.Errorf("branch child %d: DOffMax mismatch", i)
				}
				if !(c.COffset < n.COffset || c.DPtrMax < n.DPtrMax) {
					return fmt.Errorf("branch child %d: anti-loop rule", i)
				}
				n.Children[i] = c
				if err := walk(c, depth+1); err != nil {
					return err
				}
				continue
			}
			l := Leaf{
				DRange:    [2]int64{n.DBias + e.DPtr, n.DBias + e.DPtrNext},
				Primary:   n.makeCRange(i),
				Secondary: n.makeCRange(int(e.STag)),
				Tertiary:  n.makeCRange(int(e.TTag)),
				STag:      e.STag, TTag: e.TTag, Codec: n.Codec,
			}
			for _, cr := range [][2]int64{l.Primary, l.Secondary, l.Tertiary} {
				if cr[0] < 0 || cr[1] > int64(len(file)) {
					return fmt.Errorf("leaf %d: CRange outside file", i)
				}
			}
			leaves = append(leaves, l)
		}
		return nil
	}
	if err := walk(root, 0); err != nil {
		return root, nil, err
	}
	// leaves must tile [0, DFileSize)
	pos := int64(0)
	for _, l := range leaves {
		if l.DRange[0] != pos {
			return root, nil, fmt.Errorf("leaf DRanges not contiguous at %d", pos)
		}
		pos = l.DRange[1]
	}
	if pos != root.DPtrMax {
		return root, nil, fmt.Errorf("leaves end at %d, DFileSize %d", pos, root.DPtrMax)
	}
	return root, leaves, nil
}

const (
	CodecZeroes = uint64(0) << 56
	CodecZlib   = uint64(1) << 56
)

// DecodeZlib reconstructs the DFile from leaves whose codec is Zeroes or Zlib
// (common dictionary format), using compress/zlib. ok=false if another codec
// is present.
func DecodeZlib(file []byte, leaves []Leaf) (out []byte, ok bool, err error) {
	for _, l := range leaves {
		dsize := l.DRange[1] - l.DRange[0]
		switch l.Codec {
		case CodecZeroes:
			out = append(out, make([]byte, dsize)...)
			continue
		case CodecZlib:
		default:
			return nil, false, nil
		}
		var dict []byte
		if l.Secondary[0] < l.Secondary[1] {
			s := file[l.Secondary[0]:l.Secondary[1]]
			if len(s) < 8 || l.TTag != 0xFF {
				return nil, true, errors.New("bad dictionary range/TTag")
			}
			dl := binary.LittleEndian.Uint32(s)
			if dl>>30 != 0 || int64(dl)+8 > int64(len(s)) {
				return nil, true, errors.New("bad dictionary length")
			}
			dict = s[4 : 4+dl]
			if binary.LittleEndian.Uint32(s[4+dl:]) != crc32.ChecksumIEEE(dict) {
				return nil, true, errors.New("bad dictionary checksum")
			}
		}
		var zr io.ReadCloser
		src := bytes.NewReader(file[l.Primary[0]:l.Primary[1]])
		if dict != nil {
			zr, err = zlib.NewReaderDict(src, dict)
		} else {
			zr, err = zlib.NewReader(src)
		}
		if err != nil {
			return nil, true, fmt.Errorf("leaf at D%d: %v", l.DRange[0], err)
		}
		data, err := io.ReadAll(zr)
		if err != nil {
			return nil, true, fmt.Errorf("leaf at D%d: %v", l.DRange[0], err)
		}
		if int64(len(data)) > dsize {
			return nil, true, fmt.Errorf("leaf at D%d produces more than its DRange", l.DRange[0])
		}
		out = append(out, data...)
		out = append(out, make([]byte, dsize-int64(len(data)))...)
	}
	return out, true, nil
}

// ---- builder ---------------------------------------------------------------

type BElem struct {
	DPtrNext   int64 // DPtr[i+1]
	CPtr       int64
	CLen       uint8
	STag, TTag uint8
}

// BuildNode encodes a branch node (checksum computed).
func BuildNode(elems []BElem, codecByte byte, cPtrMax int64, version byte) []byte {
	ar := len(elems)
	b := make([]byte, ar*16+16)
	copy(b, Magic)
	b[3] = byte(ar)
	put48 := func(p []byte, v int64) {
		for k := 0; k < 6; k++ {
			p[k] = byte(v >> (8 * k))
		}
	}
	for i, e := range elems {
		b[8*i+7] = e.TTag
		put48(b[8*(i+1):], e.DPtrNext)
		base := 8*ar + 8
		put48(b[base+8*i:], e.CPtr)
		b[base+8*i+6] = e.CLen
		b[base+8*i+7] = e.STag
	}
	b[8*ar+7] = codecByte
	put48(b[16*ar+8:], cPtrMax)
	b[16*ar+14] = version
	b[16*ar+15] = byte(ar)
	FixChecksum(b)
	return b
}

// FixChecksum recomputes the checksum of the node occupying exactly b.
func FixChecksum(b []byte) {
	binary.LittleEndian.PutUint16(b[4:6], Checksum(b))
}
