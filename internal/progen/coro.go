package progen

// ---------------------------------------------------------------- coro
//
// Coroutines of bounded length over suspendible reads / skips / writes,
// `yield?`, nested coroutine calls (with and without `=?`), interleaved with
// fact-carrying statements about locals, this.* and args.*, followed by a
// probe that uses such a fact after the suspension.

type coroFam struct{ thorough bool }

func newCoroFam(th bool) *coroFam { return &coroFam{thorough: th} }

func (f *coroFam) inner() *factsFam {
	g := &factsFam{name: "coro", thorough: f.thorough, maxFull: 1, maxCore: 2}
	if f.thorough {
		g.maxFull, g.maxCore = 2, 3
	}
	g.wrap = func(body []string) string {
		fields := []string{"f : base.u32", "r : base.u8", "a : array[4] base.u8"}
		w := fn{header: "pub func foo.w!(v: base.u8[..= 5])", body: []string{"this.f = args.v as base.u32"}}
		sub := fn{header: "pri func foo.sub?(src: base.io_reader)", vars: []string{"v : base.u8"}, body: []string{
			"v = args.src.read_u8?()", "this.r = v", "this.f = (v & 7) as base.u32"}}
		c := fn{header: "pub func foo.c?(dst: base.io_writer, src: base.io_reader, x: base.u8[..= 5])",
			vars: []string{"v : base.u8", "i : base.u32", "u : base.u32", "t : base.status", "b : array[4] base.u8", "s : slice base.u8"}, body: body}
		return render("foo", fields, w, sub, c)
	}
	g.alpha = []item{
		st(true, "v = args.src.read_u8?()"),
		st(true, "u = args.src.read_u16le_as_u32?()"),
		st(false, "args.src.skip_u32?(n: 2)"),
		st(false, "args.src.skip_u32?(n: i)"),
		st(true, "args.dst.write_u8?(a: v)"),
		st(false, "args.dst.write_u8?(a: args.x)"),
		st(true, `yield? base."$short read"`),
		st(true, "this.sub?(src: args.src)"),
		st(false, "t =? this.sub?(src: args.src)"),
		st(false, "if t.is_suspension() {", "yield? t", "}"),
		st(true, "i = args.x as base.u32"),
		st(false, "i = this.f"),
		st(false, "this.f = i"),
		st(false, "i += 1"),
		st(false, "i = (v & 3) as base.u32"),
		st(false, "b[i] = v"),
		st(false, "b[0] = 200"),
		st(true, "s = this.a[.. 4]"),
		st(false, "s = b[.. 4]"),
		op(true, "i < 4"),
		op(true, "args.x < 4"),
		op(true, "this.f < 4"),
		op(false, "s[0] < 4"),
		op(false, "b[0] < 4"),
		op(false, "u < 4"),
		st(false, "while i < 4, inv this.f < 4, {", "v = args.src.read_u8?()", "i += 1", "}"),
		st(false, "while i < 4 {", `yield? base."$short read"`, "i += 1", "}"),
		st(false, "if i < 2 {", "v = args.src.read_u8?()", "} else {", "i = 1", "}"),
	}
	g.probes = []item{
		st(true, "this.a[i] = v"),
		st(true, "this.a[args.x] = 1"),
		st(true, "this.a[this.f] = 1"),
		st(true, "this.r = this.a[s[0]]"),
		st(true, "this.r = this.a[b[0]]"),
		st(true, "this.r = s[i]"),
		st(true, "this.r = s[0]"),
		st(true, "s[3] = 1"),
		st(true, "this.a[u] = 1"),
	}
	return g
}

func (f *coroFam) Name() string               { return "coro" }
func (f *coroFam) Roots() []Program           { return f.inner().Roots() }
func (f *coroFam) Extend(p Program) []Program { return f.inner().Extend(p) }

// ---------------------------------------------------------------- io
//
// Unchecked I/O built-ins (peek_*, skip_u32_fast!, write_*_fast!, undo_byte!,
// limited_copy_u32_from_history_fast!) under `length()` guards, io_limit and
// io_forget_history.

type ioFam struct{ thorough bool }

func (f *ioFam) inner() *factsFam {
	g := &factsFam{name: "io", thorough: f.thorough, maxFull: 2, maxCore: 2}
	if f.thorough {
		g.maxFull, g.maxCore = 2, 3
	}
	g.wrap = func(body []string) string {
		fields := []string{"f : base.u32", "r : base.u8", "q : base.u32", "a : array[2] base.u8"}
		m := fn{header: "pub func foo.m!(dst: base.io_writer, src: base.io_reader, x: base.u32[..= 4], t: slice base.u8)",
			vars: []string{"v : base.u8", "u : base.u32", "n : base.u32", "rd : base.io_reader", "wr : base.io_writer"}, body: body}
		return render("foo", fields, m)
	}
	g.alpha = []item{
		op(true, "args.src.length() >= 1"),
		op(true, "args.src.length() >= 2"),
		op(true, "args.src.length() >= 4"),
		op(false, "args.src.length() > 1"),
		op(false, "args.src.length() == 2"),
		op(false, "args.src.length() == 4"),
		op(false, "args.src.length() <= 4"),
		op(false, "args.src.length() >= (args.x as base.u64)"),
		op(true, "args.dst.length() >= 1"),
		op(true, "args.dst.length() >= 2"),
		op(false, "args.dst.length() >= 4"),
		st(true, "v = args.src.peek_u8()"),
		st(true, "u = args.src.peek_u16le_as_u32()"),
		st(false, "u = args.src.peek_u32le()"),
		st(false, "v = args.src.peek_u8_at(offset: 1)"),
		st(true, "args.src.skip_u32_fast!(actual: 1, worst_case: 1)"),
		st(true, "args.src.skip_u32_fast!(actual: 2, worst_case: 2)"),
		st(false, "args.src.skip_u32_fast!(actual: args.x, worst_case: 4)"),
		st(false, "args.src.skip_u32_fast!(actual: args.x, worst_case: args.x)"),
		st(true, "args.dst.write_u8_fast!(a: 7)"),
		st(false, "args.dst.write_u16le_fast!(a: 0x0102)"),
		st(true, "args.src.undo_byte!()"),
		st(false, "v = args.src.peek_undo_byte()"),
		op(false, "args.src.can_undo_byte()"),
		st(false, "io_limit (io: args.src, limit: 1 as base.u64) {", "v = args.src.peek_u8()", "}"),
		st(false, "io_limit (io: args.src, limit: 1 as base.u64) {", "u = args.src.peek_u16le_as_u32()", "}"),
		st(false, "io_limit (io: args.src, limit: 1 as base.u64) {", "args.src.skip_u32_fast!(actual: 1, worst_case: 1)", "}"),
		st(false, "io_limit (io: args.src, limit: 1 as base.u64) {", "if args.src.length() >= 1 {", "args.src.skip_u32_fast!(actual: 1, worst_case: 1)", "}", "}"),
		st(false, "n = args.dst.limited_copy_u32_from_history!(up_to: 2, distance: 1)"),
		st(false, "io_bind (io: rd, data: args.t, history_position: 0) {", "if rd.length() >= 1 {", "v = rd.peek_u8()", "}", "}"),
		st(false, "io_bind (io: rd, data: args.t, history_position: 0) {", "v = rd.peek_u8()", "}"),
		st(false, "io_bind (io: rd, data: args.t[.. 2], history_position: 0) {", "u = rd.peek_u16le_as_u32()", "}"),
		st(false, "io_bind (io: wr, data: args.t, history_position: 0) {", "if wr.length() >= 1 {", "wr.write_u8_fast!(a: 7)", "}", "}"),
		st(false, "io_bind (io: wr, data: args.t, history_position: 0) {", "wr.write_u8_fast!(a: 7)", "}"),
		st(false, "io_bind (io: rd, data: args.t, history_position: 0) {", "args.src.skip_u32_fast!(actual: 1, worst_case: 1)", "}"),
		st(false, "io_forget_history (io: args.dst) {", "n = args.dst.limited_copy_u32_from_history!(up_to: 2, distance: 1)", "}"),
		st(false, "io_forget_history (io: args.dst) {", "if args.dst.length() >= 1 {", "args.dst.write_u8_fast!(a: 7)", "}", "}"),
		st(false, "io_forget_history (io: args.dst) {", "args.dst.write_u8_fast!(a: 7)", "}"),
		st(false, "n = args.dst.limited_copy_u32_from_reader!(up_to: 2, r: args.src)"),
	}
	if f.thorough {
		g.alpha = append(g.alpha, op(false, "args.src.length() < 4"), op(false, "args.src.length() <> 4"), op(false, "args.dst.length() == 2"))
	}
	g.probes = []item{
		st(true, "this.r = args.src.peek_u8()"),
		st(true, "this.q = args.src.peek_u16le_as_u32()"),
		st(true, "args.src.skip_u32_fast!(actual: 1, worst_case: 1)"),
		st(true, "args.dst.write_u8_fast!(a: 9)"),
		st(true, "args.src.undo_byte!()"),
		st(true, "this.r = this.a[args.src.length()]"),
		st(true, "this.q = args.src.peek_u32le()"),
	}
	return g
}

func (f *ioFam) Name() string               { return "io" }
func (f *ioFam) Roots() []Program           { return f.inner().Roots() }
func (f *ioFam) Extend(p Program) []Program { return f.inner().Extend(p) }
