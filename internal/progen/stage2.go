package progen

import (
	"fmt"
	"strings"
)

// ---------------------------------------------------------------- loops
//
// `while` / `while.label` loops (nesting depth <= 2) with subsets of
// pre / inv / post conditions, break / continue (plain, labelled, deep) at each
// body position, followed by a probe.

type loopsFam struct{ thorough bool }

func newLoopsFam(th bool) *loopsFam          { return &loopsFam{thorough: th} }
func (f *loopsFam) Name() string             { return "loops" }
func (f *loopsFam) Extend(Program) []Program { return nil }

func loopsWrap(body []string) string {
	fields := []string{"f : base.u32", "r : base.u8", "a : array[4] base.u8"}
	wfn := fn{header: "pub func foo.w!(v: base.u8[..= 5])", body: []string{
		"this.f = args.v as base.u32", "this.a[0] = args.v", "this.a[1] = args.v", "this.a[2] = args.v", "this.a[3] = args.v"}}
	m := fn{header: "pub func foo.m!(x: base.u32[..= 9], y: base.u32[..= 3])",
		vars: []string{"i : base.u32", "j : base.u32"}, body: body}
	return render("foo", fields, wfn, m)
}

func (f *loopsFam) Roots() []Program {
	var out []Program
	seen := map[string]bool{}
	add := func(body []string, tg map[string]string) {
		p := mk("loops", loopsWrap(body), tg, nil)
		if !seen[p.ID] {
			seen[p.ID] = true
			out = append(out, p)
		}
	}
	pres := [][]string{{}, {"i = args.x"}, {"j = args.y"}}
	conds := []string{"i < 4", "i < 9", "i <> 4", "this.a[i] < 4", "j < i", "true"}
	asserts := [][]string{
		{},
		{"inv i <= 4"},
		{"inv i <= 9"},
		{"pre i < 9", "inv i <= 9"},
		{"post i >= 4"},
		{"inv i <= 4", "post i == 4"},
		{"inv i < 4"},
		{"inv j <= 3"},
	}
	bodies := [][]string{
		{},
		{"i += 1"},
		{"i = i + 1"},
		{"i += 2"},
		{"j += 1"},
		{"this.a[i] = 1", "i += 1"},
		{"i += 1", "this.a[i] = 1"},
		{"i += 1", "break"},
		{"break"},
		{"continue"},
		{"i += 1", "continue"},
		{"if i == 2 {", "break", "}", "i += 1"},
		{"if i == 2 {", "continue", "}", "i += 1"},
		{"i += 1", "if i == 2 {", "break", "}"},
		{"i += 1", "if i == 2 {", "continue", "}"},
		{"i = 0"},
		{"i = args.x"},
		{"this.a[i] = 200", "i += 1"},
		{"if this.a[0] == 0 {", "break", "}", "i += 1"},
		{"j = i", "i += 1"},
		{"i ~mod+= 1"},
		{"i ~sat+= 1"},
		{"this.a[i & 3] = 1", "i ~mod+= 1"},
		{"j = i & 3", "i = j + 1"},
		{"if i == 2 {", "break", "}", "i ~mod+= 1"},
		{"if i == 2 {", "i = 9", "continue", "}", "i ~mod+= 1"},
	}
	probes := []string{"this.a[i] = 1", "j = 9 - i", "this.a[j] = 1", "this.r = this.a[this.a[i]]"}
	if !f.thorough {
		pres = pres[:2]
		conds = conds[:5]
		probes = probes[:3]
	} else {
		bodies = append(bodies,
			[]string{"i -= 1"},
			[]string{"i <<= 1"},
			[]string{"if i < 2 {", "i += 1", "} else {", "break", "}"},
			[]string{"if i < 2 {", "i += 2", "} else {", "i += 1", "}"},
			[]string{"this.f = i", "i += 1"},
		)
	}
	for pi, pre := range pres {
		for _, c := range conds {
			for ai, as := range asserts {
				for bi, b := range bodies {
					for qi, pr := range probes {
						if !f.thorough && (ai+bi+qi+pi)%2 == 1 && ai > 1 && bi > 4 {
							continue // quick: thin out the (assert set, body) product
						}
						var body []string
						body = append(body, pre...)
						hdr := "while " + c
						for _, a := range as {
							hdr += ", " + a
						}
						if len(as) > 0 {
							hdr += ","
						}
						body = append(body, hdr+" {")
						body = append(body, b...)
						body = append(body, "}")
						if c == "true" && !hasBreak(b) {
							// `while true` without break terminates the block: nothing may follow.
						} else {
							body = append(body, pr)
						}
						add(body, tags("cond", c, "asserts", strings.Join(as, ", "), "body", strings.Join(b, " ; "), "probe", pr, "pre", strings.Join(pre, ";")))
					}
				}
			}
		}
	}
	// Nested, labelled loops with deep jumps.
	jumps := []string{"break.outer", "continue.outer", "break.inner", "continue.inner"}
	innerConds := []string{"j < 3", "j < i", "true"}
	outerAsserts := [][]string{{}, {"inv i <= 4"}, {"inv i <= 4", "post i == 4"}}
	positions := []int{0, 1, 2}
	for _, oc := range []string{"i < 4", "true"} {
		for _, oa := range outerAsserts {
			for _, ic := range innerConds {
				for _, jm := range jumps {
					for _, pos := range positions {
						for _, pr := range probes[:2] {
							hdr := "while.outer " + oc
							for _, a := range oa {
								hdr += ", " + a
							}
							if len(oa) > 0 {
								hdr += ","
							}
							inner := []string{"j += 1"}
							jl := []string{"if j == 2 {", jm, "}"}
							switch pos {
							case 0:
								inner = append(jl, inner...)
							case 1:
								inner = append(inner, jl...)
							case 2:
								inner = []string{"j += 1", jm}
							}
							body := []string{"i = args.x", hdr + " {", "j = 0", "while.inner " + ic + ", inv j <= 3, {"}
							body = append(body, inner...)
							body = append(body, "}.inner", "i += 1", "}.outer")
							if !(oc == "true" && jm != "break.outer") {
								body = append(body, pr)
							}
							add(body, tags("nested", "1", "outer", oc, "inner", ic, "jump", jm, "pos", fmt.Sprint(pos), "probe", pr,
								"asserts", strings.Join(oa, ", ")))
						}
					}
				}
			}
		}
	}
	return out
}

func hasBreak(b []string) bool {
	for _, l := range b {
		if strings.HasPrefix(l, "break") {
			return true
		}
	}
	return false
}

// ---------------------------------------------------------------- refine
//
// Refined fields / locals / arguments / results / array elements, conversions
// between refinements, zero-default violations, slices of refined arrays.

func newRefineFam(thorough bool) *factsFam {
	f := &factsFam{name: "refine", thorough: thorough, maxFull: 2, maxCore: 2}
	f.wrap = func(body []string) string {
		fields := []string{"f : base.u8[..= 3]", "r : base.u8", "a : array[4] base.u8", "c : array[4] base.u8[..= 3]"}
		q := fn{header: "pri func foo.q(v: base.u8[..= 3]) base.u8[..= 3]", body: []string{"return args.v"}}
		h := fn{header: "pri func foo.h(v: base.u8) base.u8[1 ..= 4]", body: []string{"return (args.v & 3) + 1"}}
		w := fn{header: "pub func foo.w!(v: base.u8[..= 5])", body: []string{"this.a[0] = args.v", "this.a[1] = args.v", "this.r = args.v"}}
		m := fn{header: "pub func foo.m!(x: base.u8[..= 9], y: base.u8[..= 3], z: base.u8[1 ..= 4], t: slice base.u8)",
			vars: []string{"v : base.u8[..= 3]", "u : base.u8", "b : array[4] base.u8[..= 3]", "s : slice base.u8", "e : slice base.u8[..= 3]"}, body: body}
		return render("foo", fields, q, h, w, m)
	}
	f.alpha = []item{
		st(true, "this.f = args.y"),
		st(false, "this.f = args.x"),
		st(false, "this.f = args.z"),
		st(false, "this.f = args.z - 1"),
		st(false, "this.f = args.x & 3"),
		st(false, "this.f = args.x.min(no_more_than: 3)"),
		st(true, "v = args.y"),
		st(false, "v = args.x"),
		st(false, "v = this.f"),
		st(false, "v = this.q(v: args.y)"),
		st(false, "v = this.q(v: args.x)"),
		st(false, "v = this.q(v: this.h(v: args.x) - 1)"),
		st(false, "u = this.h(v: args.x)"),
		st(true, "u = args.x"),
		st(false, "v = u"),
		st(false, "v = (u & 3)"),
		st(true, "this.c[args.y] = args.y"),
		st(false, "this.c[0] = args.x"),
		st(false, "this.c[0] = u"),
		st(false, "b[args.y] = 3"),
		st(false, "b[0] = args.x"),
		st(true, "s = this.a[..]"),
		st(true, "e = this.c[..]"),
		st(true, "s = this.c[..]"),
		st(false, "s = b[..]"),
		st(false, "e = b[..]"),
		st(true, "s[0] = 200"),
		st(false, "e[0] = 200"),
		st(false, "e[0] = args.y"),
		st(true, "this.c[..].copy_from_slice!(s: args.t)"),
		st(true, "e.copy_from_slice!(s: args.t)"),
		st(false, "b[..].copy_from_slice!(s: this.a[..])"),
		st(false, "this.c[..].bulk_memset!(byte_value: 200)"),
		st(false, "this.c[..].copy_from_slice!(s: this.a[..])"),
		op(false, "u < 4"),
		op(false, "u <= 3"),
		st(false, "if u < 4 {", "v = u", "}"),
	}
	f.probes = []item{
		st(true, "this.r = this.a[this.f]"),
		st(true, "this.r = this.a[v]"),
		st(true, "this.r = this.a[this.c[0]]"),
		st(true, "this.r = this.a[b[0]]"),
		st(true, "this.r = this.a[e[0]]"),
		st(true, "this.r = this.a[args.z - 1]"),
		st(true, "this.r = this.a[args.z]"),
	}
	return f
}

type refineFam struct{ thorough bool }

func (f *refineFam) inner() *factsFam { return newRefineFam(f.thorough) }
func (f *refineFam) Name() string     { return "refine" }
func (f *refineFam) Roots() []Program {
	return append(append(f.inner().Roots(), refineDecls()...), refineNonZero()...)
}
func (f *refineFam) Extend(p Program) []Program { return f.inner().Extend(p) }

// refineDecls are flat programs about declarations: zero-default violations
// and out-of-range refinements.
func refineDecls() []Program {
	var out []Program
	for _, ft := range []string{"base.u8[1 ..= 4]", "base.u8[..= 0]", "base.u8[..= 256]", "base.u16[3 ..= 2]", "array[2] base.u8[1 ..= 4]", "base.u32[0 ..= 7]"} {
		src := render("foo", []string{"g : " + ft, "r : base.u8"},
			fn{header: "pub func foo.m!(x: base.u8)", body: []string{"this.r = args.x"}})
		out = append(out, mk("refine", src, tags("decl", "field "+ft), nil))
	}
	for _, vt := range []string{"base.u8[1 ..= 4]", "base.u8[..= 3]", "array[2] base.u8[1 ..= 4]", "base.i8[-3 ..= -1]", "base.i8[-3 ..= 1]"} {
		src := render("foo", []string{"r : base.u8"},
			fn{header: "pub func foo.m!(x: base.u8)", vars: []string{"v : " + vt}, body: []string{"this.r = args.x"}})
		out = append(out, mk("refine", src, tags("decl", "var "+vt), nil))
	}
	return out
}

// refineNonZero: fields and locals of scalar / array / nested-array type whose
// element refinement EXCLUDES zero (objects are zero-initialised), read before
// any store and used where the checker trusts the refinement: as divisor,
// modulus, index offset `a[e - 1]`, argument of a callee with the same
// refinement, through a slice of the refined elements; plus store-then-read
// controls. Flat programs.
func refineNonZero() []Program {
	var out []Program
	type decl struct {
		tag    string
		field  string // struct field declaration, or ""
		local  string // local variable declaration, or ""
		elem   func(idx string) string
		slice  string // expression for a slice of the elements ("" if scalar)
		scalar bool
	}
	decls := []decl{
		{"field array[4]", "d : array[4] base.u32[1 ..= 8]", "", func(i string) string { return "this.d[" + i + "]" }, "this.d[..]", false},
		{"field array[2] array[4]", "d : array[2] array[4] base.u32[1 ..= 8]", "", func(i string) string { return "this.d[1][" + i + "]" }, "this.d[1][..]", false},
		{"local array[4]", "", "d : array[4] base.u32[1 ..= 8]", func(i string) string { return "d[" + i + "]" }, "d[..]", false},
		{"local array[2] array[4]", "", "d : array[2] array[4] base.u32[1 ..= 8]", func(i string) string { return "d[1][" + i + "]" }, "d[1][..]", false},
		{"field scalar", "d : base.u32[1 ..= 8]", "", func(string) string { return "this.d" }, "", true},
		{"local scalar", "", "d : base.u32[1 ..= 8]", func(string) string { return "d" }, "", true},
		{"field array[4], zero allowed", "d : array[4] base.u32[..= 8]", "", func(i string) string { return "this.d[" + i + "]" }, "this.d[..]", false},
	}
	type use struct {
		tag  string
		body func(d decl) []string
	}
	uses := []use{
		{"divisor", func(d decl) []string { return []string{"this.r = args.x / " + d.elem("args.k")} }},
		{"modulus", func(d decl) []string { return []string{"this.r = args.x % " + d.elem("args.k")} }},
		{"index offset", func(d decl) []string { return []string{"this.r = this.a[" + d.elem("args.k") + " - 1] as base.u32"} }},
		{"callee argument", func(d decl) []string { return []string{"this.r = this.q(v: " + d.elem("args.k") + ")"} }},
		{"store then divide", func(d decl) []string {
			return []string{d.elem("0") + " = 5", "this.r = args.x / " + d.elem("0")}
		}},
		{"store elsewhere then divide", func(d decl) []string {
			return []string{d.elem("0") + " = 5", "this.r = args.x / " + d.elem("args.k")}
		}},
		{"divisor through a slice", func(d decl) []string {
			if d.slice == "" {
				return nil
			}
			return []string{"s = " + d.slice, "if s.length() > 0 {", "this.r = args.x / s[0]", "}"}
		}},
		{"copy out, then divide", func(d decl) []string { return []string{"e = " + d.elem("args.k"), "this.r = args.x / e"} }},
	}
	q := fn{header: "pri func foo.q(v: base.u32[1 ..= 8]) base.u32", body: []string{"return 100 / args.v"}}
	for _, d := range decls {
		for _, u := range uses {
			body := u.body(d)
			if body == nil {
				continue
			}
			fields := []string{"r : base.u32", "a : array[8] base.u8"}
			if d.field != "" {
				fields = append(fields, d.field)
			}
			// Only the programs that use them declare `s` and `e`: a local of
			// type `slice base.u32[1 ..= 8]` is itself a near-miss for checkers
			// that demand zero within the element refinement of every local.
			vars := []string{}
			if strings.Contains(u.tag, "slice") {
				if strings.Contains(d.tag, "zero allowed") {
					vars = append(vars, "s : slice base.u32[..= 8]")
				} else {
					vars = append(vars, "s : slice base.u32[1 ..= 8]")
				}
			}
			if strings.Contains(u.tag, "copy out") {
				vars = append(vars, "e : base.u32[..= 8]")
			}
			if d.local != "" {
				vars = append(vars, d.local)
			}
			w := fn{header: "pub func foo.w!(k: base.u32[..= 3], v: base.u32[1 ..= 8])", body: []string{"this.a[args.k] = 7"}}
			if d.field != "" {
				w.body = append(w.body, d.elem("args.k")+" = args.v")
			}
			m := fn{header: "pub func foo.m!(x: base.u32[..= 100], k: base.u32[..= 3])", vars: vars, body: body}
			out = append(out, mk("refine", render("foo", fields, q, w, m), tags("decl", d.tag, "nonzero-use", u.tag), nil))
		}
	}
	return out
}

// ---------------------------------------------------------------- ptr
//
// nptr / ptr values with and without `<> nullptr` guards, reassignment after
// the guard. Pointer targets are arrays (`ptr array[4] base.u8` obtained from
// `this.a[..] as ...`) and the built-in base.image_config argument.

type ptrFam struct{ thorough bool }

func (f *ptrFam) inner() *factsFam {
	g := &factsFam{name: "ptr", thorough: f.thorough, maxFull: 2, maxCore: 2}
	if f.thorough {
		g.maxFull, g.maxCore = 3, 3
	}
	g.wrap = func(body []string) string {
		fields := []string{"r : base.u8", "a : array[4] base.u8"}
		w := fn{header: "pub func foo.w!(v: base.u8[..= 5])", body: []string{"this.a[0] = args.v", "this.a[3] = args.v"}}
		m := fn{header: "pub func foo.m!(x: base.u8[..= 3], dst: nptr base.image_config)",
			vars: []string{"q : nptr array[4] base.u8", "d : nptr base.image_config"}, body: body}
		return render("foo", fields, w, m)
	}
	g.alpha = []item{
		st(true, "q = this.a[..] as ptr array[4] base.u8"),
		st(true, "q = nullptr"),
		st(true, "d = args.dst"),
		st(true, "d = nullptr"),
		st(true, "args.dst = nullptr"),
		st(true, "q[0] = 5"),
		op(true, "q <> nullptr"),
		op(true, "nullptr <> q"),
		op(true, "q == nullptr"),
		op(true, "args.dst <> nullptr"),
		op(true, "d <> nullptr"),
		op(true, "args.x < 2"),
		st(true, "if args.x < 2 {", "q = nullptr", "}"),
		st(true, "if args.x < 2 {", "q = this.a[..] as ptr array[4] base.u8", "} else {", "q = this.a[..] as ptr array[4] base.u8", "}"),
		st(true, "if q == nullptr {", "q = this.a[..] as ptr array[4] base.u8", "}"),
	}
	g.probes = []item{
		st(true, "this.r = q[args.x]"),
		st(true, "q[args.x] = 9"),
		st(true, "args.dst.set!(pixfmt: 0, pixsub: 0, width: 1, height: 1, first_frame_io_position: 0, first_frame_is_opaque: false)"),
		st(true, "d.set!(pixfmt: 0, pixsub: 0, width: 1, height: 1, first_frame_io_position: 0, first_frame_is_opaque: false)"),
	}
	return g
}
func (f *ptrFam) Name() string               { return "ptr" }
func (f *ptrFam) Roots() []Program           { return f.inner().Roots() }
func (f *ptrFam) Extend(p Program) []Program { return f.inner().Extend(p) }

// ---------------------------------------------------------------- calls
//
// Private pure / impure callees with refined parameters and results, `choose`
// with two alternatives, call chains A -> B -> C, recursion (direct, mutual,
// through choose) and struct cycles.

type callsFam struct{ thorough bool }

func (f *callsFam) Name() string             { return "calls" }
func (f *callsFam) Extend(Program) []Program { return nil }

func (f *callsFam) Roots() []Program {
	var out []Program
	seen := map[string]bool{}
	add := func(src string, tg map[string]string) {
		p := mk("calls", src, tg, nil)
		if !seen[p.ID] {
			seen[p.ID] = true
			out = append(out, p)
		}
	}
	fields := []string{"f : base.u8", "r : base.u8", "a : array[4] base.u8"}
	w := fn{header: "pub func foo.w!(v: base.u8[..= 5])", body: []string{"this.f = args.v", "this.a[0] = args.v"}}

	// 1. Argument / result refinement across one call.
	params := []string{"base.u8", "base.u8[..= 3]", "base.u8[1 ..= 4]"}
	results := []string{"base.u8", "base.u8[..= 3]", "base.u8[..= 7]"}
	retExprs := []string{"args.v", "args.v & 3", "this.f", "this.f & 3", "args.v + 1", "3"}
	argExprs := []string{"args.x", "args.y", "args.x & 3", "args.y + 1", "this.f", "0", "4"}
	uses := []string{"this.r = this.a[%s]", "this.r = %s", "this.r = this.a[%s & 3]"}
	effects := []string{"", "!"}
	for _, pt := range params {
		for _, rt := range results {
			for _, re := range retExprs {
				for _, ae := range argExprs {
					for ui, u := range uses {
						for _, eff := range effects {
							if !f.thorough && (ui == 2 || (eff == "!" && re != "this.f")) {
								continue
							}
							q := fn{header: "pri func foo.q" + eff + "(v: " + pt + ") " + rt, body: []string{"return " + re}}
							call := "this.q" + eff + "(v: " + ae + ")"
							var body []string
							if eff == "!" {
								body = []string{"u = " + call, fmt.Sprintf(u, "u")}
							} else {
								body = []string{fmt.Sprintf(u, call)}
							}
							m := fn{header: "pub func foo.m!(x: base.u8, y: base.u8[..= 3])", vars: []string{"u : " + rt}, body: body}
							add(render("foo", fields, q, w, m), tags("kind", "arg-result", "param", pt, "result", rt, "ret", re, "arg", ae, "use", u, "effect", eff))
						}
					}
				}
			}
		}
	}

	// 2. Chains and cycles.
	type edge struct{ from, to string }
	graphs := map[string][]edge{
		"chain a->b->c":       {{"qa", "qb"}, {"qb", "qc"}},
		"direct recursion":    {{"qa", "qa"}},
		"mutual recursion":    {{"qa", "qb"}, {"qb", "qa"}},
		"cycle of three":      {{"qa", "qb"}, {"qb", "qc"}, {"qc", "qa"}},
		"diamond":             {{"qa", "qb"}, {"qa", "qc"}, {"qb", "qc"}},
		"self via last":       {{"qa", "qb"}, {"qb", "qc"}, {"qc", "qc"}},
		"no calls":            {},
		"recursion, unused":   {{"qc", "qc"}},
		"back edge to caller": {{"qa", "qb"}, {"qb", "qc"}, {"qc", "qb"}},
	}
	for _, name := range []string{"chain a->b->c", "direct recursion", "mutual recursion", "cycle of three", "diamond", "self via last", "no calls", "recursion, unused", "back edge to caller"} {
		for _, eff := range effects {
			for _, guarded := range []bool{false, true} {
				var fns []fn
				for _, fname := range []string{"qa", "qb", "qc"} {
					body := []string{}
					for _, e := range graphs[name] {
						if e.from == fname {
							call := "u = this." + e.to + eff + "(v: args.v)"
							if guarded {
								body = append(body, "if args.v > 200 {", call, "}")
							} else {
								body = append(body, call)
							}
						}
					}
					body = append(body, "return u ~mod+ 1")
					fns = append(fns, fn{header: "pri func foo." + fname + eff + "(v: base.u8) base.u8", vars: []string{"u : base.u8"}, body: body})
				}
				m := fn{header: "pub func foo.m!(x: base.u8)", vars: []string{"u : base.u8"}, body: []string{"u = this.qa" + eff + "(v: args.x)", "this.r = u"}}
				fns = append(fns, w, m)
				add(render("foo", fields, fns...), tags("kind", "graph", "graph", name, "effect", eff, "guarded", fmt.Sprint(guarded)))
			}
		}
	}

	// 3. choose: alternatives, recursion through an alternative.
	for _, v := range []struct {
		name    string
		altBody []string
		alt2    []string
		choose  string
	}{
		{"choose one", []string{"this.r = 1"}, []string{"this.r = 2"}, "choose up = [up_a]"},
		{"choose two", []string{"this.r = 1"}, []string{"this.r = 2"}, "choose up = [up_a, up_b]"},
		{"choose none", []string{"this.r = 1"}, []string{"this.r = 2"}, ""},
		{"alt calls choosy", []string{"this.up!(v: args.v)"}, []string{"this.r = 2"}, "choose up = [up_a]"},
		{"alt calls choosy, not chosen", []string{"this.r = 1"}, []string{"this.up!(v: args.v)"}, "choose up = [up_a]"},
		{"alt calls alt", []string{"this.up_b!(v: args.v)"}, []string{"this.up_a!(v: args.v)"}, "choose up = [up_a, up_b]"},
		{"alt indexes", []string{"this.a[args.v] = 1"}, []string{"this.r = 2"}, "choose up = [up_a]"},
		{"choosy calls alt", []string{"this.r = 1"}, []string{"this.r = 2"}, "choose up = [up_a]"},
	} {
		upBody := []string{"this.r = 7"}
		if v.name == "choosy calls alt" {
			upBody = []string{"this.up_a!(v: args.v)"}
		}
		for _, pt := range []string{"base.u8", "base.u8[..= 3]"} {
			up := fn{header: "pri func foo.up!(v: " + pt + "), choosy", body: upBody}
			upa := fn{header: "pri func foo.up_a!(v: " + pt + ")", body: v.altBody}
			upb := fn{header: "pri func foo.up_b!(v: " + pt + ")", body: v.alt2}
			var mbody []string
			if v.choose != "" {
				mbody = append(mbody, v.choose)
			}
			mbody = append(mbody, "this.up!(v: args.y)")
			m := fn{header: "pub func foo.m!(x: base.u8, y: base.u8[..= 3])", body: mbody}
			add(render("foo", fields, up, upa, upb, w, m), tags("kind", "choose", "variant", v.name, "param", pt))
		}
	}

	// 4. Struct cycles.
	for _, v := range []struct {
		name   string
		fooF   string
		barF   string
		public string
	}{
		{"no nesting", "r : base.u8", "g : base.u8", "pri"},
		{"foo has bar", "b : bar", "g : base.u8", "pri"},
		{"foo <-> bar", "b : bar", "h : foo", "pri"},
		{"bar has bar", "r : base.u8", "h : bar", "pri"},
		{"foo has foo", "b : foo", "g : base.u8", "pri"},
		{"array of bar", "b : array[2] bar", "g : base.u8", "pri"},
		{"array cycle", "b : array[2] bar", "h : array[2] foo", "pri"},
	} {
		src := "pri struct bar(\n" + v.barF + ",\n)\n\n" + render("foo", []string{"r2 : base.u8", v.fooF},
			fn{header: "pub func foo.m!(x: base.u8)", body: []string{"this.r2 = args.x"}})
		add(src, tags("kind", "struct-cycle", "variant", v.name))
	}
	return out
}
