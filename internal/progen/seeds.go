package progen

import "strings"

// ---------------------------------------------------------------- seeds
//
// Hand-written minimal programs, one per suspected checker hole named in the
// property text (properties.jsonl C01 "why_tests_cant") and DESIGN section 6.
// They are not a substitute for the enumerated families: they make sure every
// expected root cause is exercised (and its signature reported) even at the
// quick tier's depth, and they give the shortest known path from a false fact
// to an actual out-of-bounds access.

type seedsFam struct{}

func (f *seedsFam) Name() string             { return "seeds" }
func (f *seedsFam) Extend(Program) []Program { return nil }

type seed struct {
	name   string
	extra  []string // extra tags (key, value, ...)
	fields []string
	funcs  []fn
}

func body(s string) []string {
	var out []string
	for _, l := range strings.Split(strings.TrimSpace(s), "\n") {
		out = append(out, strings.TrimSpace(l))
	}
	return out
}

var seedList = []seed{
	{
		// v = v + 1 leaves "v == (v + 1)"; three axioms turn it into "(i + 1) < 4".
		name:   "self-assign fact to out-of-bounds store",
		fields: []string{"a : array[4] base.u8"},
		funcs: []fn{{header: "pub func foo.m!(x: base.u32[..= 9])", vars: []string{"i : base.u32"}, body: body(`
			i = args.x
			i = i + 1
			assert i >= (i + 1) via "a >= b: a == b"()
			assert (i + 1) <= i via "a <= b: b >= a"()
			if i < 4 {
			assert (i + 1) < 4 via "a < b: a <= c; c < b"(c: i)
			this.a[i + 1] = 1
			}`)}},
	},
	{
		// x -= x rewrites "x >= 2" into "x >= (2 - x)".
		name:   "compound self-subtraction rewrites facts with the old value",
		fields: []string{"a : array[4] base.u8"},
		funcs: []fn{{header: "pub func foo.m!(x: base.u32[..= 3])", vars: []string{"i : base.u32", "j : base.u32"}, body: body(`
			i = args.x
			if i >= 2 {
			if i >= (i >> 1) {
			i -= (i >> 1)
			this.a[i - (2 - (i >> 1))] = 1
			}
			}`)}},
	},
	{
		// "a <= (a + b): 0 <= b" never compares the two a's.
		name:   "axiom a <= (a + b) accepts unrelated a's",
		extra:  []string{"mismatch", "a"},
		fields: []string{"a : array[4] base.u8"},
		funcs: []fn{{header: "pub func foo.m!(x: base.u32[..= 9], y: base.u32[..= 3])", vars: []string{"i : base.u32"}, body: body(`
			i = 0
			assert args.x <= (args.y + i) via "a <= (a + b): 0 <= b"()
			if (args.y + i) < 4 {
			assert args.x < 4 via "a < b: a <= c; c < b"(c: args.y + i)
			this.a[args.x] = 1
			}`)}},
	},
	{
		// ~mod<< keeps the un-wrapped lower bound.
		name:   "~mod<< range keeps the unwrapped lower bound",
		fields: []string{"r : base.u8", "a : array[4] base.u8"},
		funcs: []fn{{header: "pub func foo.m!(w: base.u8[128 ..= 255])", vars: []string{"v : base.u8"}, body: body(`
			this.r = this.a[255 - (args.w ~mod<< 1)]`)}},
	},
	{
		// a store to a[i] does not drop a fact about a[j].
		name:   "index aliasing: fact about a[j] survives a store to a[i]",
		fields: []string{"r : base.u8", "a : array[4] base.u8"},
		funcs: []fn{
			{header: "pub func foo.w!(v: base.u8[..= 5])", body: []string{"this.a[0] = args.v", "this.a[1] = args.v"}},
			{header: "pub func foo.m!(x: base.u32[..= 3], y: base.u32[..= 3])", body: body(`
			if this.a[args.y] < 4 {
			this.a[args.x] = 200
			this.r = this.a[this.a[args.y]]
			}`)}},
	},
	{
		// a slice of this.a survives a store to this.a[...].
		name:   "slice aliasing: fact about s[0] survives a store to the sliced array",
		fields: []string{"r : base.u8", "a : array[4] base.u8"},
		funcs: []fn{{header: "pub func foo.m!(x: base.u32[..= 3])", vars: []string{"s : slice base.u8"}, body: body(`
			s = this.a[.. 4]
			if s[0] < 4 {
			this.a[0] = 200
			this.r = this.a[s[0]]
			}`)}},
	},
	{
		// impure call through this does not drop facts about a local slice of this.a.
		name:   "slice aliasing: fact about s[0] survives an impure call",
		fields: []string{"r : base.u8", "a : array[4] base.u8"},
		funcs: []fn{
			{header: "pri func foo.g!()", body: []string{"this.a[0] = 200"}},
			{header: "pub func foo.m!(x: base.u32[..= 3])", vars: []string{"s : slice base.u8"}, body: body(`
			s = this.a[.. 4]
			if s[0] < 4 {
			this.g!()
			this.r = this.a[s[0]]
			}`)}},
	},
	{
		// a fact about this.p() survives a store to the field p() reads.
		name:   "stale pure-call fact",
		fields: []string{"f : base.u32", "r : base.u8", "a : array[4] base.u8"},
		funcs: []fn{
			{header: "pri func foo.p() base.u32", body: []string{"return this.f"}},
			{header: "pub func foo.m!(x: base.u32[..= 3])", body: body(`
			if this.p() < 4 {
			this.f = 200
			this.r = this.a[this.p()]
			}`)}},
	},
	{
		// a slice typed `slice base.u8` may alias an array of refined elements.
		name:   "refined array written through an unrefined slice",
		fields: []string{"r : base.u8", "a : array[4] base.u8", "c : array[4] base.u8[..= 3]"},
		funcs: []fn{{header: "pub func foo.m!(x: base.u8)", vars: []string{"s : slice base.u8"}, body: body(`
			s = this.c[.. 4]
			s[0] = args.x
			this.r = this.a[this.c[0]]`)}},
	},
	{
		name:   "refined local array written through copy_from_slice",
		fields: []string{"r : base.u8", "a : array[4] base.u8"},
		funcs: []fn{
			{header: "pub func foo.w!(v: base.u8)", body: []string{"this.a[0] = args.v"}},
			{header: "pub func foo.m!(x: base.u8)", vars: []string{"b : array[4] base.u8[..= 3]"}, body: body(`
			b[..].copy_from_slice!(s: this.a[..])
			this.r = this.a[b[0]]`)}},
	},
	{
		// the while condition is only bounds-checked with the loop-entry facts.
		name:   "while condition indexes with a variable the body changes",
		fields: []string{"r : base.u8", "a : array[4] base.u8"},
		funcs: []fn{{header: "pub func foo.m!(x: base.u32[..= 3])", vars: []string{"i : base.u32", "j : base.u32"}, body: body(`
			i = 0
			while this.a[i] == 0 {
			j = (i & 3) + 1
			i = j
			}`)}},
	},
	{
		// a pre/inv condition that holds at entry but is not re-proved precisely.
		name:   "loop invariant near-miss",
		fields: []string{"r : base.u8", "a : array[4] base.u8"},
		funcs: []fn{{header: "pub func foo.m!(x: base.u32[..= 3])", vars: []string{"i : base.u32"}, body: body(`
			i = 0
			while i < 4, inv i <= 4, post i >= 4, {
			this.a[i] = 1
			i += 1
			}
			this.r = this.a[i - 1]`)}},
	},
	{
		// x += c on a fact "x < y" where y mentions x on the right-hand side.
		name:   "compound assignment with a fact whose right-hand side mentions a copy",
		fields: []string{"r : base.u8", "a : array[4] base.u8"},
		funcs: []fn{{header: "pub func foo.m!(x: base.u32[..= 3])", vars: []string{"i : base.u32", "j : base.u32"}, body: body(`
			i = args.x
			j = i
			if i < 3 {
			i += 1
			this.r = this.a[j]
			}`)}},
	},
}

func init() {
	seedList = append(seedList, seed{
		// facts.update can rewrite two facts into the same one; unify then counts
		// the duplicate as "present in both branches".
		name:   "if/else reconciliation counts a duplicated fact twice",
		fields: []string{"r : base.u8"},
		funcs: []fn{{header: "pub func foo.m!(src: base.io_reader)", body: body(`
			if args.src.length() >= 2 {
			if args.src.length() > 1 {
			args.src.skip_u32_fast!(actual: 1, worst_case: 1)
			}
			}
			this.r = args.src.peek_u8()`)}},
	})
}

func (f *seedsFam) Roots() []Program {
	var out []Program
	for _, s := range seedList {
		out = append(out, mk("seeds", render("foo", s.fields, s.funcs...), tags(append([]string{"seed", s.name}, s.extra...)...), nil))
	}
	return out
}
