package progen

import (
	"fmt"
	"os"
	"path/filepath"
	"strings"

	"verif/internal/ev"
)

// ---------------------------------------------------------------- axiom listing

// AxNode is a node of an axiom's claim or requirement: a variable, a constant
// or a binary operator.
type AxNode struct {
	Op   string // "" for leaves
	Leaf string // variable name or decimal constant
	L, R *AxNode
}

type Axiom struct {
	Name  string // the full string, e.g. "a < b: a < c; c <= b"
	Claim *AxNode
	Reqs  []*AxNode
}

// ParseAxioms is an independent parser of lang/check/axioms.md: every
// `"claim: req; req"` between backquotes after the first "---" line.
func ParseAxioms(md string) ([]Axiom, error) {
	if i := strings.Index(md, "\n---\n"); i >= 0 {
		md = md[i:]
	}
	var out []Axiom
	for {
		i := strings.Index(md, "`\"")
		if i < 0 {
			break
		}
		md = md[i+2:]
		j := strings.Index(md, "\"`")
		if j < 0 {
			break
		}
		name := md[:j]
		md = md[j+2:]
		colon := strings.Index(name, ":")
		if colon < 0 {
			return nil, fmt.Errorf("axiom %q has no ':'", name)
		}
		ax := Axiom{Name: name}
		var err error
		if ax.Claim, err = parseAx(strings.TrimSpace(name[:colon])); err != nil {
			return nil, fmt.Errorf("axiom %q: %v", name, err)
		}
		for _, r := range strings.Split(name[colon+1:], ";") {
			n, err := parseAx(strings.TrimSpace(r))
			if err != nil {
				return nil, fmt.Errorf("axiom %q: %v", name, err)
			}
			ax.Reqs = append(ax.Reqs, n)
		}
		out = append(out, ax)
	}
	return out, nil
}

func parseAx(s string) (*AxNode, error) {
	toks := strings.Fields(strings.NewReplacer("(", " ( ", ")", " ) ").Replace(s))
	pos := 0
	var operand func() (*AxNode, error)
	var expr func() (*AxNode, error)
	operand = func() (*AxNode, error) {
		if pos >= len(toks) {
			return nil, fmt.Errorf("unexpected end in %q", s)
		}
		tk := toks[pos]
		pos++
		if tk == "(" {
			n, err := expr()
			if err != nil {
				return nil, err
			}
			if pos >= len(toks) || toks[pos] != ")" {
				return nil, fmt.Errorf("missing ')' in %q", s)
			}
			pos++
			return n, nil
		}
		return &AxNode{Leaf: tk}, nil
	}
	expr = func() (*AxNode, error) {
		l, err := operand()
		if err != nil {
			return nil, err
		}
		if pos >= len(toks) || toks[pos] == ")" {
			return l, nil
		}
		o := toks[pos]
		pos++
		switch o {
		case "+", "-", "<", "<=", "==", "!=", ">=", ">":
		default:
			return nil, fmt.Errorf("bad operator %q in %q", o, s)
		}
		r, err := operand()
		if err != nil {
			return nil, err
		}
		return &AxNode{Op: o, L: l, R: r}, nil
	}
	n, err := expr()
	if err != nil {
		return nil, err
	}
	if pos != len(toks) {
		return nil, fmt.Errorf("trailing tokens in %q", s)
	}
	return n, nil
}

func (n *AxNode) IsVar() bool {
	return n.Op == "" && n.Leaf != "" && (n.Leaf[0] < '0' || n.Leaf[0] > '9')
}

// Vars lists the distinct variables in first-occurrence order.
func (a Axiom) Vars() []string {
	var out []string
	seen := map[string]bool{}
	var walk func(n *AxNode)
	walk = func(n *AxNode) {
		if n == nil {
			return
		}
		if n.IsVar() && !seen[n.Leaf] {
			seen[n.Leaf] = true
			out = append(out, n.Leaf)
		}
		walk(n.L)
		walk(n.R)
	}
	walk(a.Claim)
	for _, r := range a.Reqs {
		walk(r)
	}
	return out
}

// Eval evaluates a node under an assignment (comparisons give 0/1).
func (n *AxNode) Eval(env map[string]int64) int64 {
	if n.Op == "" {
		if n.IsVar() {
			return env[n.Leaf]
		}
		var v int64
		fmt.Sscan(n.Leaf, &v)
		return v
	}
	l, r := n.L.Eval(env), n.R.Eval(env)
	b := func(x bool) int64 {
		if x {
			return 1
		}
		return 0
	}
	switch n.Op {
	case "+":
		return l + r
	case "-":
		return l - r
	case "<":
		return b(l < r)
	case "<=":
		return b(l <= r)
	case "==":
		return b(l == r)
	case "!=":
		return b(l != r)
	case ">=":
		return b(l >= r)
	case ">":
		return b(l > r)
	}
	return 0
}

// LoadAxioms reads the working tree's axiom listing.
func LoadAxioms() ([]Axiom, error) {
	b, err := os.ReadFile(filepath.Join(ev.Repo(), "lang", "check", "axioms.md"))
	if err != nil {
		return nil, err
	}
	return ParseAxioms(string(b))
}

// ---------------------------------------------------------------- axioms family

type axiomsFam struct{ thorough bool }

func (f *axiomsFam) Name() string             { return "axioms" }
func (f *axiomsFam) Extend(Program) []Program { return nil }

var axPool = []string{"args.x", "args.y", "i", "1", "0", "i + 1"}

// occurrence-indexed rendering: occ[v] counts the occurrences of v seen so
// far; bind(v, k) gives the expression for the k-th occurrence.
type axRender struct {
	occ  map[string]int
	bind func(v string, k int) string
}

func (r *axRender) node(n *AxNode, top bool) string {
	if n.Op == "" {
		if !n.IsVar() {
			return n.Leaf
		}
		k := r.occ[n.Leaf]
		r.occ[n.Leaf]++
		s := r.bind(n.Leaf, k)
		if strings.Contains(s, " ") {
			return "(" + s + ")"
		}
		return s
	}
	o := n.Op
	if o == "!=" {
		o = "<>"
	}
	s := r.node(n.L, false) + " " + o + " " + r.node(n.R, false)
	if !top {
		return "(" + s + ")"
	}
	return s
}

func (f *axiomsFam) program(ax Axiom, base map[string]string, mv string, mocc int, alt string) Program {
	r := &axRender{occ: map[string]int{}}
	r.bind = func(v string, k int) string {
		if v == mv && k == mocc {
			return alt
		}
		return base[v]
	}
	claimVars := map[string]bool{}
	var walk func(n *AxNode)
	walk = func(n *AxNode) {
		if n == nil {
			return
		}
		if n.IsVar() {
			claimVars[n.Leaf] = true
		}
		walk(n.L)
		walk(n.R)
	}
	walk(ax.Claim)
	claim := r.node(ax.Claim, true)
	var reqs []string
	for _, q := range ax.Reqs {
		reqs = append(reqs, r.node(q, true))
	}
	var via []string
	for _, v := range ax.Vars() {
		if !claimVars[v] {
			k := r.occ[v]
			r.occ[v]++
			via = append(via, v+": "+r.bind(v, k))
		}
	}
	var body []string
	body = append(body, "i = args.z")
	for _, q := range reqs {
		body = append(body, "if "+q+" {")
	}
	body = append(body, "assert "+claim+" via \""+ax.Name+"\"("+strings.Join(via, ", ")+")")
	body = append(body, "this.r = 1")
	for range reqs {
		body = append(body, "}")
	}
	m := fn{header: "pub func foo.m!(x: base.u32[..= 15], y: base.u32[..= 15], z: base.u32[..= 15])",
		vars: []string{"i : base.u32"}, body: body}
	mm := ""
	if mv != "" {
		mm = mv
	}
	return mk("axioms", render("foo", []string{"r : base.u8"}, m), tags("axiom", ax.Name, "mismatch", mm), nil)
}

// occurrences counts the textual occurrences of each variable (claim,
// requirements, and one for the via-argument of a variable absent from the claim).
func axOccurrences(ax Axiom) map[string]int {
	occ := map[string]int{}
	inClaim := map[string]bool{}
	var walk func(n *AxNode, claim bool)
	walk = func(n *AxNode, claim bool) {
		if n == nil {
			return
		}
		if n.IsVar() {
			occ[n.Leaf]++
			if claim {
				inClaim[n.Leaf] = true
			}
		}
		walk(n.L, claim)
		walk(n.R, claim)
	}
	walk(ax.Claim, true)
	for _, q := range ax.Reqs {
		walk(q, false)
	}
	for v := range occ {
		if !inClaim[v] {
			occ[v]++
		}
	}
	return occ
}

func (f *axiomsFam) Roots() []Program {
	axs, err := LoadAxioms()
	if err != nil {
		return nil
	}
	var out []Program
	seen := map[string]bool{}
	add := func(p Program) {
		if !seen[p.ID] {
			seen[p.ID] = true
			out = append(out, p)
		}
	}
	for _, ax := range axs {
		vars := ax.Vars()
		pool := axPool
		if !f.thorough {
			pool = axPool[:4]
		}
		if len(vars) >= 4 {
			pool = axPool[:3]
		}
		// Matched instantiations.
		idx := make([]int, len(vars))
		for {
			base := map[string]string{}
			for i, v := range vars {
				base[v] = pool[idx[i]]
			}
			add(f.program(ax, base, "", -1, ""))
			k := len(idx) - 1
			for ; k >= 0; k-- {
				idx[k]++
				if idx[k] < len(pool) {
					break
				}
				idx[k] = 0
			}
			if k < 0 {
				break
			}
		}
		// Mismatched: one occurrence (not the first) of one repeated variable
		// is bound to a different expression.
		bpool := axPool[:3]
		if !f.thorough {
			bpool = []string{"args.x", "i"}
		}
		if len(vars) >= 4 && !f.thorough {
			bpool = []string{"args.x"}
		}
		occ := axOccurrences(ax)
		idx = make([]int, len(vars))
		for {
			base := map[string]string{}
			for i, v := range vars {
				base[v] = bpool[idx[i]]
			}
			for _, v := range vars {
				for o := 1; o < occ[v]; o++ {
					for _, alt := range axPool {
						if alt != base[v] {
							add(f.program(ax, base, v, o, alt))
						}
					}
				}
			}
			k := len(idx) - 1
			for ; k >= 0; k-- {
				idx[k]++
				if idx[k] < len(bpool) {
					break
				}
				idx[k] = 0
			}
			if k < 0 {
				break
			}
		}
	}
	return out
}
