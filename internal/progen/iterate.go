package progen

import (
	"fmt"
	"strings"
)

// ---------------------------------------------------------------- iterate
//
// `iterate (s = e [, p = e2])(length: L, advance: A, unroll: U) { body }` for
// L, A in {1, 2, 4} (A <= L), U in {1, 2}, with and without an `else` round,
// one or two slices, bodies that read / write the window at and just past its
// ends, reassign the iterate variable, write the underlying array, followed by
// a probe. Flat family.

type iterateFam struct{ thorough bool }

func (f *iterateFam) Name() string             { return "iterate" }
func (f *iterateFam) Extend(Program) []Program { return nil }

func (f *iterateFam) Roots() []Program {
	var out []Program
	seen := map[string]bool{}
	fields := []string{"r : base.u8", "q : base.u16", "a : array[8] base.u8"}
	w := fn{header: "pub func foo.w!(v: base.u8[..= 5])", body: []string{"this.a[0] = args.v", "this.a[3] = args.v", "this.a[7] = args.v"}}
	srcs := []string{"args.t", "this.a[..]", "this.a[1 .. 7]"}
	srcs2 := []string{"", "args.u", "this.a[..]"}
	las := [][2]int{{1, 1}, {2, 1}, {2, 2}, {4, 1}, {4, 2}, {4, 4}}
	unrolls := []int{1, 2}
	elses := []string{"", "1,1", "2,1"}
	probes := []string{"this.r = v", "v = s[0]"}
	if !f.thorough {
		srcs2 = srcs2[:2]
		elses = elses[:2]
		probes = probes[:1]
	}
	for _, src := range srcs {
		for _, src2 := range srcs2 {
			for _, la := range las {
				L, A := la[0], la[1]
				bodies := [][]string{
					{"v = s[0]"},
					{fmt.Sprintf("v = s[%d]", L-1)},
					{fmt.Sprintf("v = s[%d]", L)},
					{"s[0] = 7"},
					{fmt.Sprintf("s[%d] = v", L-1), "v ~mod+= 1"},
					{"i ~mod+= 1", "this.a[i & 7] = s[0]"},
					{"this.a[0] = 200", "v = s[0]"},
					{"v = s.peek_u8()"},
					{"s = s[1 ..]", "v ~mod+= 1"},
					{"s = s[1 ..]", "v = s[0]"},
					{"i += 1"},
					{"if s[0] == 0 {", "v = 1", "}"},
					// break / continue targeting the iterate (each round and unrolled copy is its own
					// C loop; found by reading cgen after a sub-agent's remark, DESIGN 10.2 #50)
					{"if s[0] == 0 {", "break", "}", "v ~mod+= 1"},
					{"if s[0] == 1 {", "continue", "}", "v ~mod+= 1"},
					{"v ~mod+= 1", "if s[0] == 0 {", "continue", "}", "if s[0] == 1 {", "break", "}", "v ~mod+= 2"},
				}
				if L >= 2 {
					bodies = append(bodies, []string{"this.q = s.peek_u16le()"}, []string{"this.q = s[1 ..].peek_u16le()"})
				}
				if src2 != "" {
					bodies = append(bodies, []string{"v = s[0] ~mod+ p[0]"}, []string{fmt.Sprintf("s[0] = p[%d]", L-1)}, []string{fmt.Sprintf("v = p[%d]", L)})
				}
				for bi, b := range bodies {
					for _, U := range unrolls {
						for _, el := range elses {
							if !f.thorough && U == 2 && (bi%3 != 0 || el != "") && !strings.Contains(strings.Join(b, " "), "break") {
								continue
							}
							for _, pr := range probes {
								assigns := "s = " + src
								if src2 != "" {
									assigns += ", p = " + src2
								}
								body := []string{fmt.Sprintf("iterate (%s)(length: %d, advance: %d, unroll: %d) {", assigns, L, A, U)}
								body = append(body, b...)
								if el != "" {
									var eL, eA int
									fmt.Sscanf(el, "%d,%d", &eL, &eA)
									body = append(body, fmt.Sprintf("} else (length: %d, advance: %d, unroll: 1) {", eL, eA))
									body = append(body, "v = s[0]")
								}
								body = append(body, "}", pr)
								m := fn{header: "pub func foo.m!(x: base.u32[..= 3], t: slice base.u8, u: roslice base.u8)",
									vars: []string{"s : slice base.u8", "p : roslice base.u8", "i : base.u32", "v : base.u8"}, body: body}
								p := mk("iterate", render("foo", fields, w, m), tags("src", src, "src2", src2, "length", fmt.Sprint(L), "advance", fmt.Sprint(A),
									"unroll", fmt.Sprint(U), "else", el, "body", strings.Join(b, " ; "), "probe", pr), nil)
								if !seen[p.ID] {
									seen[p.ID] = true
									out = append(out, p)
								}
							}
						}
					}
				}
			}
		}
	}
	return out
}
