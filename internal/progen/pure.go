package progen

import (
	"fmt"
	"strings"
)

// ---------------------------------------------------------------- pure
//
// Methods declared pure (no "!" or "?" effect) x every way a write could be
// attempted from inside one: direct field / element / nested-element stores,
// stores through a local slice taken from a field, from an element of a 2- or
// 3-level array field, from a slice of a slice, from a slice of arrays; through
// `ptr array`; `copy_from_slice!` / `bulk_memset!` on such slices; calling an
// impure method; passing a field slice to a callee that writes through its
// argument; writes to by-reference arguments (slices, io_writer). Most of them
// must be REJECTED by the checker (near-misses); the accepted ones (reads
// through the same paths, writes to the method's own local arrays) are
// executed under the purity monitor of interp (C10). Flat family; the method
// under test is generated once as a public and once as a private pure method
// (called through a public pure wrapper).

type pureFam struct{ thorough bool }

func (f *pureFam) Name() string             { return "pure" }
func (f *pureFam) Extend(Program) []Program { return nil }

type pureAttempt struct {
	tag   string
	vars  []string
	body  []string
	useS  bool // needs the `s: slice base.u8` argument
	useD  bool // needs the `dst: base.io_writer` argument
	useWr bool // needs the private pure callee `wr` that writes through its argument
}

// pureSources are the ways to obtain a slice of receiver memory.
var pureSources = []struct {
	expr, tag string
	vars      []string
	pre       []string
}{
	{"this.a[..]", "1-level field", nil, nil},
	{"this.a[1 .. 3]", "1-level field, partial", nil, nil},
	{"this.g[1][..]", "element of a 2-level field", nil, nil},
	{"this.g[args.x & 1][1 ..]", "element of a 2-level field, variable index", nil, nil},
	{"this.h[1][0][..]", "element of a 3-level field", nil, nil},
	{"ra[1][..]", "2-level field through a roslice of roarrays", []string{"ra : roslice roarray[4] base.u8"}, []string{"ra = this.g[.. 2]"}},
	{"ra[1][..]", "2-level field through a roslice of (writable) arrays", []string{"ra : roslice array[4] base.u8"}, []string{"ra = this.g[.. 2]"}},
	{"rb[0][..]", "3-level field through a roslice of roarrays", []string{"rb : roslice roarray[4] base.u8"}, []string{"rb = this.h[1][.. 2]"}},
	{"rc[1][1][..]", "3-level field through a roslice of roarrays of roarrays", []string{"rc : roslice roarray[2] roarray[4] base.u8"}, []string{"rc = this.h[.. 2]"}},
	{"rc[1][1][..]", "3-level field through a roslice of roarrays of (writable) arrays", []string{"rc : roslice roarray[2] array[4] base.u8"}, []string{"rc = this.h[.. 2]"}},
}

func guard(cond string, body ...string) []string {
	out := []string{"if " + cond + " {"}
	out = append(out, body...)
	return append(out, "}")
}

func pureAttempts() []pureAttempt {
	var at []pureAttempt
	add := func(tag string, vars []string, body []string) *pureAttempt {
		at = append(at, pureAttempt{tag: tag, vars: vars, body: body})
		return &at[len(at)-1]
	}
	// Direct stores.
	for _, st := range []string{"this.f = 9", "this.f += 1", "this.a[0] = 9", "this.a[args.x] = 9", "this.g[1][0] = 9",
		"this.g[args.x & 1][args.x] = 9", "this.h[1][0][2] = 9", "this.a = this.g[0]", "this.g[0] = this.a"} {
		add("direct store: "+st, nil, []string{st})
	}
	// Calls of impure methods.
	add("impure call: this.imp!()", nil, []string{"this.imp!()"})
	add("impure call: this.w!(v: 1)", nil, []string{"this.w!(v: 1)"})
	// Through slices of receiver memory.
	for _, src := range pureSources {
		src := src
		full := strings.HasSuffix(src.expr, "[..]")
		add := func(tag string, vars []string, body []string) *pureAttempt {
			return add(tag, append(append([]string(nil), src.vars...), vars...), append(append([]string(nil), src.pre...), body...))
		}
		add("read through roslice of "+src.tag, []string{"ro : roslice base.u8"},
			append([]string{"ro = " + src.expr}, guard("ro.length() > 0", "v = ro[0]")...))
		add("read through slice of "+src.tag, []string{"r : slice base.u8"},
			append([]string{"r = " + src.expr}, guard("r.length() > 0", "v = r[0]")...))
		add("store through slice of "+src.tag, []string{"r : slice base.u8"},
			append([]string{"r = " + src.expr}, guard("r.length() > 0", "r[0] = 9")...))
		add("store through roslice of "+src.tag, []string{"ro : roslice base.u8"},
			append([]string{"ro = " + src.expr}, guard("ro.length() > 0", "ro[0] = 9")...))
		add("store through slice of slice of "+src.tag, []string{"r : slice base.u8", "t : slice base.u8"},
			append([]string{"r = " + src.expr}, guard("r.length() > 0", append([]string{"t = r[1 ..]"}, guard("t.length() > 0", "t[0] = 9")...)...)...))
		add("direct store into slice expression of "+src.tag, nil, []string{src.expr + "[0] = 9"})
		a := add("copy_from_slice! into slice of "+src.tag, []string{"r : slice base.u8"},
			[]string{"r = " + src.expr, "r.copy_from_slice!(s: args.s)"})
		a.useS = true
		add("bulk_memset! on slice of "+src.tag, []string{"r : slice base.u8"},
			[]string{"r = " + src.expr, "r.bulk_memset!(byte_value: 9)"})
		a = add("pass slice of "+src.tag+" to a callee with a writable slice parameter", nil, []string{"v = this.wr(s: " + src.expr + ")"})
		a.useWr = true
		if full {
			add("store through ptr array of "+src.tag, []string{"q : nptr array[4] base.u8"},
				[]string{"q = " + src.expr + " as ptr array[4] base.u8", "q[0] = 9"})
			add("read through ptr roarray of "+src.tag, []string{"qr : nptr roarray[4] base.u8"},
				[]string{"qr = " + src.expr + " as ptr roarray[4] base.u8", "v = qr[0]"})
			add("store through ptr roarray of "+src.tag, []string{"qr : nptr roarray[4] base.u8"},
				[]string{"qr = " + src.expr + " as ptr roarray[4] base.u8", "qr[0] = 9"})
		}
	}
	// By-reference arguments.
	a := add("by-reference argument: args.s[0] = 9", nil, guard("args.s.length() > 0", "args.s[0] = 9"))
	a.useS = true
	a = add("by-reference argument: store through a local copy of args.s", []string{"r : slice base.u8"},
		append([]string{"r = args.s"}, guard("r.length() > 0", "r[0] = 9")...))
	a.useS = true
	a = add("by-reference argument: args.s.copy_from_slice!", nil, []string{"args.s.copy_from_slice!(s: this.a[..])"})
	a.useS = true
	a = add("by-reference argument: read args.s", nil, guard("args.s.length() > 0", "v = args.s[0]"))
	a.useS = true
	a = add("by-reference argument: pass args.s to a callee with a writable slice parameter", nil, []string{"v = this.wr(s: args.s)"})
	a.useS, a.useWr = true, true
	a = add("by-reference argument: args.dst.write_u8_fast!", nil, guard("args.dst.length() >= 1", "args.dst.write_u8_fast!(a: 9)"))
	a.useD = true
	a = add("by-reference argument: read args.dst.length()", nil, guard("args.dst.length() >= 1", "v = 1"))
	a.useD = true
	// Negative controls: a pure method may write its own locals.
	add("local array copy, refused", []string{"b : array[4] base.u8"}, []string{"b = this.g[1]", "b[0] = 9", "v = b[0]"})
	add("local array, store", []string{"b : array[4] base.u8"}, []string{"b[1] = this.g[1][0]", "b[0] = 9", "v = b[0] ~mod+ b[1]"})
	add("local 2-level array, store", []string{"c : array[2] array[4] base.u8"}, []string{"c[1][2] = this.g[1][0]", "c[0][0] = 9", "v = c[0][0] ~mod+ c[1][2]"})
	add("slice of a local array, store", []string{"b : array[4] base.u8", "r : slice base.u8"},
		append([]string{"b[1] = this.a[0]", "r = b[..]"}, guard("r.length() > 0", "r[0] = 9", "v = r[0]")...))
	add("slice of an element of a local 2-level array, store", []string{"c : array[2] array[4] base.u8", "r : slice base.u8"},
		append([]string{"r = c[1][..]"}, guard("r.length() > 0", "r[0] = 9", "v = c[1][0]")...))
	add("pass a slice of a local array to a callee with a writable slice parameter", []string{"b : array[4] base.u8"}, []string{"v = this.wr(s: b[..])"}).useWr = true
	add("read only", nil, []string{"v = this.g[1][args.x] ~mod+ this.h[1][0][args.x]"})
	return at
}

func (f *pureFam) Roots() []Program {
	var out []Program
	seen := map[string]bool{}
	fields := []string{"f : base.u8", "a : array[4] base.u8", "g : array[2] array[4] base.u8", "h : array[2] array[2] array[4] base.u8"}
	w := fn{header: "pub func foo.w!(v: base.u8[..= 5])", body: []string{
		"this.f = args.v", "this.a[0] = args.v", "this.g[1][0] = args.v", "this.g[1][1] = args.v", "this.h[1][0][0] = args.v"}}
	imp := fn{header: "pri func foo.imp!()", body: []string{"this.f = 1"}}
	// Inside a pure method its own slice arguments are read-only too, so a pure
	// callee cannot write through `s`; the near-miss is at the call site (a
	// read-only slice must not be accepted for the writable parameter type).
	wr := fn{header: "pri func foo.wr(s: slice base.u8) base.u8",
		body: append(guard("args.s.length() > 0", "return args.s[0]"), "return 0")}
	for _, a := range pureAttempts() {
		for _, vis := range []string{"pub", "pri"} {
			params := []string{"x: base.u8[..= 3]"}
			call := []string{"x: args.x"}
			if a.useS {
				params = append(params, "s: slice base.u8")
				call = append(call, "s: args.s")
			}
			if a.useD {
				params = append(params, "dst: base.io_writer")
				call = append(call, "dst: args.dst")
			}
			body := append(append([]string(nil), a.body...), "return v ~mod+ this.f")
			p := fn{header: vis + " func foo.p(" + strings.Join(params, ", ") + ") base.u8",
				vars: append([]string{"v : base.u8"}, a.vars...), body: body}
			fns := []fn{w, imp}
			if a.useWr {
				fns = append(fns, wr)
			}
			fns = append(fns, p)
			if vis == "pri" {
				fns = append(fns, fn{header: "pub func foo.m(" + strings.Join(params, ", ") + ") base.u8",
					body: []string{"return this.p(" + strings.Join(call, ", ") + ")"}})
			}
			pr := mk("pure", render("foo", fields, fns...), tags("attempt", a.tag, "visibility", vis, "stmts", fmt.Sprint(len(a.body))), nil)
			if !seen[pr.ID] {
				seen[pr.ID] = true
				out = append(out, pr)
			}
		}
	}
	return out
}
