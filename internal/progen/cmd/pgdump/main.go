// pgdump: developer tool.
//
//	pgdump <family> [quick|thorough] [n]          prints the tree size and the n-th program
//	pgdump <family> <tier> -tag key=value [dir]    writes every program whose tag matches into dir
package main

import (
	"fmt"
	"os"
	"path/filepath"
	"strconv"
	"strings"

	"verif/internal/progen"
)

func main() {
	tier := "quick"
	if len(os.Args) > 2 {
		tier = os.Args[2]
	}
	f := progen.New(os.Args[1], tier)
	ps := progen.All(f)
	fmt.Fprintf(os.Stderr, "%s %s: %d programs\n", os.Args[1], tier, len(ps))
	if len(os.Args) > 4 && os.Args[3] == "-tag" {
		kv := strings.SplitN(os.Args[4], "=", 2)
		dir := "."
		if len(os.Args) > 5 {
			dir = os.Args[5]
		}
		n := 0
		for _, p := range ps {
			if v, ok := p.Tags[kv[0]]; ok && strings.Contains(v, kv[1]) {
				os.WriteFile(filepath.Join(dir, fmt.Sprintf("%03d.wuffs", n)), []byte(p.Src), 0o644)
				fmt.Println(n, p.Tags)
				n++
			}
		}
		return
	}
	if len(os.Args) > 3 {
		n, _ := strconv.Atoi(os.Args[3])
		if n < len(ps) {
			fmt.Print(ps[n].Src)
			fmt.Fprintf(os.Stderr, "tags: %v\n", ps[n].Tags)
		}
	}
}
