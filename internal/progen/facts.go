package progen

import (
	"fmt"
	"strings"
)

// ---------------------------------------------------------------- facts
//
// Every sequence of at most N statements over an alphabet of assignments,
// compound assignments, field / element / slice stores, private pure and impure
// calls, asserts (plain and via an axiom), closed if/else statements and
// *openers* (an `if c {` whose block stays open until the end of the
// sequence), followed by a probe (`this.a[i] = 1`, `j = 9 - i`, `j = 255 / i`,
// `this.r = this.a[this.a[j]]`, ...). The family is a trie: Extend appends one
// statement or one probe.

type item struct {
	lines []string // the statement (closed ifs span several lines)
	open  bool     // lines[0] ends in "{" and the block stays open
	tag   string
	core  bool // member of the reduced alphabet used at the deepest level
}

type factsFam struct {
	name     string
	thorough bool
	alpha    []item
	probes   []item
	maxFull  int // sequences up to this length use the full alphabet
	maxCore  int // longer sequences (up to this length) use the core alphabet
	// wrap builds the program around the body of the method under test.
	wrap func(body []string) string
}

func st(core bool, lines ...string) item {
	return item{lines: lines, tag: lines[0], core: core}
}

func op(core bool, cond string) item {
	return item{lines: []string{"if " + cond + " {"}, open: true, tag: "if " + cond + " {", core: core}
}

func newFactsFam(thorough bool) *factsFam {
	f := &factsFam{name: "facts", thorough: thorough, maxFull: 2, maxCore: 3}
	f.wrap = func(body []string) string {
		fields := []string{"f : base.u32", "r : base.u8", "a : array[4] base.u8"}
		pfn := fn{header: "pri func foo.p() base.u32", body: []string{"return this.f"}}
		gfn := fn{header: "pri func foo.g!()", body: []string{"this.f = 7", "this.a[0] = 200"}}
		wfn := fn{header: "pub func foo.w!(v: base.u8[..= 5])", body: []string{
			"this.f = args.v as base.u32", "this.a[0] = args.v", "this.a[1] = args.v", "this.a[2] = args.v", "this.a[3] = args.v"}}
		m := fn{header: "pub func foo.m!(x: base.u32[..= 3], y: base.u32[..= 9])",
			vars: []string{"i : base.u32", "j : base.u32", "s : slice base.u8"}, body: body}
		return render("foo", fields, pfn, gfn, wfn, m)
	}
	if thorough {
		f.maxFull, f.maxCore = 3, 3
	}
	f.alpha = []item{
		st(false, "i = args.x"),
		st(false, "j = args.y"),
		st(false, "i = 3"),
		st(false, "i = j"),
		st(false, "j = i"),
		st(true, "i = i + 1"),
		st(false, "j = i + 1"),
		st(false, "i += 1"),
		st(false, "i -= 1"),
		st(false, "i -= i"),
		st(false, "i <<= 1"),
		st(false, "j += i"),
		st(false, "i = this.f"),
		st(false, "this.f = i"),
		st(true, "this.f = 200"),
		st(true, "this.a[i] = 200"),
		st(true, "this.a[0] = 200"),
		st(false, "this.a[j] = 1"),
		st(false, "i = this.a[0] as base.u32"),
		st(false, "i = this.a[j] as base.u32"),
		st(false, "s = this.a[..]"),
		st(true, "s = this.a[.. 4]"),
		st(false, "s = s[1 ..]"),
		st(false, "s[0] = 200"),
		st(false, "i = s[0] as base.u32"),
		st(true, "this.g!()"),
		st(false, "i = this.p()"),
		st(false, "assert i < 4"),
		st(false, `assert i <= j via "a <= b: a == b"()`),
		st(false, `assert j > i via "a > b: b < a"()`),
		op(false, "i < 4"),
		op(false, "j < 4"),
		op(false, "i == 3"),
		op(false, "i < j"),
		op(false, "i > 0"),
		op(true, "this.a[j] < 4"),
		op(true, "s[0] < 4"),
		op(true, "this.p() < 4"),
		op(false, "this.f < 4"),
		op(false, "args.x > args.y"),
		op(false, "args.y >= args.x"),
		st(false, "this.f = args.y - args.x"),
		// strict guards with constants that are not multiples of the later divisor, and the
		// compound assignments that scale a variable down (a strict order is not preserved by
		// floor division / right shift): seeded change C02-4
		op(false, "this.f < 5"),
		op(false, "this.f > 2"),
		op(false, "j < 5"),
		op(false, "j > args.x"),
		st(false, "this.f >>= 1"),
		st(false, "this.f /= 2"),
		st(false, "this.f -= 1"),
		st(false, "j >>= 1"),
		st(false, "j /= 2"),
		st(false, "j &= 3"),
		st(false, "if i < 4 {", "i += 1", "} else {", "i = 3", "}"),
		st(false, "if i == 3 {", "j = i", "} else {", "j = 3", "}"),
		st(false, "if j < 4 {", "i = j", "}"),
		st(false, "if i < 4 {", "j = 1", "} else if i < 6 {", "j = 1", "} else {", "j = 2", "}"),
	}
	f.probes = []item{
		st(false, "this.a[i] = 1"),
		st(false, "j = 9 - i"),
		st(false, "j = 255 / i"),
		st(true, "this.r = this.a[this.a[j]]"),
		st(true, "this.r = this.a[s[0]]"),
		st(true, "this.r = this.a[this.p()]"),
		st(false, "this.r = this.a[this.f]"),
	}
	return f
}

func (f *factsFam) Name() string { return f.name }

type factsNode struct {
	seq   []int // indexes into alpha
	probe int   // -1: none
}

func (f *factsFam) program(n factsNode) Program {
	var body []string
	open := 0
	var tg []string
	for _, k := range n.seq {
		it := f.alpha[k]
		body = append(body, it.lines...)
		if it.open {
			open++
		}
		tg = append(tg, it.tag)
	}
	probe := ""
	if n.probe >= 0 {
		body = append(body, f.probes[n.probe].lines...)
		probe = f.probes[n.probe].tag
	}
	for ; open > 0; open-- {
		body = append(body, "}")
	}
	return mk(f.name, f.wrap(body),
		tags("seq", strings.Join(tg, " ; "), "probe", probe, "depth", fmt.Sprint(len(n.seq))), n)
}

func (f *factsFam) Roots() []Program {
	return []Program{f.program(factsNode{probe: -1})}
}

func (f *factsFam) Extend(p Program) []Program {
	n, ok := p.node.(factsNode)
	if !ok || n.probe >= 0 {
		return nil
	}
	var out []Program
	if len(n.seq) < f.maxCore {
		for k, it := range f.alpha {
			if len(n.seq) >= f.maxFull && !it.core {
				continue
			}
			seq := append(append([]int(nil), n.seq...), k)
			out = append(out, f.program(factsNode{seq: seq, probe: -1}))
		}
	}
	for k, pr := range f.probes {
		if len(n.seq) >= f.maxCore && len(n.seq) > f.maxFull && !pr.core && !f.thorough {
			continue // quick: the deepest level only gets the core probes
		}
		out = append(out, f.program(factsNode{seq: n.seq, probe: k}))
	}
	return out
}
