// Package progen is engine E1: a bounded-exhaustive generator of small Wuffs
// programs, one grammar ("family") per checker / code-generator mechanism.
// See README.md.
package progen

import (
	"crypto/sha1"
	"encoding/hex"
	"sort"
	"strings"
)

// Program is one generated program in canonical layout (one statement per
// line, closing braces first on their line, fixed identifiers), so that its
// text is canonical and its SHA-1 a stable id.
type Program struct {
	Family string
	Src    string
	ID     string            // SHA-1 of Src, hex
	Tags   map[string]string // family-specific metadata (e.g. axiom, mismatch, probe, depth)
	node   any               // family-private state used by Extend
}

// Family enumerates a tree of programs: Roots have no parent; Extend(p)
// returns the programs obtained from p by appending one more statement (or a
// final probe). Families without such a structure are flat (Extend returns nil).
//
// Pruning rule: the checker is sequential, so if it rejects p it also rejects
// every extension of p. Explorers therefore only extend accepted programs;
// All() ignores acceptance and returns the whole tree.
type Family interface {
	Name() string
	Roots() []Program
	Extend(p Program) []Program
}

// Tier is "quick" or "thorough" (one notch deeper).
func New(name string, tier string) Family {
	th := tier == "thorough"
	switch name {
	case "arith":
		return &arithFam{thorough: th}
	case "index":
		return &indexFam{thorough: th}
	case "facts":
		return newFactsFam(th)
	case "axioms":
		return &axiomsFam{thorough: th}
	case "loops":
		return newLoopsFam(th)
	case "refine":
		return &refineFam{thorough: th}
	case "ptr":
		return &ptrFam{thorough: th}
	case "calls":
		return &callsFam{thorough: th}
	case "coro":
		return newCoroFam(th)
	case "io":
		return &ioFam{thorough: th}
	case "seeds":
		return &seedsFam{}
	case "pure":
		return &pureFam{thorough: th}
	case "iterate":
		return &iterateFam{thorough: th}
	}
	return nil
}

// Names lists the families in build order.
func Names() []string {
	return []string{"seeds", "arith", "index", "facts", "axioms", "loops", "refine", "ptr", "calls", "coro", "io", "pure", "iterate"}
}

// All returns the whole tree of a family (ignoring acceptance), breadth first.
func All(f Family) []Program {
	var out []Program
	level := f.Roots()
	for len(level) > 0 {
		out = append(out, level...)
		var next []Program
		for _, p := range level {
			next = append(next, f.Extend(p)...)
		}
		level = next
	}
	return out
}

func mk(family, src string, tags map[string]string, node any) Program {
	h := sha1.Sum([]byte(src))
	return Program{Family: family, Src: src, ID: hex.EncodeToString(h[:]), Tags: tags, node: node}
}

// ---------------------------------------------------------------- text assembly

type fn struct {
	header string   // e.g. "pub func foo.m!(x: base.u8)" (without the brace)
	vars   []string // "i : base.u32"
	body   []string // one statement per line; block openers end in "{", closers are "}" lines
}

func (f fn) render(sb *strings.Builder) {
	sb.WriteString(f.header)
	sb.WriteString(" {\n")
	for _, v := range f.vars {
		sb.WriteString("var ")
		sb.WriteString(v)
		sb.WriteByte('\n')
	}
	for _, l := range f.body {
		sb.WriteString(l)
		sb.WriteByte('\n')
	}
	sb.WriteString("}\n")
}

func render(structName string, fields []string, fns ...fn) string {
	var sb strings.Builder
	sb.WriteString("pub struct " + structName + "?(\n")
	for _, f := range fields {
		sb.WriteString(f)
		sb.WriteString(",\n")
	}
	sb.WriteString(")\n")
	for _, f := range fns {
		sb.WriteByte('\n')
		f.render(&sb)
	}
	return sb.String()
}

func tags(kv ...string) map[string]string {
	m := map[string]string{}
	for i := 0; i+1 < len(kv); i += 2 {
		m[kv[i]] = kv[i+1]
	}
	return m
}

func sortedKeys(m map[string]bool) []string {
	var l []string
	for k := range m {
		l = append(l, k)
	}
	sort.Strings(l)
	return l
}
