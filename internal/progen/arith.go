package progen

import (
	"fmt"
	"math/big"
	"strings"
)

// ---------------------------------------------------------------- arith
//
// `this.r = e` for every expression e of bounded depth over the arithmetic,
// comparison and numeric-method operators, for several destination types.
// The method's signature only declares the arguments that e uses, so that the
// input enumeration stays exhaustive over the declared domains.

type arithFam struct{ thorough bool }

func (f *arithFam) Name() string             { return "arith" }
func (f *arithFam) Extend(Program) []Program { return nil }

// atom is a leaf of an expression.
type atom struct {
	text string
	typ  string // "u8", "u16", "u32", "u64", "c" (ideal constant)
	uses string // which argument / field it reads: "x", "y", "w", "z", "f", ""
}

type ex struct {
	text string
	typ  string // result type: u8.., "bool", "c"
	uses map[string]bool
	ops  string // operator names, for tags
}

func atomEx(a atom) ex {
	u := map[string]bool{}
	if a.uses != "" {
		u[a.uses] = true
	}
	return ex{text: a.text, typ: a.typ, uses: u}
}

func union(a, b map[string]bool) map[string]bool {
	u := map[string]bool{}
	for k := range a {
		u[k] = true
	}
	for k := range b {
		u[k] = true
	}
	return u
}

var arithConsts = []string{"0", "1", "2", "7", "8", "255", "256", "65535"}

// The arguments / fields an arith program may read, with their declared types.
var arithDecl = map[string]string{
	"x": "x: base.u8",
	"y": "y: base.u8[..= 5]",
	"w": "w: base.u8[100 ..= 200]",
	"z": "z: base.u32",
}

func arithAtoms(typ string) []atom {
	var out []atom
	conv := func(a atom) atom {
		return atom{text: "(" + a.text + " as base." + typ + ")", typ: typ, uses: a.uses}
	}
	x := atom{"args.x", "u8", "x"}
	y := atom{"args.y", "u8", "y"}
	w := atom{"args.w", "u8", "w"}
	z := atom{"args.z", "u32", "z"}
	fd := atom{"this.f", "u16", "f"}
	switch typ {
	case "u8":
		out = append(out, x, y, w)
	case "u16":
		out = append(out, fd, conv(x), conv(y))
	case "u32":
		out = append(out, z, conv(x), conv(y), conv(fd))
	case "u64":
		out = append(out, conv(z), conv(x), conv(y))
	}
	for _, c := range arithConsts {
		out = append(out, atom{c, "c", ""})
	}
	return out
}

var arithBinOps = []string{"+", "-", "*", "/", "%", "<<", ">>", "&", "|", "^",
	"~mod+", "~mod-", "~mod*", "~mod<<", "~sat+", "~sat-"}
var cmpOps = []string{"<", "<=", "==", "<>", ">=", ">"}

func bits(typ string) int {
	switch typ {
	case "u8":
		return 8
	case "u16":
		return 16
	case "u32":
		return 32
	}
	return 64
}

// depth1 enumerates op(atom, atom), unary and method forms of type typ.
func arithDepth1(typ string, atoms []atom) []ex {
	var out []ex
	for _, a := range atoms {
		for _, b := range atoms {
			if a.typ == "c" && b.typ == "c" {
				continue
			}
			u := union(atomEx(a).uses, atomEx(b).uses)
			for _, op := range arithBinOps {
				out = append(out, ex{text: a.text + " " + op + " " + b.text, typ: typ, uses: u, ops: op})
			}
			for _, op := range cmpOps {
				out = append(out, ex{text: a.text + " " + op + " " + b.text, typ: "bool", uses: u, ops: op})
			}
			if a.typ != "c" {
				out = append(out, ex{text: a.text + ".min(no_more_than: " + b.text + ")", typ: typ, uses: u, ops: "min"})
				out = append(out, ex{text: a.text + ".max(no_less_than: " + b.text + ")", typ: typ, uses: u, ops: "max"})
			}
		}
		if a.typ != "c" {
			for _, n := range []int{0, 1, 3, bits(typ) - 1, bits(typ)} {
				out = append(out, ex{text: fmt.Sprintf("%s.low_bits(n: %d)", a.text, n), typ: typ, uses: atomEx(a).uses, ops: "low_bits"})
				out = append(out, ex{text: fmt.Sprintf("%s.high_bits(n: %d)", a.text, n), typ: typ, uses: atomEx(a).uses, ops: "high_bits"})
			}
		}
	}
	return out
}

// dest describes where the value goes: a field of type ftyp, through an
// optional conversion.
type dest struct {
	ftyp string // declared field type, e.g. "base.u8[..= 3]"
	as   string // "" or a base type to convert to, e.g. "base.u16"
	tag  string
}

func arithDests(typ string, thorough bool) []dest {
	if typ == "bool" {
		return []dest{{"base.bool", "", "bool"}}
	}
	b := "base." + typ
	ds := []dest{{b, "", typ}, {b + "[..= 3]", "", typ + "[..=3]"}}
	switch typ {
	case "u8":
		ds = append(ds, dest{"base.u16", "base.u16", "as-u16"}, dest{"base.i8", "base.i8", "as-i8"})
	case "u16":
		ds = append(ds, dest{"base.u8", "base.u8", "as-u8"}, dest{"base.u32", "base.u32", "as-u32"})
	case "u32":
		ds = append(ds, dest{"base.u8", "base.u8", "as-u8"}, dest{"base.u64", "base.u64", "as-u64"}, dest{"base.i32", "base.i32", "as-i32"})
	case "u64":
		ds = append(ds, dest{"base.u32", "base.u32", "as-u32"})
	}
	if thorough {
		ds = append(ds, dest{b + "[..= 4]", "", typ + "[..=4]"})
	}
	return ds
}

func arithProgram(e ex, d dest) Program {
	fields := []string{}
	var fns []fn
	if e.uses["f"] {
		fields = append(fields, "f : base.u16")
		fns = append(fns, fn{header: "pub func foo.s!(v: base.u16)", body: []string{"this.f = args.v"}})
	}
	fields = append(fields, "r : "+d.ftyp)
	var params []string
	for _, k := range []string{"x", "y", "w", "z"} {
		if e.uses[k] {
			params = append(params, arithDecl[k])
		}
	}
	rhs := e.text
	if d.as != "" {
		rhs = "(" + e.text + ") as " + d.as
	}
	body := []string{"this.r = " + rhs}
	fns = append(fns, fn{header: "pub func foo.m!(" + strings.Join(params, ", ") + ")", body: body})
	return mk("arith", render("foo", fields, fns...), tags("ops", e.ops, "dest", d.tag, "type", e.typ), nil)
}

func (f *arithFam) Roots() []Program {
	var out []Program
	seen := map[string]bool{}
	emit := func(e ex, ds []dest) {
		for _, d := range ds {
			p := arithProgram(e, d)
			if !seen[p.ID] {
				seen[p.ID] = true
				out = append(out, p)
			}
		}
	}
	// Shifts whose count ranges over the whole width of the type, with a named typed constant,
	// a converted literal or an argument on the left (seeded change C04-4: the C literal of a
	// base.u64 constant below 2^32 is only 32 bits wide). Both tiers, all four widths.
	for _, typ := range []string{"u8", "u16", "u32", "u64"} {
		W := bits(typ)
		top := new(big.Int).Lsh(big.NewInt(1), uint(W-1))
		max := new(big.Int).Sub(new(big.Int).Lsh(big.NewInt(1), uint(W)), big.NewInt(1))
		vals := []string{"1", "0x" + top.Text(16), "0x" + max.Text(16)}
		if W > 16 {
			vals = append(vals, "0x8000", "0xFFFF")
		}
		if W > 32 {
			vals = append(vals, "0x8000_0000", "0xFFFF_FFFF", "0x1_0000_0000")
		}
		nDecl := fmt.Sprintf("n: base.u32[..= %d]", W-1)
		for _, v := range vals {
			lefts := []struct{ decl, text, tag string }{
				{fmt.Sprintf("pri const K : base.%s = %s\n\n", typ, v), "K", "named-const"},
				{"", fmt.Sprintf("(%s as base.%s)", v, typ), "converted-literal"},
			}
			for _, l := range lefts {
				for _, op := range []string{">>", "<<", "~mod<<"} {
					for _, d := range []dest{{"base." + typ, "", typ}, {"base.u64", "base.u64", "as-u64"}} {
						rhs := l.text + " " + op + " args.n"
						if d.as != "" {
							if typ == "u64" {
								continue
							}
							rhs = "(" + rhs + ") as " + d.as
						}
						src := l.decl + render("foo", []string{"r : " + d.ftyp},
							fn{header: "pub func foo.m!(" + nDecl + ")", body: []string{"this.r = " + rhs}})
						p := mk("arith", src, tags("ops", "fullshift "+op, "dest", d.tag, "type", typ, "left", l.tag+" "+v), nil)
						if !seen[p.ID] {
							seen[p.ID] = true
							out = append(out, p)
						}
					}
				}
			}
		}
		for _, op := range []string{">>", "~mod<<"} {
			src := render("foo", []string{"r : base." + typ},
				fn{header: "pub func foo.m!(v: base." + typ + ", " + nDecl + ")", body: []string{"this.r = args.v " + op + " args.n"}})
			p := mk("arith", src, tags("ops", "fullshift "+op, "dest", typ, "type", typ, "left", "argument"), nil)
			if !seen[p.ID] {
				seen[p.ID] = true
				out = append(out, p)
			}
		}
	}
	types := []string{"u8", "u16", "u32"}
	if f.thorough {
		types = append(types, "u64")
	}
	for _, typ := range types {
		atoms := arithAtoms(typ)
		d1 := arithDepth1(typ, atoms)
		for _, e := range d1 {
			ds := arithDests(e.typ, f.thorough)
			if !f.thorough {
				// Quick: every expression into its own type and one more destination
				// that rotates with the operator, so that each destination kind is
				// exercised by every operand combination of some operators.
				if len(ds) > 1 {
					k := 1 + (len(e.text)+len(e.ops))%(len(ds)-1)
					ds = []dest{ds[0], ds[k]}
				}
			}
			emit(e, ds)
		}
		// Depth 2: op(depth1, atom) and op(atom, depth1) over a reduced operand set.
		var inner []ex
		red := []atom{}
		for _, a := range atoms {
			if a.typ != "c" || a.text == "1" || a.text == "255" {
				red = append(red, a)
			}
		}
		innerOps := []string{"+", "-", "*", "&", ">>", "~mod+", "%"}
		outerOps := []string{"+", "-", "*", "/", "%", "<<", ">>", "&", "|", "~mod-", "~mod<<", "~sat+", "~sat-"}
		if !f.thorough {
			innerOps = []string{"+", "&", ">>", "%"}
			outerOps = []string{"+", "-", "*", "/", "<<", "~mod<<", "~sat-"}
			if typ != "u8" {
				continue
			}
		}
		for _, a := range red {
			for _, b := range red {
				if a.typ == "c" && b.typ == "c" {
					continue
				}
				for _, op := range innerOps {
					inner = append(inner, ex{text: "(" + a.text + " " + op + " " + b.text + ")", typ: typ,
						uses: union(atomEx(a).uses, atomEx(b).uses), ops: op})
				}
			}
		}
		for _, in := range inner {
			for _, c := range red {
				for _, op := range outerOps {
					u := union(in.uses, atomEx(c).uses)
					if len(u) > 2 {
						continue
					}
					e1 := ex{text: in.text + " " + op + " " + c.text, typ: typ, uses: u, ops: in.ops + " " + op}
					e2 := ex{text: c.text + " " + op + " " + in.text, typ: typ, uses: u, ops: op + " " + in.ops}
					ds := arithDests(typ, false)[:2]
					emit(e1, ds[:1])
					emit(e2, ds[1:])
				}
			}
		}
	}
	return out
}
