package progen

import (
	"fmt"
	"strings"
)

// ---------------------------------------------------------------- index
//
// Array / slice accesses `this.a[e]`, `this.a[e1 .. e2]`, `s[e]`, `s[e ..]`,
// `(this.a[..] as ptr array[N] base.u8)[e]`, slice peeks, for arrays of length
// 4 and 8 and index expressions of depth <= 1, under 0-2 guards.

type indexFam struct{ thorough bool }

func (f *indexFam) Name() string             { return "index" }
func (f *indexFam) Extend(Program) []Program { return nil }

type idxExpr struct {
	text string
	typ  string // "u8", "u32", "c"
	uses map[string]bool
	atom string // the variable inside (for guards on the atom), "" for constants
}

func (f *indexFam) exprs() []idxExpr {
	u := func(ks ...string) map[string]bool {
		m := map[string]bool{}
		for _, k := range ks {
			m[k] = true
		}
		return m
	}
	out := []idxExpr{
		{"args.x", "u8", u("x"), "args.x"},
		{"args.y", "u8", u("y"), "args.y"},
		{"i", "u32", u("i"), "i"},
		{"0", "c", u(), ""},
		{"3", "c", u(), ""},
		{"4", "c", u(), ""},
		{"args.y + 1", "u8", u("y"), "args.y"},
		{"args.y - 1", "u8", u("y"), "args.y"},
		{"args.x & 3", "u8", u("x"), "args.x"},
		{"args.x & 7", "u8", u("x"), "args.x"},
		{"args.x % 4", "u8", u("x"), "args.x"},
		{"args.x >> 6", "u8", u("x"), "args.x"},
		{"args.x / 64", "u8", u("x"), "args.x"},
		{"args.x.min(no_more_than: 3)", "u8", u("x"), "args.x"},
		{"i + 1", "u32", u("i"), "i"},
		{"i & 3", "u32", u("i"), "i"},
	}
	if f.thorough {
		out = append(out,
			idxExpr{"7", "c", u(), ""},
			idxExpr{"8", "c", u(), ""},
			idxExpr{"args.y * 2", "u8", u("y"), "args.y"},
			idxExpr{"args.x ~mod+ 1", "u8", u("x"), "args.x"},
			idxExpr{"args.x ~sat- 252", "u8", u("x"), "args.x"},
			idxExpr{"args.x >> 5", "u8", u("x"), "args.x"},
			idxExpr{"args.x.low_bits(n: 2)", "u8", u("x"), "args.x"},
			idxExpr{"args.x.high_bits(n: 2)", "u8", u("x"), "args.x"},
			idxExpr{"args.y ^ 1", "u8", u("y"), "args.y"},
			idxExpr{"i - 1", "u32", u("i"), "i"},
			idxExpr{"i % 4", "u32", u("i"), "i"},
			idxExpr{"(args.y as base.u32) + i", "u32", u("y", "i"), "i"},
		)
	}
	return out
}

// guards returns guard condition lists (each a list of `if` conditions) for e.
func (f *indexFam) guards(e idxExpr, n int) [][]string {
	gs := [][]string{{}}
	if e.typ == "c" {
		return gs
	}
	paren := func(s string) string {
		if strings.ContainsAny(s, " ") {
			return "(" + s + ")"
		}
		return s
	}
	E := paren(e.text)
	one := []string{
		fmt.Sprintf("%s < %d", E, n),
		fmt.Sprintf("%s <= %d", E, n-1),
		fmt.Sprintf("%s <= %d", E, n),
		fmt.Sprintf("%s <> %d", E, n),
		fmt.Sprintf("%s < s.length()", castU64(e)),
	}
	if e.atom != "" && e.atom != e.text {
		one = append(one, fmt.Sprintf("%s < %d", e.atom, n), fmt.Sprintf("%s <= %d", e.atom, n-2))
	}
	if f.thorough {
		one = append(one, fmt.Sprintf("%s > %d", E, n), fmt.Sprintf("%s == %d", E, n-1), fmt.Sprintf("%s >= 1", E))
	}
	for _, g := range one {
		gs = append(gs, []string{g})
	}
	// Constant on the left (exercises the reversed-operator path of facts.refine).
	gs = append(gs, []string{fmt.Sprintf("1 <= %s", E), fmt.Sprintf("%s <= %d", E, n)})
	gs = append(gs, []string{fmt.Sprintf("%d > %s", n, E)})
	// Two guards: a lower and an upper one, or a redundant pair.
	gs = append(gs, []string{fmt.Sprintf("%s >= 1", E), fmt.Sprintf("%s < %d", E, n)})
	gs = append(gs, []string{fmt.Sprintf("%s <= %d", E, n), fmt.Sprintf("%s <> %d", E, n)})
	if f.thorough {
		gs = append(gs, []string{fmt.Sprintf("%s < %d", E, n+1), fmt.Sprintf("%s < %d", E, n)})
		gs = append(gs, []string{fmt.Sprintf("%s <> 0", E), fmt.Sprintf("%s <= %d", E, n-1)})
	}
	return gs
}

func castU64(e idxExpr) string {
	if strings.ContainsAny(e.text, " ") {
		return "((" + e.text + ") as base.u64)"
	}
	return "(" + e.text + " as base.u64)"
}

type access struct {
	tag   string
	line  func(E string) string
	needS string // "" / the statement that initialises s before the guards
}

func (f *indexFam) accesses(n int) []access {
	acc := []access{
		{"load a[e]", func(E string) string { return "this.r = this.a[" + E + "]" }, ""},
		{"store a[e]", func(E string) string { return "this.a[" + E + "] = 7" }, ""},
		{"slice a[e ..]", func(E string) string { return "s = this.a[" + E + " ..]" }, ""},
		{"slice a[.. e]", func(E string) string { return "s = this.a[.. " + E + "]" }, ""},
		{"slice a[1 .. e]", func(E string) string { return "s = this.a[1 .. " + E + "]" }, ""},
		{"slice a[e .. 3]", func(E string) string { return "s = this.a[" + E + " .. 3]" }, ""},
		{"load s[e] (s = a[..])", func(E string) string { return "this.r = s[" + E + "]" }, "s = this.a[..]"},
		{"load s[e] (s = a[.. n])", func(E string) string { return "this.r = s[" + E + "]" }, fmt.Sprintf("s = this.a[.. %d]", n)},
		{"load s[e] (s = a[1 .. 3])", func(E string) string { return "this.r = s[" + E + "]" }, "s = this.a[1 .. 3]"},
		{"store s[e] (s = a[.. n])", func(E string) string { return "s[" + E + "] = 7" }, fmt.Sprintf("s = this.a[.. %d]", n)},
		{"slice s[e ..] (s = a[.. n])", func(E string) string { return "s = s[" + E + " ..]" }, fmt.Sprintf("s = this.a[.. %d]", n)},
		{"slice s[.. e] (s = a[..])", func(E string) string { return "s = s[.. " + E + "]" }, "s = this.a[..]"},
		{"load a[e - 1]", func(E string) string { return "this.r = this.a[(" + E + ") - 1]" }, ""},
		{"load a[e - 2]", func(E string) string { return "this.r = this.a[(" + E + ") - 2]" }, ""},
		{"ptr-array load", func(E string) string {
			return fmt.Sprintf("this.r = (this.a[..] as ptr array[%d] base.u8)[%s]", n, E)
		}, ""},
		{"peek a[e .. e + 2]", func(E string) string {
			return "this.r = this.a[" + E + " .. (" + E + ") + 2].peek_u8()"
		}, ""},
	}
	if f.thorough {
		acc = append(acc,
			access{"ptr-array too long", func(E string) string {
				return fmt.Sprintf("this.r = (this.a[..] as ptr array[%d] base.u8)[%s]", n+1, E)
			}, ""},
			access{"peek_u16le a[e .. e + 2]", func(E string) string {
				return "this.q = this.a[" + E + " .. (" + E + ") + 2].peek_u16le()"
			}, ""},
			access{"peek_u16le a[e .. e + 1]", func(E string) string {
				return "this.q = this.a[" + E + " .. (" + E + ") + 1].peek_u16le()"
			}, ""},
			access{"slice a[e .. e]", func(E string) string { return "s = this.a[" + E + " .. " + E + "]" }, ""},
		)
	}
	return acc
}

func (f *indexFam) Roots() []Program {
	var out []Program
	seen := map[string]bool{}
	lens := []int{4, 8}
	for _, n := range lens {
		for _, e := range f.exprs() {
			for _, g := range f.guards(e, n) {
				usesS := false
				for _, c := range g {
					if strings.Contains(c, "s.length()") {
						usesS = true
					}
				}
				for _, ac := range f.accesses(n) {
					if n == 8 && !f.thorough && (len(g) > 1 || strings.HasPrefix(ac.tag, "slice s") || strings.HasPrefix(ac.tag, "store s")) {
						continue
					}
					if usesS && ac.needS == "" {
						continue
					}
					fields := []string{"r : base.u8", "q : base.u16", fmt.Sprintf("a : array[%d] base.u8", n)}
					var params []string
					if e.uses["x"] {
						params = append(params, "x: base.u8")
					}
					if e.uses["y"] {
						params = append(params, "y: base.u8[..= 5]")
					}
					vars := []string{"i : base.u32", "s : slice base.u8"}
					var body []string
					if e.uses["i"] {
						params = append(params, "z: base.u32[..= 9]")
						body = append(body, "i = args.z")
					}
					if ac.needS != "" {
						body = append(body, ac.needS)
					}
					for _, c := range g {
						body = append(body, "if "+c+" {")
					}
					body = append(body, ac.line(e.text))
					for range g {
						body = append(body, "}")
					}
					// A writer of the array so that non-zero contents are reachable.
					setter := fn{header: "pub func foo.w!(v: base.u8[..= 3])", body: []string{"this.a[args.v] = 201"}}
					m := fn{header: "pub func foo.m!(" + strings.Join(params, ", ") + ")", vars: vars, body: body}
					p := mk("index", render("foo", fields, setter, m),
						tags("access", ac.tag, "expr", e.text, "guards", strings.Join(g, " && "), "len", fmt.Sprint(n)), nil)
					if !seen[p.ID] {
						seen[p.ID] = true
						out = append(out, p)
					}
				}
			}
		}
	}
	return out
}
