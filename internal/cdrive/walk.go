package cdrive

import (
	"fmt"
	"runtime/debug"
	"strings"
	"sync"

	"verif/internal/ev"
	"verif/internal/interp"
	"verif/internal/progen"
)

// WalkConfig says which programs are walked and how they are batched.
type WalkConfig struct {
	Families  []string
	Tier      string
	BatchSize int
	// MaxLevel caps the trie depth per family (0 = no cap): level 0 are the roots.
	MaxLevel map[string]int
	// Keep selects the accepted programs that are handed to the batches (nil = all).
	Keep func(family string, p *interp.Prog) bool
	// Stop is polled between levels and batches.
	Stop func() bool
	// Extra holds families that are not progen's (hand-written programs in
	// canonical layout), by name.
	Extra map[string]progen.Family
}

// FlatFamily is a fixed list of programs.
type FlatFamily struct {
	FamName string
	Progs   []progen.Program
}

func (f *FlatFamily) Name() string                           { return f.FamName }
func (f *FlatFamily) Roots() []progen.Program                { return f.Progs }
func (f *FlatFamily) Extend(progen.Program) []progen.Program { return nil }

// Add appends a program (canonical layout: one statement per line).
func (f *FlatFamily) Add(src string, tags map[string]string) {
	f.Progs = append(f.Progs, progen.Program{Family: f.FamName, Src: src, ID: interp.SrcID(src), Tags: tags})
}

// FamilyCount is the per-family acceptance split.
type FamilyCount struct {
	Generated, Accepted, Rejected, Kept, Unsupported, Levels, SkippedBudget int64
	KeptPerLevel                                                            []int64
}

// WalkStats is filled by Walk.
type WalkStats struct {
	mu       sync.Mutex
	Families map[string]*FamilyCount
	Problems []string
}

func (ws *WalkStats) fam(n string) *FamilyCount {
	f := ws.Families[n]
	if f == nil {
		f = &FamilyCount{}
		ws.Families[n] = f
	}
	return f
}

type pending struct {
	family string
	prog   progen.Program
}

// Walk enumerates the families level by level (children of rejected programs
// are pruned, as in internal/interp/drive), and hands the accepted programs to
// handle in batches of cfg.BatchSize. handle runs on ev.ParFor workers; the
// programs it receives are freshly compiled (interp.Compile) and described.
func Walk(cfg WalkConfig, handle func(worker int, progs []*ProgInfo)) *WalkStats {
	debug.SetGCPercent(200)
	ws := &WalkStats{Families: map[string]*FamilyCount{}}
	var carry []pending
	// Batches are processed by a pool of workers while the walk goes on
	// enumerating (and compiling) the next level / family.
	work := make(chan []pending, 4*ev.Workers())
	var wg sync.WaitGroup
	for w := 0; w < ev.Workers(); w++ {
		wg.Add(1)
		go func(w int) {
			defer wg.Done()
			for list := range work {
				if cfg.Stop != nil && cfg.Stop() {
					ws.mu.Lock()
					for _, x := range list {
						ws.fam(x.family).SkippedBudget++
					}
					ws.mu.Unlock()
					continue
				}
				var progs []*ProgInfo
				for _, x := range list {
					p, err := interp.Compile(x.prog.Src)
					if err != nil {
						continue // cannot happen: it compiled a moment ago
					}
					pi := Describe(p, x.family, x.prog.Tags)
					pi.Release()
					progs = append(progs, pi)
				}
				handle(w, progs)
			}
		}(w)
	}
	flush := func(list []pending) {
		if len(list) == 0 {
			return
		}
		nb := (len(list) + cfg.BatchSize - 1) / cfg.BatchSize
		per := (len(list) + nb - 1) / nb // even out the batch sizes
		for bi := 0; bi < nb; bi++ {
			work <- list[bi*per : min(len(list), (bi+1)*per)]
		}
	}
	for _, name := range cfg.Families {
		// "family@tier" overrides the tier for one family (the statistics are kept under the full spec).
		base, tier := name, cfg.Tier
		if i := strings.IndexByte(name, '@'); i > 0 {
			base, tier = name[:i], name[i+1:]
		}
		fam := cfg.Extra[base]
		if fam == nil {
			fam = progen.New(base, tier)
		}
		if fam == nil {
			ev.Fatal("unknown family %q", name)
		}
		level := fam.Roots()
		for depth := 0; len(level) > 0; depth++ {
			if cfg.Stop != nil && cfg.Stop() {
				ws.mu.Lock()
				ws.fam(name).SkippedBudget += int64(len(level))
				ws.mu.Unlock()
				break
			}
			accepted := make([]bool, len(level))
			kept := make([]bool, len(level))
			ev.ParFor(len(level), func(w, i int) {
				defer func() {
					if r := recover(); r != nil {
						// A toolchain panic on a generated program is C11's business.
						ws.mu.Lock()
						if len(ws.Problems) < 5 {
							ws.Problems = append(ws.Problems, fmt.Sprintf("panic while compiling a %s program: %v", name, r))
						}
						ws.mu.Unlock()
					}
				}()
				p, err := interp.Compile(level[i].Src)
				ws.mu.Lock()
				fc := ws.fam(name)
				fc.Generated++
				if err != nil {
					if _, ok := err.(*interp.Rejected); ok {
						fc.Rejected++
					} else {
						fc.Unsupported++
					}
					// Hand-written families are meant to be accepted: say why not.
					if cfg.Extra[base] != nil && len(ws.Problems) < 6 {
						ws.Problems = append(ws.Problems, fmt.Sprintf("%s program not usable: %v\n%s", name, err, level[i].Src))
					}
					ws.mu.Unlock()
					return
				}
				fc.Accepted++
				ws.mu.Unlock()
				accepted[i] = true
				kept[i] = cfg.Keep == nil || cfg.Keep(name, p)
			})
			ws.mu.Lock()
			ws.fam(name).Levels = int64(depth + 1)
			ws.mu.Unlock()
			list := carry
			carry = nil
			ws.mu.Lock()
			nk := int64(0)
			for i := range level {
				if kept[i] {
					list = append(list, pending{name, level[i]})
					nk++
				}
			}
			ws.fam(name).Kept += nk
			ws.fam(name).KeptPerLevel = append(ws.fam(name).KeptPerLevel, nk)
			ws.mu.Unlock()
			// Full batches now; a small remainder joins the next level / family.
			full := len(list) / cfg.BatchSize * cfg.BatchSize
			if len(list)-full >= cfg.BatchSize/2 {
				full = len(list)
			}
			flush(list[:full])
			carry = append(carry, list[full:]...)
			if max := cfg.MaxLevel[name]; max > 0 && depth+1 >= max {
				break
			}
			var next []progen.Program
			for i, p := range level {
				if accepted[i] {
					next = append(next, fam.Extend(p)...)
				}
			}
			level = next
		}
	}
	flush(carry)
	close(work)
	wg.Wait()
	return ws
}
