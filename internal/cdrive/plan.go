package cdrive

import (
	"encoding/binary"
	"encoding/hex"
	"fmt"
	"math/big"
	"strconv"
	"strings"

	"verif/internal/interp"
)

// PlanResult is what one coroutine plan leaves behind, on either side.
type PlanResult struct {
	HStat    uint64 // digest of the status of every coroutine call, in order
	HFinal   uint64 // digest of (final status, everything written, receiver fields)
	Consumed uint32
	NCalls   uint32
	Class    uint32 // final status: 0 ok / note, 1 suspension, 2 error
	Stuck    uint32
}

const PlanResultSize = 32

func DecodePlanResult(b []byte) PlanResult {
	return PlanResult{
		HStat: binary.LittleEndian.Uint64(b[0:]), HFinal: binary.LittleEndian.Uint64(b[8:]),
		Consumed: binary.LittleEndian.Uint32(b[16:]), NCalls: binary.LittleEndian.Uint32(b[20:]),
		Class: binary.LittleEndian.Uint32(b[24:]), Stuck: binary.LittleEndian.Uint32(b[28:]),
	}
}

var variationCode = map[string]int{"same": 0, "args": 1, "compact": 2, "interleave": 3}

func methodIndex(pi *ProgInfo, name string) int {
	for _, m := range pi.Methods {
		if m.Name == name {
			return m.Index
		}
	}
	return -1
}

// PlanSupported reports whether the C plan runner can execute pl on pi.
func PlanSupported(pi *ProgInfo, pl *interp.CoroPlan) bool {
	mx := methodIndex(pi, pl.Method)
	if mx < 0 {
		return false
	}
	for _, k := range pi.Methods[mx].Kinds {
		if k != 'i' && k != 'r' && k != 'w' {
			return false
		}
	}
	for _, c := range pl.Setup {
		if methodIndex(pi, c.Method) < 0 {
			return false
		}
	}
	if pl.Inter != nil && methodIndex(pi, pl.Inter.Method) < 0 {
		return false
	}
	return len(pl.Chunks) <= 64 && len(pl.Room) <= 64
}

// Plan appends a PLAN record (the C side mirrors interp.RunCoroPlan).
func (s *Script) Plan(pi *ProgInfo, pl *interp.CoroPlan) {
	s.u8(0x06)
	s.u8(methodIndex(pi, pl.Method))
	s.u8(variationCode[pl.Variation])
	data, _ := hex.DecodeString(pl.Data)
	s.u32(len(data))
	s.raw(data)
	s.u32(len(pl.Chunks))
	for _, c := range pl.Chunks {
		s.u32(c)
	}
	s.u32(len(pl.Room))
	for _, c := range pl.Room {
		s.u32(c)
	}
	for _, sc := range [][]interp.ArgSpec{pl.Scalars, pl.Scalars2} {
		s.u8(len(sc))
		for _, a := range sc {
			s.u64(ToU64(pi.P.MakeArg(a).I))
		}
	}
	s.u8(len(pl.Setup))
	for _, c := range pl.Setup {
		s.u8(methodIndex(pi, c.Method))
		s.Args(makeArgs(pi.P, c.Args))
	}
	if pl.Variation == "interleave" && pl.Inter != nil {
		s.u8(1)
		s.u8(methodIndex(pi, pl.Inter.Method))
		s.Args(makeArgs(pi.P, pl.Inter.Args))
	} else {
		s.u8(0)
	}
}

func makeArgs(p *interp.Prog, specs []interp.ArgSpec) []interp.Value {
	out := make([]interp.Value, len(specs))
	for i, a := range specs {
		out[i] = p.MakeArg(a)
	}
	return out
}

// rawStatus undoes Value.String() for statuses: `ok` or a quoted text.
func rawStatus(s string) string {
	if strings.HasPrefix(s, "\"") {
		if u, err := strconv.Unquote(s); err == nil {
			return u
		}
	}
	return s
}

func statusClass(s string) uint32 {
	if strings.HasPrefix(s, "$") {
		return 1
	}
	if strings.HasPrefix(s, "#") {
		return 2
	}
	return 0
}

func parseBig(s string) (interp.Int, bool) {
	b, ok := new(big.Int).SetString(s, 10)
	if !ok {
		return interp.Int{}, false
	}
	return interp.FromBig(b), true
}

// foldFieldDump folds the textual field dump of a CoroRun ("name=value",
// arrays as "array[v v v]") with the labels of DumpFields.
func (pi *ProgInfo) foldFieldDump(d *Digester, dump []string) error {
	vals := map[string]string{}
	for _, l := range dump {
		if i := strings.IndexByte(l, '='); i > 0 {
			vals[l[:i]] = l[i+1:]
		}
	}
	for k := range pi.fields {
		fi := &pi.fields[k]
		v, ok := vals[fi.name]
		if !ok {
			return fmt.Errorf("field %s missing from the interpreter's dump", fi.name)
		}
		if fi.array == 0 {
			x, ok := parseBig(v)
			if !ok {
				return fmt.Errorf("field %s: cannot parse %q", fi.name, v)
			}
			d.Int(fi.labels[0], ToU64(x))
			continue
		}
		v = strings.TrimSuffix(strings.TrimPrefix(v, "array["), "]")
		parts := strings.Fields(v)
		if len(parts) != fi.array {
			return fmt.Errorf("field %s: %d elements in the dump, %d declared", fi.name, len(parts), fi.array)
		}
		for j, ps := range parts {
			x, ok := parseBig(ps)
			if !ok {
				return fmt.Errorf("field %s: cannot parse %q", fi.name, ps)
			}
			d.Int(fi.labels[j], ToU64(x))
		}
	}
	return nil
}

// PlanExpect turns the interpreter's run of a plan into the record the C side
// produces. lines (optional) receives the final observation as trace text.
func (pi *ProgInfo) PlanExpect(run *interp.CoroRun, lines *[]string) (PlanResult, error) {
	var r PlanResult
	h := uint64(fnvOffset)
	final := "ok"
	for _, st := range run.Statuses {
		s := rawStatus(st)
		for i := 0; i < len(s); i++ {
			h = (h ^ uint64(s[i])) * fnvPrime
		}
		h = (h ^ 0) * fnvPrime
		final = s
	}
	r.HStat = h
	r.NCalls = uint32(run.Calls)
	r.Consumed = uint32(run.Consumed)
	r.Class = statusClass(final)
	if run.Stuck {
		r.Stuck = 1
	}
	d := Digester{Lines: lines}
	d.Reset()
	d.Str("final", final)
	w, _ := hex.DecodeString(run.Written)
	d.Bytes("written", w)
	if err := pi.foldFieldDump(&d, run.Fields); err != nil {
		return r, err
	}
	r.HFinal = d.H
	return r, nil
}

// OneShotKey groups the plans that must agree with one all-at-once run: the
// same method, stream, scalar arguments and setup calls.
func OneShotKey(pl *interp.CoroPlan) string {
	return fmt.Sprintf("%s|%s|%v|%v", pl.Method, pl.Data, pl.Scalars, pl.Setup)
}

// IsOneShot: the whole stream in the first call, ample room, nothing done across suspensions.
func IsOneShot(pl *interp.CoroPlan) bool {
	return pl.Variation == "same" && len(pl.Chunks) == 1 && pl.Chunks[0]*2 == len(pl.Data) && len(pl.Room) == 1 && pl.Room[0] >= 64
}

// SuspensionKind names the construct on a source line a coroutine is parked at.
func SuspensionKind(line string) string {
	switch {
	case strings.Contains(line, "yield?"):
		return "yield?"
	case strings.Contains(line, "this.") && strings.Contains(line, "?("):
		if strings.Contains(line, "=?") {
			return "nested call (=?)"
		}
		return "nested call"
	case strings.Contains(line, ".skip"):
		return "skip?"
	case strings.Contains(line, ".write_u8?"):
		return "write_u8?"
	}
	if i := strings.Index(line, ".read_"); i >= 0 {
		rest := line[i+1:]
		if j := strings.IndexByte(rest, '?'); j > 0 {
			return rest[:j] + "?"
		}
	}
	return "other"
}

// PlanJob is the C05(a) work for one program: every coroutine plan the
// interpreter ran without a safety violation, the PLAN records that make the C
// driver run the same plans, and the interpreter's results.
type PlanJob struct {
	PI      *ProgInfo
	Plans   []interp.CoroPlan
	Want    []PlanResult
	OneShot []int // index (into Plans) of the all-at-once plan of the same input, or -1
	Body    []byte

	Enumerated  int   // plans enumerated by Prog.CoroPlans
	NotReplayed int64 // plans on which the interpreter found a safety violation (C01 / C02)
	Capped      bool
	InterpBugs  []string
	Calls       int64            // coroutine calls made by the interpreter
	Suspensions map[string]int64 // suspensions crossed, by the construct the frame was parked at
	SuspPerPlan [][]string       // per kept plan: the kinds crossed (sorted, distinct)
	Problems    []string
}

// ExtendPlans adds, to the plans of Prog.CoroPlans, longer source streams: all
// streams of length 4 over {01, FF} in every cut (plus a leading empty
// delivery), and the streams 01.. of length 5 to 8 fed one byte at a time, in
// two halves and all at once; room {64} and {1,1,..}; variations same and
// compact; the first and the last scalar tuple of each coroutine; no setup call.
func ExtendPlans(base []interp.CoroPlan) []interp.CoroPlan {
	type key struct{ method, scalars string }
	seen := map[key]bool{}
	perMethod := map[string][][]interp.ArgSpec{}
	var methods []string
	for i := range base {
		pl := &base[i]
		if len(pl.Setup) != 0 {
			continue
		}
		k := key{pl.Method, fmt.Sprint(pl.Scalars)}
		if seen[k] {
			continue
		}
		seen[k] = true
		if _, ok := perMethod[pl.Method]; !ok {
			methods = append(methods, pl.Method)
		}
		perMethod[pl.Method] = append(perMethod[pl.Method], pl.Scalars)
	}
	cuts := func(n int) [][]int {
		var out [][]int
		for mask := 0; mask < 1<<(n-1); mask++ {
			var c []int
			cur := 1
			for i := 0; i < n-1; i++ {
				if mask&(1<<i) != 0 {
					c = append(c, cur)
					cur = 1
				} else {
					cur++
				}
			}
			out = append(out, append(c, cur))
		}
		return append(out, append([]int{0}, out[0]...))
	}
	type stream struct {
		data   []byte
		chunks [][]int
	}
	var streams []stream
	for v := 0; v < 16; v++ {
		d := make([]byte, 4)
		for i := range d {
			d[i] = 0x01
			if v&(1<<i) != 0 {
				d[i] = 0xFF
			}
		}
		streams = append(streams, stream{d, cuts(4)})
	}
	for n := 5; n <= 8; n++ {
		d := make([]byte, n)
		one := make([]int, n)
		for i := range d {
			d[i] = byte(i + 1)
			one[i] = 1
		}
		streams = append(streams, stream{d, [][]int{{n}, one, {n / 2, n - n/2}, {1, n - 1}, {n - 1, 1}}})
	}
	out := base
	for _, m := range methods {
		tuples := perMethod[m]
		if len(tuples) > 2 {
			tuples = [][]interp.ArgSpec{tuples[0], tuples[len(tuples)-1]}
		}
		for _, st := range streams {
			for _, ch := range st.chunks {
				for _, room := range [][]int{{64}, {1}} {
					for _, tup := range tuples {
						for _, v := range []string{"same", "compact"} {
							if v == "compact" && len(ch) == 1 && room[0] == 64 {
								continue
							}
							out = append(out, interp.CoroPlan{Method: m, Data: hex.EncodeToString(st.data), Chunks: ch, Room: room, Variation: v, Scalars: tup})
						}
					}
				}
			}
		}
	}
	return out
}

// EnumeratePlans runs Prog.CoroPlans(maxLen, maxPlans) — plus ExtendPlans when
// extend is set — in the interpreter.
func EnumeratePlans(pi *ProgInfo, maxLen, maxPlans int, extend bool) *PlanJob {
	j := &PlanJob{PI: pi, Suspensions: map[string]int64{}}
	if err := pi.Acquire(); err != nil {
		j.Problems = append(j.Problems, "recompilation failed: "+err.Error())
		return j
	}
	p := pi.P
	plans, capped := p.CoroPlans(maxLen, maxPlans)
	if extend {
		plans = ExtendPlans(plans)
	}
	j.Enumerated, j.Capped = len(plans), capped
	m := interp.NewMachine(p)
	m.CheckBounds = false
	var s Script
	oneShotOf := map[string]int{}
	for i := range plans {
		pl := &plans[i]
		if !PlanSupported(pi, pl) {
			continue
		}
		run := interp.RunCoroPlan(p, m, nil, *pl)
		if run.Bug != "" {
			if len(j.InterpBugs) < 3 {
				j.InterpBugs = append(j.InterpBugs, run.Bug)
			}
			continue
		}
		if run.Viol != nil || run.Hung {
			j.NotReplayed++
			continue
		}
		want, err := pi.PlanExpect(run, nil)
		if err != nil {
			if len(j.Problems) < 3 {
				j.Problems = append(j.Problems, err.Error())
			}
			continue
		}
		j.Calls += int64(run.Calls)
		kinds := map[string]bool{}
		for _, sites := range run.SuspLines {
			for _, ln := range sites {
				if ln >= 1 && ln <= len(p.Lines) {
					k := SuspensionKind(p.Lines[ln-1])
					j.Suspensions[k]++
					kinds[k] = true
				}
			}
		}
		var kl []string
		for k := range kinds {
			kl = append(kl, k)
		}
		sortStrings(kl)
		idx := len(j.Plans)
		if IsOneShot(pl) {
			oneShotOf[OneShotKey(pl)] = idx
		}
		j.Plans = append(j.Plans, *pl)
		j.Want = append(j.Want, want)
		j.SuspPerPlan = append(j.SuspPerPlan, kl)
		s.Plan(pi, pl)
	}
	j.OneShot = make([]int, len(j.Plans))
	for i := range j.Plans {
		if k, ok := oneShotOf[OneShotKey(&j.Plans[i])]; ok {
			j.OneShot[i] = k
		} else {
			j.OneShot[i] = -1
		}
	}
	j.Body = s.B
	return j
}

func sortStrings(s []string) {
	for i := 1; i < len(s); i++ {
		for k := i; k > 0 && s[k] < s[k-1]; k-- {
			s[k], s[k-1] = s[k-1], s[k]
		}
	}
}

// PlanBody is the script body of one plan (for trace mode).
func PlanBody(pi *ProgInfo, pl *interp.CoroPlan) []byte {
	var s Script
	s.Plan(pi, pl)
	return s.B
}
