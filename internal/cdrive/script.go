package cdrive

import (
	"encoding/binary"
	"math/big"

	"verif/internal/interp"
)

// The driver script is a little-endian byte stream of records:
//
//	01 idx:u32 len:u32 <section of len bytes>   select program idx (the driver can skip a section)
//	02                                           NEW   fresh receiver (garbage fill, then initialize)
//	03 slot:u32                                  SAVE  copy the receiver into a slot
//	04 slot:u32                                  LOAD  copy a slot into the receiver
//	05 method:u8 flags:u8 args                   CALL  public call; fold its trace record; flags bit 0: emit the 64-bit digest,
//	                                             bit 1: do not compare the readers' ri (see Enumerate: partial multi-byte read)
//	06 plan                                      PLAN  run a coroutine plan (see Plan below); emits a 32-byte result
//	07                                           ENDPROG
//	FF                                           END
//
// args = n:u8 then per argument: 00 v:u64 | 01 len:u32 bytes | 02 len:u32 bytes ri:u32 closed:u8 pos:u64
// | 03 cap:u32 len:u32 bytes pos:u64 | 04 (NULL instead of an io_buffer*).
type Script struct{ B []byte }

func (s *Script) u8(v int)     { s.B = append(s.B, byte(v)) }
func (s *Script) u32(v int)    { s.B = binary.LittleEndian.AppendUint32(s.B, uint32(v)) }
func (s *Script) u64(v uint64) { s.B = binary.LittleEndian.AppendUint64(s.B, v) }
func (s *Script) raw(b []byte) { s.B = append(s.B, b...) }

// Section wraps a program's records.
func (s *Script) Section(idx int, body []byte) {
	s.u8(0x01)
	s.u32(idx)
	s.u32(len(body) + 1)
	s.raw(body)
	s.u8(0x07)
}
func (s *Script) End()          { s.u8(0xFF) }
func (s *Script) New()          { s.u8(0x02) }
func (s *Script) Save(slot int) { s.u8(0x03); s.u32(slot) }
func (s *Script) Load(slot int) { s.u8(0x04); s.u32(slot) }

func (s *Script) Call(method int, emit bool, args []interp.Value) (flagsAt int) {
	s.u8(0x05)
	s.u8(method)
	flagsAt = len(s.B)
	if emit {
		s.u8(1)
	} else {
		s.u8(0)
	}
	s.Args(args)
	return flagsAt
}

// MaskRI sets the "readers' ri not compared" flag of a CALL record.
func (s *Script) MaskRI(flagsAt int) { s.B[flagsAt] |= 2 }

// Args encodes materialised argument values as they are before the call.
func (s *Script) Args(args []interp.Value) {
	s.u8(len(args))
	for _, a := range args {
		switch a.K {
		case interp.VInt:
			s.u8(0)
			s.u64(ToU64(a.I))
		case interp.VSlice:
			s.u8(1)
			n := a.Hi - a.Lo
			s.u32(n)
			for i := a.Lo; i < a.Hi; i++ {
				s.u8(int(ToU64(a.A.E[i])))
			}
		case interp.VIO:
			b := a.IO
			if b == nil {
				s.u8(4) // NULL in place of the io_buffer*
				continue
			}
			if b.Writer {
				s.u8(3)
				s.u32(len(b.Data))
				s.u32(b.WI)
				s.raw(b.Data[:b.WI])
				s.u64(b.Pos)
			} else {
				s.u8(2)
				s.u32(b.WI)
				s.raw(b.Data[:b.WI])
				s.u32(b.RI)
				if b.Closed {
					s.u8(1)
				} else {
					s.u8(0)
				}
				s.u64(b.Pos)
			}
		default:
			panic("cdrive: unsupported argument value kind")
		}
	}
}

var two64 = new(big.Int).Lsh(big.NewInt(1), 64)

// ToU64 is the 64-bit two's complement pattern of an ideal integer (all Wuffs
// integer types fit in 64 bits, so the pattern identifies the value given the type).
func ToU64(x interp.Int) uint64 {
	if v, ok := x.Int64(); ok {
		return uint64(v)
	}
	b := x.Big()
	if b.Sign() >= 0 {
		return new(big.Int).Mod(b, two64).Uint64()
	}
	return new(big.Int).Mod(new(big.Int).Add(b, two64), two64).Uint64()
}
