package cdrive

import (
	"bytes"
	"fmt"
	"os"
	"os/exec"
	"path/filepath"
	"regexp"
	"sort"
	"strconv"
	"strings"
	"syscall"
	"time"

	"verif/internal/interp"
)

// Batch is a set of programs compiled into one driver.
type Batch struct {
	T      *Tools
	ID     int
	Dir    string
	Progs  []*ProgInfo // programs that made it into the driver (index = program index in scripts)
	GenRej []*ProgInfo // cgen refused (counted for C11)
	GccRej []*ProgInfo // the C compiler refused (counted for C11)
	Unsup  []*ProgInfo // signature the driver cannot call
	bins   map[string]string
	// Stop (optional) is polled before the driver is restarted after a death.
	Stop func() bool
	// MaxHangs bounds the watchdog periods one Run may spend (default 2): after
	// that many programs that did not finish, the rest of the batch is not run
	// (out[i] == nil, listed in NotRun).
	MaxHangs int
	NotRun   int
	// CompileSeconds per configuration name.
	CompileSeconds map[string]float64
}

// NewBatch creates the batch directory and names the packages.
func (t *Tools) NewBatch(progs []*ProgInfo) (*Batch, error) {
	id := t.nextBatchID()
	b := &Batch{T: t, ID: id, Dir: filepath.Join(t.Scratch, fmt.Sprintf("b%05d", id)), bins: map[string]string{}, CompileSeconds: map[string]float64{}}
	if err := os.MkdirAll(b.Dir, 0o755); err != nil {
		return nil, err
	}
	stub := fmt.Sprintf("#include \"%s\"\n", filepath.Join(t.BaseDir, "wuffs-base.c"))
	if err := os.WriteFile(filepath.Join(b.Dir, "wuffs-base.c"), []byte(stub), 0o644); err != nil {
		return nil, err
	}
	for i, pi := range progs {
		pi.Pkg = fmt.Sprintf("p%05d", i)
		if pi.Unsupported != "" {
			b.Unsup = append(b.Unsup, pi)
			continue
		}
		b.Progs = append(b.Progs, pi)
	}
	return b, nil
}

// Remove deletes the batch directory.
func (b *Batch) Remove() {
	if os.Getenv("CDRIVE_KEEP") == "" {
		os.RemoveAll(b.Dir)
	}
}

func (b *Batch) WuffsPath(pi *ProgInfo) string { return filepath.Join(b.Dir, pi.Pkg+".wuffs") }
func (b *Batch) CPath(pi *ProgInfo) string     { return filepath.Join(b.Dir, pi.Pkg+".c") }

// Generate runs the tree's cgen on every program and reads the struct layout
// off the generated C. Programs cgen refuses are moved to GenRej.
func (b *Batch) Generate(worker int) error {
	var keep []*ProgInfo
	for _, pi := range b.Progs {
		if err := os.WriteFile(b.WuffsPath(pi), []byte(pi.Src), 0o644); err != nil {
			return err
		}
		var res string
		for attempt := 0; attempt < 2; attempt++ {
			g, err := b.T.Gen(worker)
			if err != nil {
				return err
			}
			res = g.Gen(pi.Pkg, b.WuffsPath(pi), b.CPath(pi))
			if !strings.HasPrefix(res, "died:") {
				break
			}
			b.T.dropGen(worker)
		}
		if res != "ok" {
			pi.GenErr = res
			b.GenRej = append(b.GenRej, pi)
			continue
		}
		csrc, err := os.ReadFile(b.CPath(pi))
		if err != nil {
			return err
		}
		if msg := pi.readLayout(string(csrc)); msg != "" {
			pi.GenErr = "layout: " + msg
			b.GenRej = append(b.GenRej, pi)
			continue
		}
		keep = append(keep, pi)
	}
	b.Progs = keep
	return nil
}

var fieldRe = regexp.MustCompile(`\bf_([a-z0-9_]+)\b`)

// readLayout finds, for every dumped field, whether the generated struct keeps
// it in private_impl or private_data (cgen moves large arrays and nested
// structs to private_data).
func (pi *ProgInfo) readLayout(csrc string) string {
	head := "struct wuffs_" + pi.Pkg + "__" + pi.Recv + "__struct {"
	i := strings.Index(csrc, head)
	if i < 0 {
		return "struct definition not found"
	}
	rest := csrc[i:]
	e := strings.Index(rest, "#ifdef __cplusplus")
	if e < 0 {
		return "end of struct definition not found"
	}
	rest = rest[:e]
	implEnd := strings.Index(rest, "} private_impl;")
	if implEnd < 0 {
		return "private_impl not found"
	}
	pi.fieldSection = map[string]string{}
	for _, m := range fieldRe.FindAllStringSubmatch(rest[:implEnd], -1) {
		pi.fieldSection[m[1]] = "private_impl"
	}
	for _, m := range fieldRe.FindAllStringSubmatch(rest[implEnd:], -1) {
		if _, dup := pi.fieldSection[m[1]]; !dup {
			pi.fieldSection[m[1]] = "private_data"
		}
	}
	for _, f := range pi.fields {
		if pi.fieldSection[f.name] == "" {
			return "field " + f.name + " not found in the generated struct"
		}
	}
	return ""
}

// emitProgram writes the program-specific half of the driver.
func (pi *ProgInfo) emitProgram(sb *strings.Builder) {
	pkg := pi.Pkg
	typ := "wuffs_" + pkg + "__" + pi.Recv
	fmt.Fprintf(sb, "\n// ---- %s (%s)\nstatic %s cd_obj_%s;\n", pkg, pi.Family, typ, pkg)
	fmt.Fprintf(sb, "static void cd_init_%s(void) {\n  memset(&cd_obj_%s, 0xA5, sizeof(cd_obj_%s));\n", pkg, pkg, pkg)
	fmt.Fprintf(sb, "  wuffs_base__status st = %s__initialize(&cd_obj_%s, sizeof(cd_obj_%s), WUFFS_VERSION, 0);\n", typ, pkg, pkg)
	fmt.Fprintf(sb, "  if (st.repr) {\n    cd_die(\"initialize failed\");\n  }\n}\n")
	fmt.Fprintf(sb, "static void cd_dump_%s(void) {\n", pkg)
	for _, f := range pi.fields {
		path := fmt.Sprintf("cd_obj_%s.%s.f_%s", pkg, pi.fieldSection[f.name], f.name)
		cast := "(uint64_t)"
		if f.signed {
			cast = "(uint64_t)(int64_t)"
		}
		if f.array == 0 {
			fmt.Fprintf(sb, "  cd_item_int(\"%s\", %s(%s));\n", f.labels[0], cast, path)
			continue
		}
		for j := 0; j < f.array; j++ {
			fmt.Fprintf(sb, "  cd_item_int(\"%s\", %s(%s[%d]));\n", f.labels[j], cast, path, j)
		}
	}
	sb.WriteString("}\n")
	fmt.Fprintf(sb, "static int cd_disabled_%s(void) {\n  return cd_obj_%s.private_impl.magic == WUFFS_BASE__DISABLED;\n}\n", pkg, pkg)
	for _, mi := range pi.Methods {
		fmt.Fprintf(sb, "static void cd_call_%s_%d(cd_args* a) {\n", pkg, mi.Index)
		var args []string
		args = append(args, "&cd_obj_"+pkg)
		for i := range mi.ArgNames {
			switch mi.Kinds[i] {
			case 'i':
				args = append(args, fmt.Sprintf("(%s)(a->v[%d].i)", mi.ArgCTypes[i], i))
			case 's':
				args = append(args, fmt.Sprintf("a->v[%d].s", i))
			case 'r', 'w':
				args = append(args, fmt.Sprintf("(a->v[%d].kind == 4 ? NULL : &a->v[%d].io)", i, i))
			}
		}
		call := fmt.Sprintf("%s__%s(%s)", typ, mi.Name, strings.Join(args, ", "))
		switch mi.Ret {
		case 's':
			fmt.Fprintf(sb, "  cd_ret_status(%s);\n", call)
		case 'i':
			cast := "(uint64_t)"
			if mi.RetSigned {
				cast = "(uint64_t)(int64_t)"
			}
			fmt.Fprintf(sb, "  cd_item_int(\"ret\", %s(%s));\n", cast, call)
		default:
			fmt.Fprintf(sb, "  (void)a;\n  %s;\n", call)
		}
		sb.WriteString("}\n")
	}
	fmt.Fprintf(sb, "static const cd_method cd_methods_%s[] = {\n", pkg)
	for _, mi := range pi.Methods {
		var names []string
		for _, a := range mi.ArgNames {
			names = append(names, strconv.Quote(a))
		}
		if len(names) == 0 {
			names = append(names, "0")
		}
		co := 0
		if mi.Coroutine {
			co = 1
		}
		fmt.Fprintf(sb, "  {%q, %d, {%s}, %q, %d, cd_call_%s_%d},\n", mi.Name, len(mi.ArgNames), strings.Join(names, ", "), mi.Kinds, co, pkg, mi.Index)
	}
	sb.WriteString("};\n")
	fmt.Fprintf(sb, "static const cd_prog cd_prog_%s = {%q, &cd_obj_%s, sizeof(cd_obj_%s), cd_init_%s, cd_dump_%s, cd_disabled_%s, %d, cd_methods_%s};\n",
		pkg, pkg, pkg, pkg, pkg, pkg, pkg, len(pi.Methods), pkg)
}

func (b *Batch) writeDriver() error {
	var sb strings.Builder
	// cdbase.h (Tools.pch) = the configuration macros + the base package + libc
	// headers, precompiled once per configuration.
	sb.WriteString("// generated by internal/cdrive\n#include \"cdbase.h\"\n")
	for _, pi := range b.Progs {
		fmt.Fprintf(&sb, "#define WUFFS_CONFIG__MODULE__%s\n", strings.ToUpper(pi.Pkg))
	}
	for _, pi := range b.Progs {
		fmt.Fprintf(&sb, "#include \"%s.c\"\n", pi.Pkg)
	}
	sb.WriteString(runtimeC)
	for _, pi := range b.Progs {
		pi.emitProgram(&sb)
	}
	sb.WriteString("\nstatic const cd_prog* const cd_progs[] = {\n")
	for _, pi := range b.Progs {
		fmt.Fprintf(&sb, "  &cd_prog_%s,\n", pi.Pkg)
	}
	if len(b.Progs) == 0 {
		sb.WriteString("  0,\n")
	}
	fmt.Fprintf(&sb, "};\nint main(int argc, char** argv) {\n  return cd_main(argc, argv, cd_progs, %d);\n}\n", len(b.Progs))
	return os.WriteFile(filepath.Join(b.Dir, "driver.c"), []byte(sb.String()), 0o644)
}

var gccErrRe = regexp.MustCompile(`(p\d{5})\.c:\d+:\d+: (?:fatal )?error`)
var drvErrRe = regexp.MustCompile(`driver\.c:(\d+):\d+: (?:fatal )?error`)

// Compile builds the driver with one configuration. Programs whose generated C
// the compiler rejects are moved to GccRej (that is C11's business) and the
// driver is rebuilt without them; this must happen with the FIRST configuration
// compiled, before any script is made (program indexes change).
func (b *Batch) Compile(cfg Config) error {
	for attempt := 0; attempt < 6; attempt++ {
		if err := b.writeDriver(); err != nil {
			return err
		}
		bin := filepath.Join(b.Dir, "driver-"+cfg.Name)
		pch, err := b.T.pch(cfg)
		if err != nil {
			return err
		}
		args := append(append([]string{}, cfg.Flags...), "-w", "-I", pch, "-o", bin, "driver.c")
		t0 := time.Now()
		cmd := exec.Command(cfg.CC, args...)
		cmd.Dir = b.Dir
		out, err := cmd.CombinedOutput()
		b.CompileSeconds[cfg.Name] += time.Since(t0).Seconds()
		if err == nil {
			b.bins[cfg.Name] = bin
			return nil
		}
		if len(b.bins) > 0 {
			return fmt.Errorf("%s rejects a driver that another configuration accepted:\n%s", cfg.Name, head(string(out), 30))
		}
		bad := map[string]string{}
		for _, m := range gccErrRe.FindAllStringSubmatch(string(out), -1) {
			if bad[m[1]] == "" {
				bad[m[1]] = m[0]
			}
		}
		// Errors in the driver's own thunks (e.g. a generated prototype the thunk
		// does not match) are attributed through the enclosing cd_*_pNNNNN name.
		if len(bad) == 0 {
			drv, _ := os.ReadFile(filepath.Join(b.Dir, "driver.c"))
			lines := strings.Split(string(drv), "\n")
			pk := regexp.MustCompile(`cd_[a-z]+_(p\d{5})`)
			for _, m := range drvErrRe.FindAllStringSubmatch(string(out), -1) {
				ln, _ := strconv.Atoi(m[1])
				for k := ln - 1; k >= 0 && k > ln-40 && k < len(lines); k-- {
					if mm := pk.FindStringSubmatch(lines[k]); mm != nil {
						bad[mm[1]] = "driver thunk: " + m[0]
						break
					}
				}
			}
		}
		if len(bad) == 0 {
			return fmt.Errorf("%s failed and no program can be blamed:\n%s", cfg.Name, head(string(out), 40))
		}
		var keep []*ProgInfo
		for _, pi := range b.Progs {
			if why, isBad := bad[pi.Pkg]; isBad {
				pi.GccErr = why + "\n" + grepLines(string(out), pi.Pkg+".c:", 6)
				b.GccRej = append(b.GccRej, pi)
			} else {
				keep = append(keep, pi)
			}
		}
		b.Progs = keep
	}
	return fmt.Errorf("%s: still failing after removing rejected programs", cfg.Name)
}

func head(s string, n int) string {
	l := strings.Split(s, "\n")
	if len(l) > n {
		l = l[:n]
	}
	return strings.Join(l, "\n")
}

func grepLines(s, needle string, n int) string {
	var out []string
	for _, l := range strings.Split(s, "\n") {
		if strings.Contains(l, needle) {
			out = append(out, l)
			if len(out) == n {
				break
			}
		}
	}
	return strings.Join(out, "\n")
}

// Crash describes a program during which the driver process died.
type Crash struct {
	Prog int
	// Partial is the output the program produced before the driver died (the
	// runtime flushes on death): len(Partial)/8 digests of a C04 section are complete.
	Partial []byte
	Kind    string // "asan:<what>", "ubsan:<what>", "watchdog", "signal:<n>", "exit:<n>"
	Stderr  string
}

var asanRe = regexp.MustCompile(`ERROR: AddressSanitizer: ([A-Za-z-]+)`)
var ubsanRe = regexp.MustCompile(`runtime error: ([^\n]*)`)
var digitsRe = regexp.MustCompile(`-?\d+`)

func classifyCrash(code int, sig syscall.Signal, stderr string) string {
	if m := asanRe.FindStringSubmatch(stderr); m != nil {
		return "asan:" + m[1]
	}
	if m := ubsanRe.FindStringSubmatch(stderr); m != nil {
		s := digitsRe.ReplaceAllString(m[1], "N")
		if len(s) > 60 {
			s = s[:60]
		}
		return "ubsan:" + s
	}
	if code == 77 {
		return "watchdog"
	}
	if sig != 0 {
		return "signal:" + sig.String()
	}
	return "exit:" + strconv.Itoa(code)
}

// Run executes a script (sections in program order; expect[i] = number of
// result bytes program i must produce). When the process dies inside a program
// (sanitizer report, signal, watchdog) that program's output is dropped, the
// crash is recorded and the run resumes with the next program. out[i] == nil
// marks a crashed (or not attempted) program.
func (b *Batch) Run(cfg Config, script []byte, expect []int) (out [][]byte, crashes []Crash, err error) {
	bin := b.bins[cfg.Name]
	if bin == "" {
		return nil, nil, fmt.Errorf("configuration %s not compiled", cfg.Name)
	}
	spath := filepath.Join(b.Dir, "script-"+cfg.Name+".bin")
	if err := os.WriteFile(spath, script, 0o644); err != nil {
		return nil, nil, err
	}
	defer os.Remove(spath)
	out = make([][]byte, len(expect))
	from := 0
	hangs := 0
	for from < len(expect) {
		cmd := exec.Command(bin, spath, "run", strconv.Itoa(from))
		cmd.Env = append(os.Environ(), "ASAN_OPTIONS=detect_leaks=0:abort_on_error=0:allocator_may_return_null=1", "UBSAN_OPTIONS=print_stacktrace=0")
		var so, se bytes.Buffer
		cmd.Stdout, cmd.Stderr = &so, &se
		rerr := cmd.Run()
		data := so.Bytes()
		k := from
		for k < len(expect) && len(data) >= expect[k] {
			out[k] = append([]byte{}, data[:expect[k]]...)
			data = data[expect[k]:]
			k++
		}
		if rerr == nil {
			if k != len(expect) || len(data) != 0 {
				return out, crashes, fmt.Errorf("driver %s ended normally with %d programs complete of %d and %d stray bytes", cfg.Name, k, len(expect), len(data))
			}
			return out, crashes, nil
		}
		ee, ok := rerr.(*exec.ExitError)
		if !ok {
			return out, crashes, rerr
		}
		code := ee.ExitCode()
		var sig syscall.Signal
		if ws, ok := ee.Sys().(syscall.WaitStatus); ok && ws.Signaled() {
			sig = ws.Signal()
		}
		if code == 70 || code == 64 {
			return out, crashes, fmt.Errorf("driver %s: harness problem: %s", cfg.Name, head(se.String(), 5))
		}
		if k >= len(expect) {
			return out, crashes, fmt.Errorf("driver %s died after the last program: %s", cfg.Name, head(se.String(), 5))
		}
		kind := classifyCrash(code, sig, se.String())
		crashes = append(crashes, Crash{Prog: k, Partial: append([]byte{}, data...), Kind: kind, Stderr: head(se.String(), 25)})
		out[k] = nil
		from = k + 1
		if kind == "watchdog" {
			hangs++
		}
		maxHangs := b.MaxHangs
		if maxHangs <= 0 {
			maxHangs = 2
		}
		if hangs >= maxHangs || (b.Stop != nil && b.Stop()) {
			b.NotRun += len(expect) - from
			break
		}
	}
	return out, crashes, nil
}

// Trace runs a single program section in trace mode and returns the text.
func (b *Batch) Trace(cfg Config, prog int, body []byte) (text string, problem string) {
	bin := b.bins[cfg.Name]
	var s Script
	s.Section(prog, body)
	s.End()
	spath := filepath.Join(b.Dir, fmt.Sprintf("trace-%s-%d.bin", cfg.Name, prog))
	if err := os.WriteFile(spath, s.B, 0o644); err != nil {
		return "", err.Error()
	}
	defer os.Remove(spath)
	cmd := exec.Command(bin, spath, "trace")
	cmd.Env = append(os.Environ(), "ASAN_OPTIONS=detect_leaks=0", "UBSAN_OPTIONS=print_stacktrace=0")
	var so, se bytes.Buffer
	cmd.Stdout, cmd.Stderr = &so, &se
	if err := cmd.Run(); err != nil {
		problem = err.Error() + ": " + head(se.String(), 12)
	}
	return so.String(), problem
}

// SplitTrace cuts trace text into per-call blocks (the lines after each "call ..." line).
func SplitTrace(text string) (blocks [][]string) {
	for _, l := range strings.Split(text, "\n") {
		if l == "" || strings.HasPrefix(l, "program ") {
			continue
		}
		if strings.HasPrefix(l, "call ") {
			blocks = append(blocks, nil)
			continue
		}
		if len(blocks) == 0 {
			continue
		}
		blocks[len(blocks)-1] = append(blocks[len(blocks)-1], l)
	}
	return blocks
}

// Divergence locates the first differing item of two traced histories.
type Divergence struct {
	Call   int    // index of the call in the history
	Label  string // item label (ret, io.src.ri, f.r, f.a[2] ...)
	C      string
	Interp string
	CText  []string // the C trace of the diverging call
	// Problem is set when the C driver did not finish the traced history (it
	// died: sanitizer report, signal, watchdog); the text is its stderr head.
	Problem string
	IText   []string // the interpreter's trace of it
}

func labelOf(line string) string {
	if i := strings.IndexByte(line, '='); i >= 0 {
		return line[:i]
	}
	return line
}

// CompareTraces finds the first item on which the two traces differ.
func CompareTraces(c, i [][]string) *Divergence {
	for k := 0; k < len(c) || k < len(i); k++ {
		var cb, ib []string
		if k < len(c) {
			cb = c[k]
		}
		if k < len(i) {
			ib = i[k]
		}
		for x := 0; x < len(cb) || x < len(ib); x++ {
			cl, il := "(missing)", "(missing)"
			if x < len(cb) {
				cl = cb[x]
			}
			if x < len(ib) {
				il = ib[x]
			}
			if cl != il {
				lab := labelOf(il)
				if x >= len(ib) {
					lab = labelOf(cl)
				}
				return &Divergence{Call: k, Label: lab, C: cl, Interp: il, CText: cb, IText: ib}
			}
		}
	}
	return nil
}

// Diagnose re-runs one history of one program with full traces on both sides.
func (b *Batch) Diagnose(cfg Config, prog int, calls []interp.CallSpec) (div *Divergence, problem string) {
	pi := b.Progs[prog]
	if err := pi.Acquire(); err != nil {
		return nil, err.Error()
	}
	iblocks, masks, iprob := ReplayInterp(pi, calls)
	if iprob != "" {
		return nil, iprob
	}
	text, prob := b.Trace(cfg, prog, HistoryScript(pi, calls, masks))
	div = CompareTraces(SplitTrace(text), iblocks)
	if div == nil && prob != "" {
		return nil, "C driver in trace mode: " + prob
	}
	if div != nil {
		div.Problem = prob
	}
	return div, ""
}

// Constructs lists the language constructs that occur in the program text, from
// a fixed vocabulary (used to build violation signatures that name the shape of
// the program rather than the program).
func Constructs(src string) []string {
	vocab := []string{"~mod+", "~mod-", "~mod*", "~mod<<", "~sat+", "~sat-", "<<=", ">>=", "+=", "-=", "*=", "&=", "|=", "^=", "~mod+=", "~sat+=",
		" << ", " >> ", " / ", " % ", " * ", " & ", " | ", " ^ ", " as ", ".min(", ".max(", ".low_bits(", ".high_bits(",
		"while", "iterate", "continue", "break", "io_limit", "io_bind", "choose", "yield?", "read_u8?", "read_u16le", "read_u16be", "read_u32", "skip_u32?", "write_u8?",
		"peek_u", "skip_u32_fast!", "write_u8_fast!", "write_u16le_fast!", "undo_byte!", "limited_copy_u32", "copy_from_slice!", "bulk_memset!", ".length()",
		"this.sub?", "=?", "[.. ", " .. ", " ..]", "slice base.u8"}
	var out []string
	for _, v := range vocab {
		if strings.Contains(src, v) {
			out = append(out, strings.TrimSpace(v))
		}
	}
	sort.Strings(out)
	return out
}
