package cdrive

import (
	"encoding/hex"
	"fmt"
	"strconv"
	"strings"

	"verif/internal/interp"
)

// Digester folds trace items exactly like the C runtime (rt.inc: cd_item_*):
// FNV-1a over label\0 + payload. With Lines != nil it also renders the items as
// the text the driver prints in trace mode.
type Digester struct {
	H     uint64
	Lines *[]string
}

const fnvOffset = 14695981039346656037
const fnvPrime = 1099511628211

func (d *Digester) Reset() { d.H = fnvOffset }

func (d *Digester) foldString0(s string) {
	h := d.H
	for i := 0; i < len(s); i++ {
		h = (h ^ uint64(s[i])) * fnvPrime
	}
	h = (h ^ 0) * fnvPrime
	d.H = h
}

func (d *Digester) foldU64(v uint64) {
	h := d.H
	for i := 0; i < 8; i++ {
		h = (h ^ (v >> (8 * i) & 0xFF)) * fnvPrime
	}
	d.H = h
}

func (d *Digester) Int(label string, v uint64) {
	d.foldString0(label)
	d.foldU64(v)
	if d.Lines != nil {
		*d.Lines = append(*d.Lines, label+"="+strconv.FormatUint(v, 10))
	}
}

func (d *Digester) Bytes(label string, b []byte) {
	d.foldString0(label)
	d.foldString0("#len")
	d.foldU64(uint64(len(b)))
	h := d.H
	for _, x := range b {
		h = (h ^ uint64(x)) * fnvPrime
	}
	d.H = h
	if d.Lines != nil {
		*d.Lines = append(*d.Lines, "#len="+strconv.Itoa(len(b)), label+"="+hex.EncodeToString(b))
	}
}

func (d *Digester) Str(label, s string) {
	d.foldString0(label)
	d.foldString0(s)
	if d.Lines != nil {
		*d.Lines = append(*d.Lines, label+"="+s)
	}
}

// ---------------------------------------------------------------- program description

// MethodInfo describes one public method of the receiver struct.
type MethodInfo struct {
	Fn    *interp.Func // nil while the program is released (ProgInfo.Release)
	Name  string
	Index int
	Kinds string // per argument: i s r w
	Ret   byte   // 's' status, 'i' integer / bool, 'n' nothing
	// What the driver emitter needs, kept across Release.
	ArgNames  []string
	ArgCTypes []string
	RetSigned bool
	Coroutine bool
	// Pre-rendered item labels per argument.
	lblRI, lblWI, lblClosed, lblWritten, lblSlice []string
}

type fieldInfo struct {
	idx    int
	name   string
	array  int // 0: scalar
	signed bool
	isBool bool
	bits   uint
	labels []string // one for a scalar, one per element for an array
}

// ProgInfo is an accepted program prepared for the C driver.
type ProgInfo struct {
	P       *interp.Prog // nil while released; Acquire recompiles it from Src
	Src     string
	ID      string // SHA-1 of Src
	Family  string
	Tags    map[string]string
	Pkg     string // C package name, assigned per batch (pNNNNN)
	Recv    string
	Methods []*MethodInfo
	fields  []fieldInfo
	// Unsupported is non-empty when the program has a public method whose
	// signature the driver cannot call (pointer / status arguments ...).
	Unsupported string
	// Filled by Batch.Generate from the generated C: the struct section
	// (private_impl / private_data) of every dumped field.
	fieldSection map[string]string
	GenErr       string // wuffs-c gen refused / crashed (C11's business)
	GccErr       string // the C compiler refused the generated C (C11's business)
}

func cIntType(ty *interp.Type) string {
	if ty.K == interp.TBool {
		return "bool"
	}
	if ty.Signed {
		return fmt.Sprintf("int%d_t", ty.Bits)
	}
	return fmt.Sprintf("uint%d_t", ty.Bits)
}

// Describe prepares an accepted program.
func Describe(p *interp.Prog, family string, tags map[string]string) *ProgInfo {
	pi := &ProgInfo{P: p, Src: p.Src, ID: p.ID, Family: family, Tags: tags, Recv: p.MainStruct()}
	si := p.Structs[pi.Recv]
	if si == nil {
		pi.Unsupported = "no receiver struct"
		return pi
	}
	for _, f := range p.PublicMethods() {
		if f.Recv != pi.Recv {
			continue
		}
		mi := &MethodInfo{Fn: f, Name: f.Name, Index: len(pi.Methods), Coroutine: f.Effect.Coroutine(), RetSigned: f.Out != nil && f.Out.Signed}
		n := len(f.Args)
		if n > 8 {
			pi.Unsupported = "more than 8 arguments"
		}
		mi.lblRI, mi.lblWI, mi.lblClosed, mi.lblWritten, mi.lblSlice = make([]string, n), make([]string, n), make([]string, n), make([]string, n), make([]string, n)
		for i, a := range f.Args {
			mi.ArgNames = append(mi.ArgNames, a.Name)
			ct := ""
			if a.Typ.K == interp.TInt || a.Typ.K == interp.TBool {
				ct = cIntType(a.Typ)
			}
			mi.ArgCTypes = append(mi.ArgCTypes, ct)
			switch a.Typ.K {
			case interp.TInt, interp.TBool:
				mi.Kinds += "i"
			case interp.TSlice:
				if a.Typ.Elem == nil || a.Typ.Elem.K != interp.TInt || a.Typ.Elem.Bits != 8 || a.Typ.Elem.Signed {
					pi.Unsupported = "slice argument of " + a.Typ.Str
				}
				mi.Kinds += "s"
				mi.lblSlice[i] = "slice." + a.Name
			case interp.TIOReader, interp.TIOWriter:
				if a.Typ.K == interp.TIOReader {
					mi.Kinds += "r"
				} else {
					mi.Kinds += "w"
					mi.lblWritten[i] = "io." + a.Name + ".written"
				}
				mi.lblRI[i] = "io." + a.Name + ".ri"
				mi.lblWI[i] = "io." + a.Name + ".wi"
				mi.lblClosed[i] = "io." + a.Name + ".closed"
			default:
				mi.Kinds += "?"
				pi.Unsupported = "argument of type " + a.Typ.Str
			}
		}
		switch {
		case f.Effect.Coroutine() || (f.Out != nil && f.Out.K == interp.TStatus):
			mi.Ret = 's'
		case f.Out == nil || f.Out.K == interp.TEmpty:
			mi.Ret = 'n'
		case f.Out.K == interp.TInt || f.Out.K == interp.TBool:
			mi.Ret = 'i'
		default:
			pi.Unsupported = "result of type " + f.Out.Str
		}
		pi.Methods = append(pi.Methods, mi)
	}
	if len(pi.Methods) == 0 && pi.Unsupported == "" {
		pi.Unsupported = "no public method"
	}
	for i, f := range si.Fields {
		switch f.Typ.K {
		case interp.TInt, interp.TBool:
			pi.fields = append(pi.fields, fieldInfo{idx: i, name: f.Name, signed: f.Typ.Signed, isBool: f.Typ.K == interp.TBool, bits: f.Typ.Bits, labels: []string{"f." + f.Name}})
		case interp.TArray:
			if f.Typ.Elem != nil && (f.Typ.Elem.K == interp.TInt || f.Typ.Elem.K == interp.TBool) && f.Typ.Len > 0 && f.Typ.Len <= 64 {
				fi := fieldInfo{idx: i, name: f.Name, array: f.Typ.Len, signed: f.Typ.Elem.Signed, isBool: f.Typ.Elem.K == interp.TBool, bits: f.Typ.Elem.Bits}
				for j := 0; j < f.Typ.Len; j++ {
					fi.labels = append(fi.labels, fmt.Sprintf("f.%s[%d]", f.Name, j))
				}
				pi.fields = append(pi.fields, fi)
			}
		}
		// Struct-typed fields, arrays of structs and anything else are not dumped (on either side).
	}
	return pi
}

// Release drops the checked AST (a compiled program keeps the checker's tables
// alive: megabytes per program); Acquire brings it back by recompiling Src.
func (pi *ProgInfo) Release() {
	pi.P = nil
	for _, m := range pi.Methods {
		m.Fn = nil
	}
}

// Acquire makes pi.P and the methods' Fn valid again.
func (pi *ProgInfo) Acquire() error {
	if pi.P != nil {
		return nil
	}
	p, err := interp.Compile(pi.Src)
	if err != nil {
		return err
	}
	pi.P = p
	for _, m := range pi.Methods {
		m.Fn = p.Funcs[pi.Recv+"."+m.Name]
		if m.Fn == nil {
			return fmt.Errorf("method %s disappeared on recompilation", m.Name)
		}
	}
	return nil
}

// DumpFields folds the receiver field dump.
func (pi *ProgInfo) DumpFields(d *Digester, obj *interp.Object) {
	for k := range pi.fields {
		fi := &pi.fields[k]
		v := obj.F[fi.idx]
		if fi.array == 0 {
			d.Int(fi.labels[0], ToU64(v.I))
			continue
		}
		for j := 0; j < fi.array; j++ {
			d.Int(fi.labels[j], ToU64(v.A.E[j]))
		}
	}
}

// StatusText is the text the C side sees for a status value: "ok" or the repr.
func StatusText(v interp.Value) string {
	if v.S == "" {
		return "ok"
	}
	return v.S
}

// Record folds the observable outcome of one public call: result, I/O
// argument indexes and written bytes, slice argument contents, field dump.
//
// maskRI: the call ended in a suspension in the middle of a multi-byte read.
// How many of the bytes that were available such a read consumes before it
// suspends is not specified (the generated C moves them into its scratch word,
// the ideal semantics leaves them in the buffer; both honour the caller
// contract "unread bytes are ri .. wi"), so the readers' ri is not compared.
func (pi *ProgInfo) Record(d *Digester, mi *MethodInfo, res *interp.CallResult, args []interp.Value, obj *interp.Object, maskRI bool) {
	switch mi.Ret {
	case 's':
		d.Str("ret", StatusText(res.Ret))
	case 'i':
		d.Int("ret", ToU64(res.Ret.I))
	}
	for i, a := range args {
		switch mi.Kinds[i] {
		case 'r', 'w':
			b := a.IO
			if b == nil {
				continue // NULL was passed (argument check)
			}
			if maskRI && mi.Kinds[i] == 'r' {
				d.Int(mi.lblRI[i], ^uint64(0))
			} else {
				d.Int(mi.lblRI[i], uint64(b.RI))
			}
			d.Int(mi.lblWI[i], uint64(b.WI))
			c := uint64(0)
			if b.Closed {
				c = 1
			}
			d.Int(mi.lblClosed[i], c)
			if mi.Kinds[i] == 'w' {
				d.Bytes(mi.lblWritten[i], b.Data[:b.WI])
			}
		case 's':
			buf := make([]byte, 0, a.Hi-a.Lo)
			for j := a.Lo; j < a.Hi; j++ {
				buf = append(buf, byte(ToU64(a.A.E[j])))
			}
			d.Bytes(mi.lblSlice[i], buf)
		}
	}
	pi.DumpFields(d, obj)
	dis := uint64(0)
	if obj.Disabled {
		dis = 1
	}
	d.Int("#disabled", dis)
}

// PartialRead reports whether a call that just suspended is parked inside a
// multi-byte read with some (but not enough) source bytes available.
func PartialRead(p *interp.Prog, obj *interp.Object, args []interp.Value) bool {
	multi := false
	for _, ln := range obj.SuspendedSites() {
		if ln >= 1 && ln <= len(p.Lines) {
			k := SuspensionKind(p.Lines[ln-1])
			if strings.HasPrefix(k, "read_u") && k != "read_u8?" && !strings.HasPrefix(k, "read_u8_as") {
				multi = true
			}
		}
	}
	if !multi {
		return false
	}
	for _, a := range args {
		if a.K == interp.VIO && a.IO != nil && !a.IO.Writer && a.IO.RI < a.IO.WI {
			return true
		}
	}
	return false
}

// ---------------------------------------------------------------- the argument check of public methods
//
// Generated public methods re-validate their arguments at run time
// (internal/cgen/func.go writeFuncImplArgChecks): after the receiver / magic
// checks, an argument outside its declared refinement or a NULL io_buffer makes
// the call return "#base: bad argument" (status results) or the zero value
// (anything else) without running the body; impure methods also disable the
// receiver. The reference interpreter is never given such arguments, so this
// envelope is modelled here.

// BadArg describes one out-of-range argument value of a tuple.
type BadArg struct {
	Arg   int
	Type  string // e.g. "i32[0..=K]"
	Bound string // "lower", "upper", "null"
}

func refinementShape(ty *interp.Type) string {
	base := "u"
	if ty.Signed {
		base = "i"
	}
	base += strconv.Itoa(int(ty.Bits))
	lo, hi := baseRangeOf(ty)
	l, h := "", ""
	switch {
	case ty.Min.Cmp(lo) == 0:
	case ty.Min.Sign() == 0:
		l = "0"
	case ty.Min.Sign() < 0:
		l = "-L"
	default:
		l = "L"
	}
	if ty.Max.Cmp(hi) != 0 {
		h = "K"
	}
	return base + "[" + l + "..=" + h + "]"
}

func baseRangeOf(ty *interp.Type) (interp.Int, interp.Int) {
	one := interp.I64(1)
	if ty.Signed {
		return one.Lsh(ty.Bits - 1).Neg(), one.Lsh(ty.Bits - 1).Sub(one)
	}
	return interp.Int{}, one.Lsh(ty.Bits).Sub(one)
}

// BadTuples derives, from an in-range tuple, the tuples in which exactly one
// argument is outside its declared domain: lo-1, hi+1, the type's minimum and
// maximum, -1 for refined integers; NULL for I/O arguments.
func BadTuples(fn *interp.Func, base []interp.ArgSpec) (tuples [][]interp.ArgSpec, what []BadArg) {
	add := func(i int, spec interp.ArgSpec, b BadArg) {
		t := append([]interp.ArgSpec{}, base...)
		t[i] = spec
		tuples = append(tuples, t)
		what = append(what, b)
	}
	for i, a := range fn.Args {
		ty := a.Typ
		switch ty.K {
		case interp.TIOReader, interp.TIOWriter:
			add(i, interp.ArgSpec{Kind: "null"}, BadArg{i, "io", "null"})
		case interp.TInt:
			lo, hi := baseRangeOf(ty)
			shape := refinementShape(ty)
			seen := map[string]bool{}
			try := func(v interp.Int, bound string) {
				if v.Cmp(lo) < 0 || v.Cmp(hi) > 0 || (v.Cmp(ty.Min) >= 0 && v.Cmp(ty.Max) <= 0) || seen[v.String()] {
					return
				}
				seen[v.String()] = true
				add(i, interp.ArgSpec{Kind: "int", Int: v.String()}, BadArg{i, shape, bound})
			}
			try(ty.Min.Sub(interp.I64(1)), "lower")
			try(interp.I64(-1), "lower")
			try(lo, "lower")
			try(ty.Max.Add(interp.I64(1)), "upper")
			try(hi, "upper")
		}
	}
	return tuples, what
}

// MakeArgs materialises a tuple; "null" for an I/O parameter is a nil buffer.
func MakeArgs(p *interp.Prog, fn *interp.Func, tup []interp.ArgSpec) []interp.Value {
	args := make([]interp.Value, len(tup))
	for i, a := range tup {
		if a.Kind == "null" && i < len(fn.Args) && (fn.Args[i].Typ.K == interp.TIOReader || fn.Args[i].Typ.K == interp.TIOWriter) {
			args[i] = interp.Value{K: interp.VIO}
			continue
		}
		args[i] = p.MakeArg(a)
	}
	return args
}

func argOutOfDomain(ty *interp.Type, v interp.Value) bool {
	switch ty.K {
	case interp.TIOReader, interp.TIOWriter:
		return v.IO == nil
	case interp.TInt:
		return v.I.Cmp(ty.Min) < 0 || v.I.Cmp(ty.Max) > 0
	}
	return false
}

// CallEnveloped is Machine.CallPublicValues preceded by the argument check of
// generated public methods.
func CallEnveloped(m *interp.Machine, p *interp.Prog, obj *interp.Object, fn *interp.Func, spec interp.CallSpec, args []interp.Value) interp.CallResult {
	bad := false
	for i, a := range fn.Args {
		if i < len(args) && argOutOfDomain(a.Typ, args[i]) {
			bad = true
		}
	}
	if !bad || (fn.Effect.Impure() && obj.Disabled) {
		// (A disabled receiver refuses impure calls before it looks at the arguments.)
		return m.CallPublicValues(obj, fn, spec, args)
	}
	var res interp.CallResult
	switch {
	case fn.Effect.Coroutine() || (fn.Out != nil && fn.Out.K == interp.TStatus):
		res.Ret = interp.StatusVal("#base: bad argument")
	case fn.Out != nil:
		res.Ret = p.ZeroValue(fn.Out)
	}
	if fn.Effect.Impure() {
		obj.Disabled = true
	}
	return res
}

// BadArgOfCall finds the first out-of-domain argument of a call, if any.
func BadArgOfCall(pi *ProgInfo, call interp.CallSpec) (BadArg, bool) {
	if pi.Acquire() != nil {
		return BadArg{}, false
	}
	for _, mi := range pi.Methods {
		if mi.Name != call.Method {
			continue
		}
		args := MakeArgs(pi.P, mi.Fn, call.Args)
		for i, a := range mi.Fn.Args {
			if i >= len(args) || !argOutOfDomain(a.Typ, args[i]) {
				continue
			}
			if a.Typ.K != interp.TInt {
				return BadArg{i, "io", "null"}, true
			}
			b := "upper"
			if args[i].I.Cmp(a.Typ.Min) < 0 {
				b = "lower"
			}
			return BadArg{i, refinementShape(a.Typ), b}, true
		}
	}
	return BadArg{}, false
}
