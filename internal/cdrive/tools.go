// Package cdrive is engine E3 (DESIGN.md section 3): the batch C driver for
// generated programs. Accepted progen programs are packed into batches (each
// program is its own Wuffs package pNNNNN, so struct and function names do not
// collide), the working tree's cgen turns each into C, ONE C driver per batch
// replays the executions the reference interpreter explored and folds the same
// trace records into per-execution digests, and the digests are compared.
package cdrive

import (
	"bufio"
	"bytes"
	_ "embed"
	"encoding/json"
	"fmt"
	"io"
	"os"
	"os/exec"
	"path/filepath"
	"strings"
	"sync"
	"time"

	"verif/internal/ev"
)

//go:embed rt.inc
var runtimeC string

// cgenbatchMain is injected (go build -overlay, an added file) into the wuffs
// module as cmd/verif-cgenbatch: a loop around cgen.Do, the function that
// `wuffs-c gen` calls (cmd/wuffs-c/main.go: case "gen": return cgen.Do(args)).
// One request per line: "<package_name> <file.wuffs | -> <out.c>"; one answer
// line: "ok" | "err: ..." | "panic: ...". Running cgen in a long-lived process
// instead of spawning `wuffs-c gen` per program saves ~0.4 s of process start
// per program (measured), and it is the same code built from the same tree;
// Tools.CrossCheck compares it with the real wuffs-c binary byte for byte.
const cgenbatchMain = `package main

import (
	"bufio"
	"fmt"
	"os"
	"strings"

	"github.com/google/wuffs/internal/cgen"
)

func one(f []string) (res string) {
	defer func() {
		if r := recover(); r != nil {
			res = "panic: " + strings.ReplaceAll(fmt.Sprint(r), "\n", " ")
		}
	}()
	if len(f) != 3 {
		return "err: bad request"
	}
	o, err := os.Create(f[2])
	if err != nil {
		return "err: " + err.Error()
	}
	saved := os.Stdout
	os.Stdout = o
	args := []string{"-package_name", f[0]}
	if f[1] != "-" {
		args = append(args, f[1])
	}
	func() {
		defer func() { os.Stdout = saved; o.Close() }()
		err = cgen.Do(args)
	}()
	if err != nil {
		return "err: " + strings.ReplaceAll(err.Error(), "\n", " ")
	}
	return "ok"
}

func main() {
	out := bufio.NewWriter(os.Stdout)
	sc := bufio.NewScanner(os.Stdin)
	sc.Buffer(make([]byte, 1<<16), 1<<20)
	for sc.Scan() {
		fmt.Fprintln(out, one(strings.Fields(sc.Text())))
		out.Flush()
	}
}
`

// Config is one way of compiling the batch driver.
type Config struct {
	Name  string
	CC    string
	Flags []string
	San   bool
}

var (
	// AsanO1 is the default configuration (DESIGN E3).
	AsanO1 = Config{Name: "gcc-O1-asan-ubsan", CC: "gcc", Flags: []string{"-O1", "-fsanitize=address,undefined", "-fno-sanitize-recover=all"}, San: true}
	GccO2  = Config{Name: "gcc-O2", CC: "gcc", Flags: []string{"-O2"}}
	Clang  = Config{Name: "clang-O2", CC: "clang-14", Flags: []string{"-O2"}}
)

// Tools holds what is built once per run from the tree under check.
type Tools struct {
	Scratch string
	GenBin  string // cgenbatch
	BaseDir string // holds wuffs-base.c
	WuffsC  string // the real cmd/wuffs-c (built in the background for CrossCheck)

	wuffsCOnce sync.Once
	wuffsCDone chan struct{}
	wuffsCErr  error
	xcheck     [][3]string

	mu     sync.Mutex
	procs  []*GenProc
	seq    int
	pchMu  sync.Mutex
	pchDir map[string]string
	// PchSeconds is the time spent precompiling the base header, per configuration.
	PchSeconds map[string]float64
}

const cdbaseH = `#define WUFFS_IMPLEMENTATION
#define WUFFS_CONFIG__STATIC_FUNCTIONS
#define WUFFS_CONFIG__MODULES
#define WUFFS_CONFIG__MODULE__BASE__CORE
#include "%s"
#include <signal.h>
#include <stdio.h>
#include <unistd.h>
`

// pch returns the include directory that holds cdbase.h for cfg; with gcc the
// header is precompiled there once (parsing the base package dominates the
// compile time of a batch otherwise). clang includes it textually.
func (t *Tools) pch(cfg Config) (string, error) {
	t.pchMu.Lock()
	defer t.pchMu.Unlock()
	if d, ok := t.pchDir[cfg.Name]; ok {
		return d, nil
	}
	if t.pchDir == nil {
		t.pchDir, t.PchSeconds = map[string]string{}, map[string]float64{}
	}
	d := filepath.Join(t.Scratch, "pch-"+cfg.Name)
	if err := os.MkdirAll(d, 0o755); err != nil {
		return "", err
	}
	h := filepath.Join(d, "cdbase.h")
	if err := os.WriteFile(h, []byte(fmt.Sprintf(cdbaseH, filepath.Join(t.BaseDir, "wuffs-base.c"))), 0o644); err != nil {
		return "", err
	}
	if cfg.CC == "gcc" {
		t0 := time.Now()
		args := append(append([]string{}, cfg.Flags...), "-w", "-x", "c-header", h, "-o", h+".gch")
		if err := runCmd(d, cfg.CC, args...); err != nil {
			return "", err
		}
		t.PchSeconds[cfg.Name] = time.Since(t0).Seconds()
	}
	t.pchDir[cfg.Name] = d
	return d, nil
}

func runCmd(dir string, name string, args ...string) error {
	cmd := exec.Command(name, args...)
	cmd.Dir = dir
	out, err := cmd.CombinedOutput()
	if err != nil {
		return fmt.Errorf("%s %v (in %s): %v\n%s", name, args, dir, err, out)
	}
	return nil
}

// Build compiles the cgen batch tool from ev.Repo() and generates the base package C.
func Build(scratch string) (*Tools, error) {
	t := &Tools{Scratch: scratch, GenBin: filepath.Join(scratch, "bin", "cgenbatch"), BaseDir: filepath.Join(scratch, "base")}
	for _, d := range []string{filepath.Join(scratch, "bin"), t.BaseDir, filepath.Join(scratch, "ov")} {
		if err := os.MkdirAll(d, 0o755); err != nil {
			return nil, err
		}
	}
	mainPath := filepath.Join(scratch, "ov", "cgenbatch_main.go")
	if err := os.WriteFile(mainPath, []byte(cgenbatchMain), 0o644); err != nil {
		return nil, err
	}
	ov, _ := json.Marshal(map[string]any{"Replace": map[string]string{
		filepath.Join(ev.Repo(), "cmd", "verif-cgenbatch", "main.go"): mainPath,
	}})
	ovPath := filepath.Join(scratch, "ov", "overlay.json")
	if err := os.WriteFile(ovPath, ov, 0o644); err != nil {
		return nil, err
	}
	if err := runCmd(ev.Root, "go", "build", "-overlay", ovPath, "-o", t.GenBin, "github.com/google/wuffs/cmd/verif-cgenbatch"); err != nil {
		return nil, err
	}
	g, err := t.NewGen()
	if err != nil {
		return nil, err
	}
	defer g.Close()
	if res := g.Gen("base", "-", filepath.Join(t.BaseDir, "wuffs-base.c")); res != "ok" {
		return nil, fmt.Errorf("generating the base package: %s", res)
	}
	return t, nil
}

// Warm starts, in the background, what the first batch would otherwise wait
// for: the precompiled base header of each configuration and the real
// cmd/wuffs-c binary that CrossCheck uses.
func (t *Tools) Warm(cfgs ...Config) {
	for _, c := range cfgs {
		go t.pch(c)
	}
	t.wuffsCOnce.Do(func() {
		t.wuffsCDone = make(chan struct{})
		go func() {
			defer close(t.wuffsCDone)
			bin := filepath.Join(t.Scratch, "bin", "wuffs-c")
			if err := runCmd(ev.Root, "go", "build", "-o", bin, "github.com/google/wuffs/cmd/wuffs-c"); err != nil {
				t.wuffsCErr = err
				return
			}
			t.WuffsC = bin
		}()
	})
}

// KeepForCrossCheck copies a program and the C the batch tool generated for it aside.
func (t *Tools) KeepForCrossCheck(pkg, wuffsFile, cFile string) {
	d := filepath.Join(t.Scratch, "xcheck")
	os.MkdirAll(d, 0o755)
	t.mu.Lock()
	n := len(t.xcheck)
	t.xcheck = append(t.xcheck, [3]string{pkg, filepath.Join(d, fmt.Sprintf("%d.wuffs", n)), filepath.Join(d, fmt.Sprintf("%d.c", n))})
	x := t.xcheck[n]
	t.mu.Unlock()
	for _, cp := range [][2]string{{wuffsFile, x[1]}, {cFile, x[2]}} {
		b, _ := os.ReadFile(cp[0])
		os.WriteFile(cp[1], b, 0o644)
	}
}

// CrossCheck demands that the real `wuffs-c gen -package_name pkg file` prints
// exactly what the batch tool wrote, for every program kept aside. It returns
// the number of programs compared.
func (t *Tools) CrossCheck() (int, error) {
	t.Warm()
	<-t.wuffsCDone
	if t.wuffsCErr != nil {
		return 0, t.wuffsCErr
	}
	t.mu.Lock()
	list := append([][3]string{}, t.xcheck...)
	t.mu.Unlock()
	for _, x := range list {
		cmd := exec.Command(t.WuffsC, "gen", "-package_name", x[0], x[1])
		var out, errb bytes.Buffer
		cmd.Stdout, cmd.Stderr = &out, &errb
		if err := cmd.Run(); err != nil {
			return 0, fmt.Errorf("wuffs-c gen: %v: %s", err, errb.String())
		}
		want, err := os.ReadFile(x[2])
		if err != nil {
			return 0, err
		}
		if !bytes.Equal(out.Bytes(), want) {
			return 0, fmt.Errorf("cgenbatch output for %s differs from `wuffs-c gen` (%d vs %d bytes)", x[0], len(want), out.Len())
		}
	}
	return len(list), nil
}

// GenProc is one long-lived cgen process (use one per worker goroutine).
type GenProc struct {
	cmd *exec.Cmd
	in  io.WriteCloser
	out *bufio.Reader
}

func (t *Tools) NewGen() (*GenProc, error) {
	cmd := exec.Command(t.GenBin)
	cmd.Env = append(os.Environ(), "GOMAXPROCS=2")
	in, err := cmd.StdinPipe()
	if err != nil {
		return nil, err
	}
	outp, err := cmd.StdoutPipe()
	if err != nil {
		return nil, err
	}
	cmd.Stderr = os.Stderr
	if err := cmd.Start(); err != nil {
		return nil, err
	}
	return &GenProc{cmd: cmd, in: in, out: bufio.NewReader(outp)}, nil
}

// Gen runs cgen for one package; the answer is "ok", "err: ...", "panic: ..."
// or "died: ..." (the process went away: it is restarted by the caller).
func (g *GenProc) Gen(pkg, in, out string) string {
	if _, err := fmt.Fprintf(g.in, "%s %s %s\n", pkg, in, out); err != nil {
		return "died: " + err.Error()
	}
	line, err := g.out.ReadString('\n')
	if err != nil {
		return "died: " + err.Error()
	}
	return strings.TrimSpace(line)
}

func (g *GenProc) Close() {
	g.in.Close()
	g.cmd.Wait()
}

// Gen hands out per-worker cgen processes.
func (t *Tools) Gen(worker int) (*GenProc, error) {
	t.mu.Lock()
	defer t.mu.Unlock()
	for len(t.procs) <= worker {
		t.procs = append(t.procs, nil)
	}
	if t.procs[worker] == nil {
		g, err := t.NewGen()
		if err != nil {
			return nil, err
		}
		t.procs[worker] = g
	}
	return t.procs[worker], nil
}

func (t *Tools) dropGen(worker int) {
	t.mu.Lock()
	defer t.mu.Unlock()
	if worker < len(t.procs) && t.procs[worker] != nil {
		t.procs[worker].in.Close()
		t.procs[worker].cmd.Process.Kill()
		t.procs[worker].cmd.Wait()
		t.procs[worker] = nil
	}
}

// Close ends the cgen processes.
func (t *Tools) Close() {
	t.mu.Lock()
	defer t.mu.Unlock()
	for i, g := range t.procs {
		if g != nil {
			g.Close()
			t.procs[i] = nil
		}
	}
}

func (t *Tools) nextBatchID() int {
	t.mu.Lock()
	defer t.mu.Unlock()
	t.seq++
	return t.seq
}
