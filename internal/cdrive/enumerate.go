package cdrive

import (
	"verif/internal/interp"
)

// Options are the exploration limits (the same knobs as interp.ExploreOptions).
type Options struct {
	Depth     int
	MaxExec   int
	MaxStates int
	MaxTuples int
}

type execRef struct {
	node   int32
	method int16
	tuple  int32
}

type nodeRef struct {
	parent int32 // -1: the initial receiver
	via    execRef
}

// Job is the work the C driver has to redo for one program: the script section
// that replays every execution the interpreter explored, and the digest of the
// interpreter's trace record for each of them.
type Job struct {
	PI     *ProgInfo
	Body   []byte   // script records (without the section header)
	Want   []uint64 // per emitted call
	execs  []execRef
	nodes  []nodeRef
	tuples [][][]interp.ArgSpec
	// badAt[method][tuple index] describes the out-of-domain argument of the
	// tuples appended by BadTuples (absent for regular tuples).
	badAt []map[int]BadArg
	// BadArgExecs counts the executions made with an out-of-domain argument.
	BadArgExecs int64

	Executions   int64 // interpreter executions (including the ones not replayed)
	NotReplayed  int64 // executions with a safety violation in the interpreter (C01's business; C behaviour undefined)
	InterpBugs   []string
	Hung         int64
	RecvStates   int64
	Suspended    int64
	MaskedRI     int64 // executions that suspended inside a partially available multi-byte read (ri not compared, state not extended)
	Statuses     map[string]int64
	CappedExec   bool
	CappedStates bool
	CappedTuples bool
	Reduced      bool
	Steps        int64
}

// Enumerate explores p exactly like interp.Explore (breadth-first over receiver
// states: every public method with every argument tuple of Prog.ArgTuples from
// every state reachable by at most Depth prior public calls, state hashing with
// Object.Hash, the same caps in the same order) and records, per execution, the
// script that makes the C driver repeat it and the digest of its trace record.
// Receiver states are handed to the C side as save / load slots, so a history
// is replayed by loading the state its prefix produced.
func Enumerate(pi *ProgInfo, opt Options) *Job {
	j := &Job{PI: pi, Statuses: map[string]int64{}}
	if err := pi.Acquire(); err != nil {
		j.InterpBugs = append(j.InterpBugs, "recompilation failed: "+err.Error())
		return j
	}
	p := pi.P
	m := interp.NewMachine(p)
	m.CheckBounds = false
	m.WantTrace = false
	j.tuples = make([][][]interp.ArgSpec, len(pi.Methods))
	for i, mi := range pi.Methods {
		tp, red, capd := p.ArgTuples(mi.Fn, opt.MaxTuples)
		j.tuples[i] = tp
		j.Reduced = j.Reduced || red
		j.CappedTuples = j.CappedTuples || capd
	}
	// Out-of-domain argument tuples (the run-time argument check of public
	// methods): derived from the first regular tuple of each method.
	j.badAt = make([]map[int]BadArg, len(pi.Methods))
	nRegular := make([]int, len(pi.Methods))
	for i, mi := range pi.Methods {
		nRegular[i] = len(j.tuples[i])
		j.badAt[i] = map[int]BadArg{}
		if len(j.tuples[i]) == 0 {
			continue
		}
		bt, what := BadTuples(mi.Fn, j.tuples[i][0])
		for k := range bt {
			j.badAt[i][len(j.tuples[i])] = what[k]
			j.tuples[i] = append(j.tuples[i], bt[k])
		}
	}
	root := p.NewObject(pi.Recv)
	type node struct {
		obj   *interp.Object
		depth int
	}
	seen := map[uint64]bool{root.Hash(): true}
	queue := []node{{obj: root}}
	j.nodes = []nodeRef{{parent: -1}}
	j.RecvStates = 1
	var s Script
	s.New()
	s.Save(0)
	var d Digester
	for qi := 0; qi < len(queue); qi++ {
		n := queue[qi]
		for mx, mi := range pi.Methods {
			f := mi.Fn
			// The out-of-domain tuples come first (so that the execution cap does
			// not cut them) and are tried from the first 8 receiver states only.
			order := make([]int, 0, len(j.tuples[mx]))
			if qi < 8 {
				for tx := nRegular[mx]; tx < len(j.tuples[mx]); tx++ {
					order = append(order, tx)
				}
			}
			for tx := 0; tx < nRegular[mx]; tx++ {
				order = append(order, tx)
			}
			for _, tx := range order {
				tup := j.tuples[mx][tx]
				_, isBad := j.badAt[mx][tx]
				if j.Executions >= int64(opt.MaxExec) && !isBad {
					j.CappedExec = true
					goto done
				}
				obj := n.obj.Clone()
				args := MakeArgs(p, f, tup)
				if isBad {
					j.BadArgExecs++
				}
				// The script needs the arguments as they are before the call.
				mark := len(s.B)
				s.Load(qi)
				flagsAt := s.Call(mx, true, args)
				res := CallEnveloped(m, p, obj, f, interp.CallSpec{Method: f.Name, Args: tup}, args)
				j.Executions++
				if res.Bug != "" || res.Viol != nil || res.Hung {
					s.B = s.B[:mark]
					switch {
					case res.Bug != "":
						if len(j.InterpBugs) < 3 {
							j.InterpBugs = append(j.InterpBugs, res.Bug)
						}
					case res.Hung:
						j.Hung++
					default:
						j.NotReplayed++
					}
					continue
				}
				partial := res.Suspended && PartialRead(p, obj, args)
				if partial {
					s.MaskRI(flagsAt)
					j.MaskedRI++
				}
				d.Reset()
				pi.Record(&d, mi, &res, args, obj, partial)
				j.Want = append(j.Want, d.H)
				j.execs = append(j.execs, execRef{int32(qi), int16(mx), int32(tx)})
				if mi.Ret == 's' {
					j.Statuses[StatusText(res.Ret)]++
				}
				if res.Suspended {
					j.Suspended++
				}
				// A receiver parked inside a partially consumed multi-byte read is not
				// extended: an unrelated buffer in the next call is not a continuation
				// of the stream under either reading of "consumed" (C05 drives those).
				if n.depth < opt.Depth && !partial {
					h := obj.Hash()
					if !seen[h] {
						if len(seen) >= opt.MaxStates {
							j.CappedStates = true
							continue
						}
						seen[h] = true
						j.RecvStates++
						queue = append(queue, node{obj: obj, depth: n.depth + 1})
						j.nodes = append(j.nodes, nodeRef{parent: int32(qi), via: execRef{int32(qi), int16(mx), int32(tx)}})
						s.Save(len(queue) - 1)
					}
				}
			}
		}
	}
done:
	j.Steps = m.Steps
	j.Body = s.B
	return j
}

// History reconstructs the calls that lead to execution k and the call itself.
func (j *Job) History(k int) (hist []interp.CallSpec, call interp.CallSpec) {
	spec := func(e execRef) interp.CallSpec {
		return interp.CallSpec{Method: j.PI.Methods[e.method].Name, Args: j.tuples[e.method][e.tuple]}
	}
	e := j.execs[k]
	for n := e.node; j.nodes[n].parent >= 0; n = j.nodes[n].parent {
		hist = append([]interp.CallSpec{spec(j.nodes[n].via)}, hist...)
	}
	return hist, spec(e)
}

// ReplayInterp re-executes a history linearly in the interpreter and returns
// the trace text of every call (the same lines the C driver prints in trace mode).
func ReplayInterp(pi *ProgInfo, calls []interp.CallSpec) (blocks [][]string, masks []bool, problem string) {
	if err := pi.Acquire(); err != nil {
		return nil, nil, err.Error()
	}
	p := pi.P
	m := interp.NewMachine(p)
	m.CheckBounds = false
	obj := p.NewObject(pi.Recv)
	for _, c := range calls {
		var mi *MethodInfo
		for _, x := range pi.Methods {
			if x.Name == c.Method {
				mi = x
			}
		}
		if mi == nil {
			return blocks, masks, "no method " + c.Method
		}
		args := MakeArgs(p, mi.Fn, c.Args)
		res := CallEnveloped(m, p, obj, mi.Fn, c, args)
		if res.Viol != nil {
			return blocks, masks, "interpreter: " + res.Viol.String()
		}
		if res.Bug != "" || res.Hung {
			return blocks, masks, "interpreter problem: " + res.Bug
		}
		partial := res.Suspended && PartialRead(p, obj, args)
		var lines []string
		d := Digester{Lines: &lines}
		d.Reset()
		pi.Record(&d, mi, &res, args, obj, partial)
		blocks = append(blocks, lines)
		masks = append(masks, partial)
	}
	return blocks, masks, ""
}

// HistoryScript is the script body that replays a history with every call traced.
func HistoryScript(pi *ProgInfo, calls []interp.CallSpec, masks []bool) []byte {
	var s Script
	s.New()
	for ci, c := range calls {
		mx := 0
		for _, x := range pi.Methods {
			if x.Name == c.Method {
				mx = x.Index
			}
		}
		args := MakeArgs(pi.P, pi.Methods[mx].Fn, c.Args)
		at := s.Call(mx, true, args)
		if ci < len(masks) && masks[ci] {
			s.MaskRI(at)
		}
	}
	return s.B
}

// BadArgOf tells whether execution k was made with an out-of-domain argument.
func (j *Job) BadArgOf(k int) (BadArg, bool) {
	if k < 0 || k >= len(j.execs) {
		return BadArg{}, false
	}
	e := j.execs[k]
	b, ok := j.badAt[e.method][int(e.tuple)]
	return b, ok
}

// NumExecs is the number of executions replayed on the C side.
func (j *Job) NumExecs() int { return len(j.execs) }
