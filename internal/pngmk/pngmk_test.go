package pngmk

import "testing"

// Every generated file must decode with image/png to exactly the intended pixels.
func TestEnumerateValidates(t *testing.T) {
	for _, tier := range []string{"quick", "thorough"} {
		ims := Enumerate(tier)
		seen := map[byte]bool{}
		for _, im := range ims {
			if err := Validate(im); err != nil {
				t.Fatal(err)
			}
			for _, r := range im.Rows {
				for _, b := range r {
					seen[b] = true
				}
			}
		}
		t.Logf("%s: %d images validated against image/png, %d distinct byte values in pixel data", tier, len(ims), len(seen))
	}
}
