// Package pngmk is a minimal PNG writer for verification seeds: the caller chooses colour type, bit
// depth, size, interlacing and the FILTER TYPE OF EVERY ROW. Pixel content is a fixed non-trivial
// pattern (odd and even bytes, every byte value appears once a row pair holds 256 bytes, every row
// differs from the row above), the rows are really filtered (so a decoder must reproduce exactly
// Image.Rows), compressed with compress/zlib and wrapped in IHDR / PLTE / IDAT / IEND chunks with
// correct CRCs. Validate decodes a file with Go's image/png (an independent decoder) and compares
// every pixel with the intended one.
//
//	for _, im := range pngmk.Enumerate("quick") { use(im.Name, im.Data) }
//	data := pngmk.Encode(pngmk.Spec{ColorType: 2, Depth: 8, W: 2, H: 2, Filters: []byte{0, 4}})
package pngmk

import (
	"bytes"
	"compress/zlib"
	"encoding/binary"
	"fmt"
	"hash/crc32"
	"image"
	"image/color"
	"image/png"
)

// Colour types.
const (
	Gray      = 0
	RGB       = 2
	Palette   = 3
	GrayAlpha = 4
	RGBA      = 6
)

// Spec describes one file. Filters holds the filter type (0 None, 1 Sub, 2 Up, 3 Average, 4 Paeth) of
// every scanline in file order (for an interlaced image: the rows of pass 1, then pass 2, ...); if it
// is shorter than the number of scanlines its last element is repeated (nil = all 0).
type Spec struct {
	ColorType, Depth int
	W, H             int
	Filters          []byte
	Interlaced       bool
	Salt             int // varies the pixel pattern
}

// Image is an encoded file plus what it must decode to.
type Image struct {
	Name       string
	Data       []byte
	W, H       int
	ColorType  int
	Depth      int
	Filters    []byte // filter type of every scanline actually written, in file order
	Interlaced bool
	Rows       [][]byte // the H unfiltered scanlines of the whole image (packed as in PNG: big-endian samples, sub-byte pixels MSB first)
	Palette    []byte   // RGB triples (colour type 3)
}

func channels(ct int) int {
	switch ct {
	case Gray, Palette:
		return 1
	case RGB:
		return 3
	case GrayAlpha:
		return 2
	case RGBA:
		return 4
	}
	return 0
}

// BitsPerPixel of a colour type / depth combination (0 if PNG does not allow it).
func BitsPerPixel(ct, depth int) int {
	ok := map[int][]int{Gray: {1, 2, 4, 8, 16}, RGB: {8, 16}, Palette: {1, 2, 4, 8}, GrayAlpha: {8, 16}, RGBA: {8, 16}}
	for _, d := range ok[ct] {
		if d == depth {
			return channels(ct) * depth
		}
	}
	return 0
}

func rowBytes(w, bpp int) int { return (w*bpp + 7) / 8 }

// pattern: byte k of row y. Odd multiplier: 256 consecutive k give all 256 values; rows are shifted
// by an odd amount, so the byte above always differs.
func pattern(k, y, salt int) byte {
	return byte(k*167 + y*91 + (k>>4)*3 + salt*29 + 13)
}

func chunk(b *bytes.Buffer, typ string, data []byte) {
	binary.Write(b, binary.BigEndian, uint32(len(data)))
	c := crc32.NewIEEE()
	c.Write([]byte(typ))
	c.Write(data)
	b.WriteString(typ)
	b.Write(data)
	binary.Write(b, binary.BigEndian, c.Sum32())
}

func paeth(a, b, c byte) byte {
	p := int(a) + int(b) - int(c)
	pa, pb, pc := abs(p-int(a)), abs(p-int(b)), abs(p-int(c))
	if pa <= pb && pa <= pc {
		return a
	}
	if pb <= pc {
		return b
	}
	return c
}

func abs(x int) int {
	if x < 0 {
		return -x
	}
	return x
}

// filterRow applies filter type f to cur (prev = the unfiltered row above, or nil); bpp in bytes (>= 1).
func filterRow(f byte, cur, prev []byte, bpp int) []byte {
	out := make([]byte, len(cur))
	for i := range cur {
		var a, b, c byte
		if i >= bpp {
			a = cur[i-bpp]
		}
		if prev != nil {
			b = prev[i]
			if i >= bpp {
				c = prev[i-bpp]
			}
		}
		switch f {
		case 0:
			out[i] = cur[i]
		case 1:
			out[i] = cur[i] - a
		case 2:
			out[i] = cur[i] - b
		case 3:
			out[i] = cur[i] - byte((int(a)+int(b))/2)
		case 4:
			out[i] = cur[i] - paeth(a, b, c)
		default:
			panic("pngmk: bad filter type")
		}
	}
	return out
}

var adam7 = [7][4]int{{0, 0, 8, 8}, {4, 0, 8, 8}, {0, 4, 4, 8}, {2, 0, 4, 4}, {0, 2, 2, 4}, {1, 0, 2, 2}, {0, 1, 1, 2}}

func getPixel(row []byte, x, bpp int) []byte {
	if bpp >= 8 {
		n := bpp / 8
		return row[x*n : x*n+n]
	}
	bit := x * bpp
	v := (row[bit/8] >> (8 - bpp - bit%8)) & (1<<bpp - 1)
	return []byte{v}
}

func putPixel(row []byte, x, bpp int, p []byte) {
	if bpp >= 8 {
		copy(row[x*(bpp/8):], p)
		return
	}
	bit := x * bpp
	row[bit/8] |= p[0] << (8 - bpp - bit%8)
}

// Make encodes s and returns the file together with its intended content.
func Make(s Spec) Image {
	bpp := BitsPerPixel(s.ColorType, s.Depth)
	if bpp == 0 || s.W <= 0 || s.H <= 0 {
		panic(fmt.Sprintf("pngmk: bad spec %+v", s))
	}
	im := Image{W: s.W, H: s.H, ColorType: s.ColorType, Depth: s.Depth, Interlaced: s.Interlaced}
	rb := rowBytes(s.W, bpp)
	for y := 0; y < s.H; y++ {
		row := make([]byte, rb)
		for k := range row {
			row[k] = pattern(k, y, s.Salt)
		}
		if pad := rb*8 - s.W*bpp; pad > 0 { // unused low bits of the last byte are zero
			row[rb-1] &^= byte(1<<pad - 1)
		}
		im.Rows = append(im.Rows, row)
	}
	fbpp := max(1, bpp/8)
	var raw bytes.Buffer
	nline := 0
	emit := func(rows [][]byte) {
		var prev []byte
		for _, r := range rows {
			f := byte(0)
			if len(s.Filters) > 0 {
				f = s.Filters[min(nline, len(s.Filters)-1)]
			}
			nline++
			im.Filters = append(im.Filters, f)
			raw.WriteByte(f)
			raw.Write(filterRow(f, r, prev, fbpp))
			prev = r
		}
	}
	if !s.Interlaced {
		emit(im.Rows)
	} else {
		for _, p := range adam7 {
			if s.W <= p[0] || s.H <= p[1] {
				continue
			}
			pw := (s.W - p[0] + p[2] - 1) / p[2]
			var rows [][]byte
			for y := p[1]; y < s.H; y += p[3] {
				r := make([]byte, rowBytes(pw, bpp))
				for i := 0; i < pw; i++ {
					putPixel(r, i, bpp, getPixel(im.Rows[y], p[0]+i*p[2], bpp))
				}
				rows = append(rows, r)
			}
			emit(rows)
		}
	}
	var b bytes.Buffer
	b.Write([]byte{0x89, 'P', 'N', 'G', 0x0D, 0x0A, 0x1A, 0x0A})
	ihdr := make([]byte, 13)
	binary.BigEndian.PutUint32(ihdr[0:], uint32(s.W))
	binary.BigEndian.PutUint32(ihdr[4:], uint32(s.H))
	ihdr[8], ihdr[9] = byte(s.Depth), byte(s.ColorType)
	if s.Interlaced {
		ihdr[12] = 1
	}
	chunk(&b, "IHDR", ihdr)
	if s.ColorType == Palette {
		im.Palette = make([]byte, 3*(1<<s.Depth))
		for i := range im.Palette {
			im.Palette[i] = byte(i*53 + 7 + (i/3)*11)
		}
		chunk(&b, "PLTE", im.Palette)
	}
	var z bytes.Buffer
	zw := zlib.NewWriter(&z)
	zw.Write(raw.Bytes())
	zw.Close()
	chunk(&b, "IDAT", z.Bytes())
	chunk(&b, "IEND", nil)
	im.Data = b.Bytes()
	fl := ""
	for i, f := range im.Filters {
		if i < 6 {
			fl += string(rune('0' + f))
		}
	}
	il := ""
	if s.Interlaced {
		il = "-adam7"
	}
	im.Name = fmt.Sprintf("png-c%dd%d-%dx%d-f%s%s", s.ColorType, s.Depth, s.W, s.H, fl, il)
	return im
}

// Encode returns just the file.
func Encode(s Spec) []byte { return Make(s).Data }

// Validate decodes im.Data with image/png and compares every pixel with im.Rows.
func Validate(im Image) error {
	g, err := png.Decode(bytes.NewReader(im.Data))
	if err != nil {
		return fmt.Errorf("%s: image/png: %v", im.Name, err)
	}
	if g.Bounds() != image.Rect(0, 0, im.W, im.H) {
		return fmt.Errorf("%s: bounds %v", im.Name, g.Bounds())
	}
	bpp := BitsPerPixel(im.ColorType, im.Depth)
	sample := func(p []byte, ch int) uint16 { // 16-bit value of channel ch of pixel bytes p
		switch {
		case im.Depth == 16:
			return uint16(p[2*ch])<<8 | uint16(p[2*ch+1])
		case im.Depth == 8:
			return uint16(p[ch]) * 0x101
		default:
			return uint16(int(p[0])*255/(1<<im.Depth-1)) * 0x101
		}
	}
	for y := 0; y < im.H; y++ {
		for x := 0; x < im.W; x++ {
			p := getPixel(im.Rows[y], x, bpp)
			if im.ColorType == Palette {
				pi, ok := g.(*image.Paletted)
				if !ok {
					return fmt.Errorf("%s: image/png returned %T", im.Name, g)
				}
				if pi.ColorIndexAt(x, y) != p[0] {
					return fmt.Errorf("%s: index at %d,%d: %d want %d", im.Name, x, y, pi.ColorIndexAt(x, y), p[0])
				}
				continue
			}
			var got color.NRGBA64
			switch c := g.At(x, y).(type) { // exact, type by type (no premultiplication round trip)
			case color.Gray:
				v := uint16(c.Y) * 0x101
				got = color.NRGBA64{v, v, v, 0xFFFF}
			case color.Gray16:
				got = color.NRGBA64{c.Y, c.Y, c.Y, 0xFFFF}
			case color.RGBA: // image/png uses it for opaque 8-bit RGB only
				got = color.NRGBA64{uint16(c.R) * 0x101, uint16(c.G) * 0x101, uint16(c.B) * 0x101, uint16(c.A) * 0x101}
			case color.RGBA64: // opaque 16-bit RGB only
				got = color.NRGBA64{c.R, c.G, c.B, c.A}
			case color.NRGBA:
				got = color.NRGBA64{uint16(c.R) * 0x101, uint16(c.G) * 0x101, uint16(c.B) * 0x101, uint16(c.A) * 0x101}
			case color.NRGBA64:
				got = c
			default:
				return fmt.Errorf("%s: image/png returned colour type %T", im.Name, c)
			}
			var want color.NRGBA64
			switch im.ColorType {
			case Gray:
				v := sample(p, 0)
				want = color.NRGBA64{v, v, v, 0xFFFF}
			case GrayAlpha:
				v := sample(p, 0)
				want = color.NRGBA64{v, v, v, sample(p, 1)}
			case RGB:
				want = color.NRGBA64{sample(p, 0), sample(p, 1), sample(p, 2), 0xFFFF}
			case RGBA:
				want = color.NRGBA64{sample(p, 0), sample(p, 1), sample(p, 2), sample(p, 3)}
			}
			if got != want {
				return fmt.Errorf("%s: pixel %d,%d: image/png %v, intended %v", im.Name, x, y, got, want)
			}
		}
	}
	return nil
}

// ColorDepths lists every colour type / bit depth combination of PNG.
var ColorDepths = [][2]int{{Gray, 1}, {Gray, 2}, {Gray, 4}, {Gray, 8}, {Gray, 16}, {RGB, 8}, {RGB, 16},
	{Palette, 1}, {Palette, 2}, {Palette, 4}, {Palette, 8}, {GrayAlpha, 8}, {GrayAlpha, 16}, {RGBA, 8}, {RGBA, 16}}

// Enumerate: colour type x depth x widths x heights x filter layouts {the same type 0..4 on every row;
// for heights > 1: Up/Average/Paeth on the last row only, Sub/Average/Paeth on the first row only},
// plus two Adam7 files per colour type. tier "quick": widths 1..10, heights 1..2; anything else
// ("thorough"): widths 1..18, 31, 32, 33, heights 1..3.
func Enumerate(tier string) []Image {
	widths := []int{1, 2, 3, 4, 5, 6, 7, 8, 9, 10}
	heights := []int{1, 2}
	if tier != "quick" {
		widths = []int{1, 2, 3, 4, 5, 6, 7, 8, 9, 10, 11, 12, 13, 14, 15, 16, 17, 18, 31, 32, 33}
		heights = []int{1, 2, 3}
	}
	var out []Image
	for _, cd := range ColorDepths {
		for _, w := range widths {
			for _, h := range heights {
				for f := byte(0); f <= 4; f++ {
					out = append(out, Make(Spec{ColorType: cd[0], Depth: cd[1], W: w, H: h, Filters: []byte{f}, Salt: w + h}))
				}
				if h > 1 {
					for _, f := range []byte{2, 3, 4} {
						fl := make([]byte, h)
						fl[h-1] = f
						out = append(out, Make(Spec{ColorType: cd[0], Depth: cd[1], W: w, H: h, Filters: fl, Salt: w}))
					}
					for _, f := range []byte{1, 3, 4} {
						out = append(out, Make(Spec{ColorType: cd[0], Depth: cd[1], W: w, H: h, Filters: []byte{f, 0}, Salt: h}))
					}
				}
			}
		}
		out = append(out, Make(Spec{ColorType: cd[0], Depth: cd[1], W: 9, H: 9, Filters: []byte{4}, Interlaced: true}))
		out = append(out, Make(Spec{ColorType: cd[0], Depth: cd[1], W: 3, H: 2, Filters: []byte{1, 3}, Interlaced: true, Salt: 5}))
	}
	return out
}
