package cserve

import (
	"encoding/binary"
	"encoding/hex"
	"encoding/json"
	"fmt"
)

// Interface kinds (Package.Kind).
const (
	KindIOTransformer   = 1
	KindHasherU32       = 2
	KindHasherU64       = 3
	KindHasherBitvec256 = 4
	KindImageDecoder    = 5
	KindTokenDecoder    = 6
)

func KindName(k int) string {
	switch k {
	case KindIOTransformer:
		return "io_transformer"
	case KindHasherU32:
		return "hasher_u32"
	case KindHasherU64:
		return "hasher_u64"
	case KindHasherBitvec256:
		return "hasher_bitvec256"
	case KindImageDecoder:
		return "image_decoder"
	case KindTokenDecoder:
		return "token_decoder"
	}
	return fmt.Sprintf("kind%d", k)
}

// Ops.
const (
	OpHello     = 1
	OpNew       = 2
	OpInit      = 3
	OpClone     = 4
	OpFree      = 5
	OpHash      = 6
	OpCall      = 7
	OpGet       = 8
	OpPureCheck = 9
	OpSetSrc    = 10
	OpReset     = 11
	OpPing      = 12
	OpSelfTest  = 13
)

// Methods (Cmd.Method of an OpCall).
const (
	MTransformIO            = 1
	MWorkbufLen             = 2
	MSetQuirk               = 3
	MGetQuirk               = 4
	MDstHistoryRetainLength = 5
	MUpdate                 = 10 // hasher update!(x)
	MUpdateVal              = 11 // hasher update_u32!/update_u64!/update_bitvec256!(x)
	MChecksum               = 12
	MDecodeImageConfig      = 20
	MDecodeFrameConfig      = 21
	MDecodeFrame            = 22
	MRestartFrame           = 23
	MTellMeMore             = 24
	MNumDecodedFrames       = 25
	MNumDecodedFrameConfigs = 26
	MNumAnimationLoops      = 27
	MFrameDirtyRect         = 28
	MSetReportMetadata      = 29
	MDecodeTokens           = 40
)

// Call flags (Cmd.Flags).
const (
	FClosed        = 1 << 0  // the source presented to this call has meta.closed = true
	FNullDst       = 1 << 1  // pass NULL for the destination (io_buffer / image_config / frame_config / pixel_buffer / token_buffer)
	FNullSrc       = 1 << 2  // pass NULL for the source io_buffer (hashers: an empty slice with a NULL pointer)
	FNullWork      = 1 << 3  // pass the work buffer slice {NULL, 0}
	FWantBytes     = 1 << 4  // return the bytes (tokens) written by this call in Result.Data
	FKeepConsumed  = 1 << 5  // do not compact the source: already consumed bytes stay below ri
	FDstRiAtWi     = 1 << 6  // destination meta.ri = wi instead of 0
	FDirect        = 1 << 7  // call wuffs_PKG__STRUCT__METHOD directly instead of through the interface dispatcher
	FNoAccum       = 1 << 8  // do not append the written bytes/tokens to the slot's accumulated output
	FNullSelf      = 1 << 9  // pass NULL as the receiver
	FCheckScribble = 1 << 10 // scan the whole free space of a large (>= 2 KiB, pooled) destination for IDstScribbled; small ones are always scanned
)

// Contract flags (Result.Contract). Everything below InfoMask is a violation of the I/O contract.
const (
	CSrcOrder           = 1 << 0 // !(ri <= wi <= len) on the source after the call
	CDstOrder           = 1 << 1
	CSrcRiDecreased     = 1 << 2
	CDstWiDecreased     = 1 << 3
	CSrcBytesChanged    = 1 << 4
	CDstOldBytesChanged = 1 << 5 // destination bytes below the pre-call wi changed
	CSrcMetaChanged     = 1 << 6 // source wi/pos/closed/data.ptr/data.len modified
	CDstMetaChanged     = 1 << 7 // destination ri/pos/closed/data.ptr/data.len modified
	CTokOrder           = 1 << 8
	CTokOldChanged      = 1 << 9
	CPureWroteObject    = 1 << 10
	CAlloc              = 1 << 11 // malloc/calloc/realloc/free called during the call (builds with the allocator wrap)
	CPureWroteBuffers   = 1 << 12
	InfoMask            = 0xFFFF
	IDstScribbled       = 1 << 16 // informational only: destination bytes in [wi, len) differ from the prefill byte
)

// ContractNames renders the violation bits of a contract word.
func ContractNames(c uint32) []string {
	names := []string{"src-index-order", "dst-index-order", "src-ri-decreased", "dst-wi-decreased", "src-bytes-changed",
		"dst-old-bytes-changed", "src-meta-changed", "dst-meta-changed", "tok-index-order", "tok-old-changed",
		"pure-method-wrote-object", "allocator-called", "pure-method-wrote-buffers"}
	var out []string
	for i, n := range names {
		if c&(1<<uint(i)) != 0 {
			out = append(out, n)
		}
	}
	return out
}

// Work buffer policies (Cmd.WorkPolicy).
const (
	WorkKeep      = 0 // leave the slot's work buffer as it is (initially: none, i.e. an empty slice)
	WorkMin       = 1 // (re)size to workbuf_len().min_incl, queried just before the call
	WorkMax       = 2 // (re)size to workbuf_len().max_incl
	WorkGiven     = 3 // (re)size to Cmd.WorkLen
	WorkMaxCapped = 4 // (re)size to workbuf_len().max_incl if that is <= Cmd.WorkLen, else to min_incl
)

// GET selectors (Cmd.What).
const (
	GetDst         = 1
	GetPixels      = 2
	GetTokens      = 3
	GetImageConfig = 4
	GetFrameConfig = 5
	GetObject      = 6
	GetWork        = 7
	GetSrc         = 8
	GetInfo        = 9
)

// RESET bits (Cmd.A0 of an OpReset).
const (
	ResetDst    = 1
	ResetTokens = 2
	ResetPixels = 4
	ResetWork   = 8
	ResetSrc    = 16
)

// Initialize options.
const (
	InitDefault                           = 0
	InitAlreadyZeroed                     = 1
	InitLeaveInternalBuffersUninitialized = 2
)

// Prefill values for OpNew / OpInit.
const (
	PrefillCopySlot = 0x100 // copy the object bytes of slot Cmd.Slot2 ("garbage from a previous decode")
	PrefillLeave    = 0x1FF // OpInit only: leave the object bytes as they are
)

const (
	MagicInitialized = 0x3CCB6C71
	MagicDisabled    = 0x075AE3D2
)

// HexBytes marshals as a hex string so that witnesses are readable.
type HexBytes []byte

func (h HexBytes) MarshalJSON() ([]byte, error) { return json.Marshal(hex.EncodeToString(h)) }
func (h *HexBytes) UnmarshalJSON(b []byte) error {
	var s string
	if err := json.Unmarshal(b, &s); err != nil {
		return err
	}
	d, err := hex.DecodeString(s)
	*h = d
	return err
}

// Cmd is one request. It is plain data (JSON-serialisable) so that a list of
// commands is a replayable witness. Use the constructor helpers below.
type Cmd struct {
	Op   int    `json:"op"`
	Slot uint32 `json:"slot"`
	// OpNew: package name ("deflate", or "crc32.ieee_hasher" when a package has several structs); OpClone: Slot2 = destination.
	Pkg   string `json:"pkg,omitempty"`
	Slot2 uint32 `json:"slot2,omitempty"`
	// OpNew / OpInit
	NoInit      bool   `json:"no_init,omitempty"`      // RAW: allocate + prefill, do not call initialize
	WrongSizeof bool   `json:"wrong_sizeof,omitempty"` // pass SizeofVal instead of sizeof__T()
	SizeofVal   uint64 `json:"sizeof_val,omitempty"`
	WrongVer    bool   `json:"wrong_version,omitempty"` // pass VersionVal instead of WUFFS_VERSION
	VersionVal  uint64 `json:"version_val,omitempty"`
	InitOpts    uint32 `json:"init_opts,omitempty"`
	Prefill     uint16 `json:"prefill,omitempty"` // 0..255 byte value, PrefillCopySlot, PrefillLeave
	// OpCall
	Method     int      `json:"method,omitempty"`
	Flags      uint16   `json:"flags,omitempty"`
	DstCap     uint32   `json:"dst_cap,omitempty"`  // free space of the destination presented to this call (bytes; tokens for decode_tokens)
	DstKeep    uint32   `json:"dst_keep,omitempty"` // how many bytes of already produced output sit below wi
	DstFill    uint8    `json:"dst_fill,omitempty"` // prefill byte of the free space (and of a freshly allocated pixel buffer)
	WorkPolicy uint8    `json:"work_policy,omitempty"`
	WorkFill   uint8    `json:"work_fill,omitempty"`
	Blend      uint8    `json:"blend,omitempty"`
	WorkLen    uint64   `json:"work_len,omitempty"`
	A0         uint64   `json:"a0,omitempty"`   // quirk key | restart_frame index | fourcc | decode_frame pixel format override | reset bits | selftest kind
	A1         uint64   `json:"a1,omitempty"`   // quirk value | restart_frame io_position | report bool | decode_frame max pixel buffer bytes
	Data       HexBytes `json:"data,omitempty"` // bytes appended to the source | hasher input | OpSetSrc bytes
	// OpGet
	What uint8  `json:"what,omitempty"`
	Off  uint64 `json:"off,omitempty"`
	Len  uint64 `json:"len,omitempty"`
}

// Result is the answer to one Cmd. Which fields are meaningful depends on the op.
type Result struct {
	Err string `json:"err,omitempty"` // protocol-level refusal (bad slot, method not in interface, pixel buffer too large...). Not a crash.
	// Status: the wuffs status string; "" together with OK==true means NULL (ok). HasStatus is false for methods that return no status.
	Status    string `json:"status"`
	OK        bool   `json:"ok"`
	HasStatus bool   `json:"has_status"`
	Contract  uint32 `json:"contract"`
	Allocs    uint32 `json:"allocs"`
	Magic     uint32 `json:"magic"` // first 4 bytes of the object after the call (private_impl.magic)
	// Source and destination indexes before (0) and after (1) the call.
	SrcRi0, SrcWi0 uint32
	SrcPos0        uint64
	SrcClosed0     bool
	SrcRi1, SrcWi1 uint32
	SrcPos1        uint64
	SrcClosed1     bool
	DstRi0, DstWi0 uint32
	DstRi1, DstWi1 uint32
	NWritten       uint32    // bytes (tokens) written by this call
	V              [4]uint64 // getter values: workbuf_len {min,max}; checksum; quirk; rect {x0,y0,x1,y1}; tell_me_more {flavor|w<<32,x,y,z}; optional {has,value}
	Data           []byte    // FWantBytes: bytes written (tokens: 8 bytes LE each); OpGet: the bytes
	Total          uint64    // OpGet: total length of the selected thing
	Hash           [8]uint64 // OpHash: [0],[1] object; [2] unread source+pos+closed; [3] accumulated dst; [4] work; [5] pixels; [6] tokens; [7] image/frame config
	PureChanged    uint32    // OpPureCheck: bit i = i-th pure method changed the object
	PureMethods    uint32
	PureVals       []uint64
}

// Suspension / Error / Note classify a status string.
func (r *Result) IsSuspension() bool { return len(r.Status) > 0 && r.Status[0] == '$' }
func (r *Result) IsError() bool      { return len(r.Status) > 0 && r.Status[0] == '#' }
func (r *Result) IsNote() bool       { return len(r.Status) > 0 && r.Status[0] == '@' }

// ---- constructors

type NewOpts struct {
	NoInit      bool
	WrongSizeof bool
	SizeofVal   uint64
	WrongVer    bool
	VersionVal  uint64
	InitOpts    uint32
	Prefill     uint16
	CopySlot    uint32
}

func New(slot uint32, pkg string, o NewOpts) Cmd {
	return Cmd{Op: OpNew, Slot: slot, Pkg: pkg, NoInit: o.NoInit, WrongSizeof: o.WrongSizeof, SizeofVal: o.SizeofVal,
		WrongVer: o.WrongVer, VersionVal: o.VersionVal, InitOpts: o.InitOpts, Prefill: o.Prefill, Slot2: o.CopySlot}
}

// Init re-runs initialize on an existing slot (Prefill defaults to PrefillLeave when 0 is not wanted: pass it explicitly).
func Init(slot uint32, o NewOpts) Cmd {
	c := New(slot, "", o)
	c.Op = OpInit
	return c
}
func Clone(src, dst uint32) Cmd { return Cmd{Op: OpClone, Slot: src, Slot2: dst} }
func Free(slot uint32) Cmd      { return Cmd{Op: OpFree, Slot: slot} }
func FreeAll() Cmd              { return Cmd{Op: OpFree, Slot: 0xFFFFFFFF} }
func Hash(slot uint32) Cmd      { return Cmd{Op: OpHash, Slot: slot} }
func Ping() Cmd                 { return Cmd{Op: OpPing} }
func Get(slot uint32, what uint8) Cmd {
	return Cmd{Op: OpGet, Slot: slot, What: what, Len: 1 << 62}
}
func GetRange(slot uint32, what uint8, off, n uint64) Cmd {
	return Cmd{Op: OpGet, Slot: slot, What: what, Off: off, Len: n}
}
func PureCheck(slot uint32, quirkKey uint32) Cmd {
	return Cmd{Op: OpPureCheck, Slot: slot, A0: uint64(quirkKey)}
}
func SetSrc(slot uint32, pos uint64, closed bool, data []byte) Cmd {
	c := Cmd{Op: OpSetSrc, Slot: slot, A0: pos, Data: data}
	if closed {
		c.Flags = FClosed
	}
	return c
}
func Reset(slot uint32, bits uint32) Cmd { return Cmd{Op: OpReset, Slot: slot, A0: uint64(bits)} }
func SelfTest(kind uint32) Cmd           { return Cmd{Op: OpSelfTest, A0: uint64(kind)} }

// Call builds a generic call; set further fields on the returned value.
func Call(slot uint32, method int) Cmd { return Cmd{Op: OpCall, Slot: slot, Method: method} }

// Transform: io_transformer.transform_io with `data` appended to the source.
func Transform(slot uint32, data []byte, closed bool, dstCap uint32, workPolicy uint8) Cmd {
	c := Cmd{Op: OpCall, Slot: slot, Method: MTransformIO, Data: data, DstCap: dstCap, WorkPolicy: workPolicy}
	if closed {
		c.Flags |= FClosed
	}
	return c
}

// Feed: any source-consuming method (decode_image_config, decode_frame_config, decode_frame, decode_tokens, transform_io).
func Feed(slot uint32, method int, data []byte, closed bool) Cmd {
	c := Cmd{Op: OpCall, Slot: slot, Method: method, Data: data}
	if closed {
		c.Flags |= FClosed
	}
	return c
}
func Update(slot uint32, data []byte) Cmd {
	return Cmd{Op: OpCall, Slot: slot, Method: MUpdate, Data: data}
}
func UpdateVal(slot uint32, data []byte) Cmd {
	return Cmd{Op: OpCall, Slot: slot, Method: MUpdateVal, Data: data}
}
func Checksum(slot uint32) Cmd { return Cmd{Op: OpCall, Slot: slot, Method: MChecksum} }
func SetQuirk(slot uint32, key uint32, val uint64) Cmd {
	return Cmd{Op: OpCall, Slot: slot, Method: MSetQuirk, A0: uint64(key), A1: val}
}
func GetQuirk(slot uint32, key uint32) Cmd {
	return Cmd{Op: OpCall, Slot: slot, Method: MGetQuirk, A0: uint64(key)}
}

// ---- encoding

type enc struct{ b []byte }

func (e *enc) u8(v uint8)   { e.b = append(e.b, v) }
func (e *enc) u16(v uint16) { e.b = binary.LittleEndian.AppendUint16(e.b, v) }
func (e *enc) u32(v uint32) { e.b = binary.LittleEndian.AppendUint32(e.b, v) }
func (e *enc) u64(v uint64) { e.b = binary.LittleEndian.AppendUint64(e.b, v) }

func b2u8(b bool) uint8 {
	if b {
		return 1
	}
	return 0
}

// encode appends the wire form of c (length prefix included).
func (s *Server) encode(e *enc, c *Cmd) error {
	start := len(e.b)
	e.u32(0)
	e.u8(uint8(c.Op))
	initArgs := func() {
		e.u8(b2u8(!c.NoInit))
		e.u8(b2u8(c.WrongSizeof))
		e.u8(b2u8(c.WrongVer))
		e.u8(b2u8(c.Flags&FNullSelf != 0))
		e.u64(c.SizeofVal)
		e.u64(c.VersionVal)
		e.u32(c.InitOpts)
		e.u16(c.Prefill)
		e.u32(c.Slot2)
	}
	switch c.Op {
	case OpHello, OpPing:
	case OpNew:
		idx, ok := s.pkgIndex[c.Pkg]
		if !ok {
			return fmt.Errorf("cserve: unknown package %q (not in this build)", c.Pkg)
		}
		e.u32(c.Slot)
		e.u16(uint16(idx))
		initArgs()
	case OpInit:
		e.u32(c.Slot)
		initArgs()
	case OpClone:
		e.u32(c.Slot)
		e.u32(c.Slot2)
	case OpFree, OpHash:
		e.u32(c.Slot)
	case OpCall:
		e.u32(c.Slot)
		e.u8(uint8(c.Method))
		e.u8(0)
		e.u16(c.Flags)
		e.u32(c.DstCap)
		e.u32(c.DstKeep)
		e.u8(c.DstFill)
		e.u8(c.WorkPolicy)
		e.u8(c.WorkFill)
		e.u8(c.Blend)
		e.u64(c.WorkLen)
		e.u64(c.A0)
		e.u64(c.A1)
		e.u32(uint32(len(c.Data)))
		e.b = append(e.b, c.Data...)
	case OpGet:
		e.u32(c.Slot)
		e.u8(c.What)
		e.u64(c.Off)
		e.u64(c.Len)
	case OpPureCheck:
		e.u32(c.Slot)
		e.u32(uint32(c.A0))
	case OpSetSrc:
		e.u32(c.Slot)
		e.u64(c.A0)
		e.u8(b2u8(c.Flags&FClosed != 0))
		e.u32(uint32(len(c.Data)))
		e.b = append(e.b, c.Data...)
	case OpReset:
		e.u32(c.Slot)
		e.u32(uint32(c.A0))
	case OpSelfTest:
		e.u32(uint32(c.A0))
	default:
		return fmt.Errorf("cserve: bad op %d", c.Op)
	}
	binary.LittleEndian.PutUint32(e.b[start:], uint32(len(e.b)-start-4))
	return nil
}

type dec struct {
	b   []byte
	o   int
	bad bool
}

func (d *dec) n(k int) []byte {
	if d.o+k > len(d.b) {
		d.bad = true
		return make([]byte, k)
	}
	r := d.b[d.o : d.o+k]
	d.o += k
	return r
}
func (d *dec) u8() uint8   { return d.n(1)[0] }
func (d *dec) u16() uint16 { return binary.LittleEndian.Uint16(d.n(2)) }
func (d *dec) u32() uint32 { return binary.LittleEndian.Uint32(d.n(4)) }
func (d *dec) u64() uint64 { return binary.LittleEndian.Uint64(d.n(8)) }
func (d *dec) str() (s string, null, na bool) {
	n := d.u16()
	if n == 0xFFFF {
		return "", true, false
	}
	if n == 0xFFFE {
		return "", false, true
	}
	return string(d.n(int(n))), false, false
}

func decodeResult(c *Cmd, body []byte, r *Result) error {
	d := &dec{b: body}
	rc := d.u8()
	if rc != 0 {
		msg, _, _ := d.str()
		r.Err = msg
		if r.Err == "" {
			r.Err = "unspecified server refusal"
		}
		return nil
	}
	status := func() {
		s, null, na := d.str()
		r.Status, r.OK, r.HasStatus = s, null, !na
	}
	switch c.Op {
	case OpNew, OpInit:
		status()
		r.Allocs = d.u32()
		r.Magic = d.u32()
		if r.Allocs != 0 {
			r.Contract |= CAlloc
		}
	case OpClone, OpFree, OpSetSrc, OpReset:
	case OpPing:
		r.V[0] = d.u64()
	case OpSelfTest:
		r.Allocs = d.u32()
	case OpHash:
		for i := range r.Hash {
			r.Hash[i] = d.u64()
		}
	case OpCall:
		status()
		r.Contract = d.u32()
		r.Allocs = d.u32()
		r.Magic = d.u32()
		r.SrcRi0, r.SrcWi0, r.SrcPos0, r.SrcClosed0 = d.u32(), d.u32(), d.u64(), d.u8() != 0
		r.SrcRi1, r.SrcWi1, r.SrcPos1, r.SrcClosed1 = d.u32(), d.u32(), d.u64(), d.u8() != 0
		r.DstRi0, r.DstWi0, r.DstRi1, r.DstWi1 = d.u32(), d.u32(), d.u32(), d.u32()
		r.NWritten = d.u32()
		for i := range r.V {
			r.V[i] = d.u64()
		}
		n := d.u32()
		if n > 0 {
			r.Data = append([]byte(nil), d.n(int(n))...)
		}
	case OpGet:
		r.Total = d.u64()
		n := d.u32()
		r.Data = append([]byte(nil), d.n(int(n))...)
	case OpPureCheck:
		r.Contract = d.u32()
		r.PureChanged = d.u32()
		r.PureMethods = d.u32()
		nv := d.u32()
		for i := uint32(0); i < nv; i++ {
			r.PureVals = append(r.PureVals, d.u64())
		}
	}
	if d.bad {
		return fmt.Errorf("cserve: short response for op %d", c.Op)
	}
	return nil
}
