// Package cserve is the Go client of the C-level engine (E4): it regenerates C from
// the working tree's std sources, compiles csrc/wserver.c against it in several build
// variants, starts server processes and talks to them over a pipelined binary protocol.
// See README.md.
package cserve

import (
	"fmt"
	"os"
	"os/exec"
	"path/filepath"
	"regexp"
	"runtime"
	"sort"
	"strconv"
	"strings"
	"sync"
	"time"

	"verif/internal/ev"
	"verif/internal/wgen"
)

// Variants.
const (
	Asan       = "asan"        // -O1 -g -fsanitize=address,undefined -fno-sanitize-recover=all
	Plain      = "plain"       // -O2, malloc/calloc/realloc/free wrapped with counters
	NoArch     = "noarch"      // -O2 -DWUFFS_CONFIG__AVOID_CPU_ARCH (+ allocator counters)
	AsanNoArch = "asan-noarch" // asan + -DWUFFS_CONFIG__AVOID_CPU_ARCH
)

// Built is the result of compiling the server.
type Built struct {
	Dir            string             // scratch/cserve
	Root           string             // scratch wuffs root holding the generated C
	ReleaseC       string             // the freshly generated monolithic C file
	Bin            map[string]string  // variant -> server binary
	CompileSeconds map[string]float64 // variant -> wall-clock seconds of its compiler run
	GenSeconds     float64            // tools build + wuffs gen
	CC             string
	Table          []TableEntry // every `pub struct X implements base.Y` found in std (restricted to Modules if given)
	PackageCount   int          // number of std packages with at least one table entry (before restriction)
	Modules        []string     // nil = all
	HangTimeout    time.Duration
	Units          int // translation units per variant
	allTable       []TableEntry
	deps           map[string][]string
	Reused         bool // CSERVE_REUSE (development only): binaries of an earlier Build were reused
}

// TableEntry is one generated row of the package table.
type TableEntry struct {
	Pkg, Struct, Iface string
	Kind               int
}

var structRe = regexp.MustCompile(`(?m)^pub\s+struct\s+([a-z_0-9]+)\??\s+implements\s+([a-z_0-9., \t]+?)\s*\(`)
var useRe = regexp.MustCompile(`(?m)^use\s+"std/([a-z_0-9]+)"`)

var ifaceKind = map[string]int{
	"io_transformer":   KindIOTransformer,
	"hasher_u32":       KindHasherU32,
	"hasher_u64":       KindHasherU64,
	"hasher_bitvec256": KindHasherBitvec256,
	"image_decoder":    KindImageDecoder,
	"token_decoder":    KindTokenDecoder,
}

// ScanStd scans repo/std/*/*.wuffs for `pub struct NAME? implements base.IFACE` and `use "std/x"`.
func ScanStd(repo string) (table []TableEntry, deps map[string][]string, err error) {
	files, err := filepath.Glob(filepath.Join(repo, "std", "*", "*.wuffs"))
	if err != nil {
		return nil, nil, err
	}
	sort.Strings(files)
	deps = map[string][]string{}
	for _, f := range files {
		pkg := filepath.Base(filepath.Dir(f))
		b, err := os.ReadFile(f)
		if err != nil {
			return nil, nil, err
		}
		for _, m := range useRe.FindAllStringSubmatch(string(b), -1) {
			deps[pkg] = append(deps[pkg], m[1])
		}
		for _, m := range structRe.FindAllStringSubmatch(string(b), -1) {
			for _, ifc := range strings.Split(m[2], ",") {
				ifc = strings.TrimSpace(ifc)
				ifc = strings.TrimPrefix(ifc, "base.")
				k, ok := ifaceKind[ifc]
				if !ok {
					return nil, nil, fmt.Errorf("cserve: %s: struct %s implements unknown interface %q (teach csrc/wserver.c about it)", f, m[1], ifc)
				}
				table = append(table, TableEntry{Pkg: pkg, Struct: m[1], Iface: ifc, Kind: k})
			}
		}
	}
	sort.Slice(table, func(i, j int) bool {
		if table[i].Pkg != table[j].Pkg {
			return table[i].Pkg < table[j].Pkg
		}
		return table[i].Struct < table[j].Struct
	})
	return table, deps, nil
}

func closure(mods []string, deps map[string][]string) []string {
	seen := map[string]bool{}
	var walk func(string)
	walk = func(m string) {
		if seen[m] {
			return
		}
		seen[m] = true
		for _, d := range deps[m] {
			walk(d)
		}
	}
	for _, m := range mods {
		walk(m)
	}
	var out []string
	for m := range seen {
		out = append(out, m)
	}
	sort.Strings(out)
	return out
}

// Scratch returns $VERIF_SCRATCH, or a fresh directory under /dev/shm (the caller removes it).
func Scratch() (dir string, mine bool, err error) {
	if d := os.Getenv("VERIF_SCRATCH"); d != "" {
		return d, false, os.MkdirAll(d, 0o755)
	}
	d, err := os.MkdirTemp("/dev/shm", "cserve.")
	return d, true, err
}

func variantFlags(v string) ([]string, error) {
	san := []string{"-O1", "-g", "-fno-omit-frame-pointer", "-fsanitize=address,undefined", "-fno-sanitize-recover=all"}
	wrap := []string{"-O2", "-DWS_WRAP_ALLOC", "-Wl,--wrap=malloc,--wrap=calloc,--wrap=realloc,--wrap=free"}
	switch v {
	case Asan:
		return san, nil
	case AsanNoArch:
		return append(san, "-DWUFFS_CONFIG__AVOID_CPU_ARCH"), nil
	case Plain:
		return wrap, nil
	case NoArch:
		return append(wrap, "-DWUFFS_CONFIG__AVOID_CPU_ARCH"), nil
	}
	return nil, fmt.Errorf("cserve: unknown variant %q", v)
}

// Build rebuilds the wuffs tools from the working tree (ev.Repo()), regenerates C from its
// std/ in scratch, generates the package table and compiles one server binary per variant, in
// parallel. modules == nil means all of std; otherwise only the named packages (lower case, plus
// whatever they `use`) are compiled in, which cuts compile time.
func Build(scratch string, variants []string, modules []string) (*Built, error) {
	b := &Built{Dir: filepath.Join(scratch, "cserve"), Bin: map[string]string{}, CompileSeconds: map[string]float64{},
		Modules: modules, HangTimeout: 30 * time.Second}
	if err := os.MkdirAll(b.Dir, 0o755); err != nil {
		return nil, err
	}
	if os.Getenv("CSERVE_REUSE") != "" {
		// development only: reuse the binaries of a previous Build in the same scratch directory
		ok := true
		for _, v := range variants {
			b.Bin[v] = filepath.Join(b.Dir, "wserver_"+v)
			if _, err := os.Stat(b.Bin[v]); err != nil {
				ok = false
			}
		}
		if ok {
			table, _, err := ScanStd(ev.Repo())
			if err != nil {
				return nil, err
			}
			pk := map[string]bool{}
			for _, t := range table {
				pk[t.Pkg] = true
			}
			b.PackageCount = len(pk)
			if modules != nil {
				want := map[string]bool{}
				for _, m := range modules {
					want[m] = true
				}
				var tt []TableEntry
				for _, t := range table {
					if want[t.Pkg] {
						tt = append(tt, t)
					}
				}
				table = tt
			}
			b.Table = table
			b.Root = filepath.Join(b.Dir, "root")
			b.ReleaseC = wgen.ReleaseC(b.Root)
			b.Reused = true
			return b, nil
		}
	}
	if err := b.generate(); err != nil {
		return nil, err
	}
	if err := b.Compile(variants, modules); err != nil {
		return nil, err
	}
	return b, nil
}

// Generate does the first half of Build: tools, `wuffs gen`, std scan. b.ReleaseC is then usable;
// call b.Compile(variants, modules) (possibly concurrently with other work on the generated C) to get servers.
func Generate(scratch string) (*Built, error) {
	b := &Built{Dir: filepath.Join(scratch, "cserve"), Bin: map[string]string{}, CompileSeconds: map[string]float64{}, HangTimeout: 30 * time.Second}
	if err := os.MkdirAll(b.Dir, 0o755); err != nil {
		return nil, err
	}
	return b, b.generate()
}

func (b *Built) generate() error {
	t0 := time.Now()
	binDir, err := wgen.BuildTools(b.Dir)
	if err != nil {
		return err
	}
	os.RemoveAll(filepath.Join(b.Dir, "root")) // a second Build in the same scratch must not nest std/std
	root, err := wgen.MakeRoot(b.Dir, "root")
	if err != nil {
		return err
	}
	if err := wgen.Gen(binDir, root, nil); err != nil {
		return err
	}
	b.Root, b.ReleaseC = root, wgen.ReleaseC(root)
	b.GenSeconds = time.Since(t0).Seconds()

	table, deps, err := ScanStd(ev.Repo())
	if err != nil {
		return err
	}
	b.allTable, b.deps = table, deps
	return nil
}

// Compile generates the package table for `modules` (nil = all of std) and compiles one server per variant.
func (b *Built) Compile(variants []string, modules []string) error {
	b.Modules = modules
	root := b.Root
	table, deps := b.allTable, b.deps
	pk := map[string]bool{}
	for _, t := range table {
		pk[t.Pkg] = true
	}
	b.PackageCount = len(pk)
	var defs strings.Builder
	if modules != nil {
		want := map[string]bool{}
		for _, m := range modules {
			if !pk[m] {
				return fmt.Errorf("cserve: module %q has no `pub struct ... implements base.X` in %s/std", m, ev.Repo())
			}
			want[m] = true
		}
		var tt []TableEntry
		for _, t := range table {
			if want[t.Pkg] {
				tt = append(tt, t)
			}
		}
		table = tt
		defs.WriteString("#define WUFFS_CONFIG__MODULES\n#define WUFFS_CONFIG__MODULE__BASE\n")
		for _, m := range closure(modules, deps) {
			fmt.Fprintf(&defs, "#define WUFFS_CONFIG__MODULE__%s\n", strings.ToUpper(m))
		}
	}
	b.Table = table

	var th strings.Builder
	fmt.Fprintf(&th, "// generated by verif/internal/cserve from %s/std -- do not edit\n#define WS_NPKG %d\n", ev.Repo(), len(table))
	for i, t := range table {
		n := "wuffs_" + t.Pkg + "__" + t.Struct
		fmt.Fprintf(&th, "static wuffs_base__status ws_init_%d(void* p, size_t n, uint64_t v, uint32_t o) { return %s__initialize((%s*)p, n, v, o); }\n", i, n, n)
		fmt.Fprintf(&th, "static void* ws_up_%d(void* p) { return (void*)%s__upcast_as__wuffs_base__%s((%s*)p); }\n", i, n, t.Iface, n)
	}
	th.WriteString("static const ws_pkg ws_table[] = {\n")
	for i, t := range table {
		n := "wuffs_" + t.Pkg + "__" + t.Struct
		fmt.Fprintf(&th, "  {\"%s\", \"%s\", %d, sizeof__%s, ws_init_%d, ws_up_%d, &%s__func_ptrs_for__wuffs_base__%s},\n",
			t.Pkg, t.Struct, t.Kind, n, i, i, n, t.Iface)
	}
	th.WriteString("};\n")
	tablePath := filepath.Join(b.Dir, "wtable.h")
	if err := os.WriteFile(tablePath, []byte(th.String()), 0o644); err != nil {
		return err
	}

	b.CC = os.Getenv("CSERVE_CC")
	if b.CC == "" {
		b.CC = "gcc"
	}
	// Compilation units. Default: one unit per module (every BASE sub-module found in the generated
	// file + every std module in the closure), compiled with WUFFS_NONMONOLITHIC in parallel and
	// linked with the server unit. CSERVE_MONOLITHIC=1: one translation unit per variant.
	type unit struct {
		name, text string
	}
	var units []unit
	serverInc := fmt.Sprintf("#define WS_TABLE_H %q\n#include %q\n", tablePath, filepath.Join(ev.Root, "csrc", "wserver.c"))
	if os.Getenv("CSERVE_MONOLITHIC") != "" {
		units = []unit{{"mono", "#define WUFFS_IMPLEMENTATION\n" + defs.String() + fmt.Sprintf("#include %q\n", b.ReleaseC) + serverInc}}
	} else {
		rel, err := os.ReadFile(b.ReleaseC)
		if err != nil {
			return err
		}
		seen := map[string]bool{}
		var mods []string
		for _, m := range regexp.MustCompile(`defined\(WUFFS_CONFIG__MODULE__(BASE__[A-Z0-9_]+)\)`).FindAllStringSubmatch(string(rel), -1) {
			if !seen[m[1]] {
				seen[m[1]] = true
				mods = append(mods, m[1])
			}
		}
		if len(mods) == 0 {
			mods = []string{"BASE"}
		}
		var std []string
		if modules != nil {
			std = closure(modules, deps)
		} else {
			d, _ := filepath.Glob(filepath.Join(ev.Repo(), "std", "*"))
			for _, x := range d {
				if fi, err := os.Stat(x); err == nil && fi.IsDir() {
					std = append(std, filepath.Base(x))
				}
			}
		}
		for _, m := range std {
			M := strings.ToUpper(m)
			if strings.Contains(string(rel), "defined(WUFFS_CONFIG__MODULE__"+M+")") {
				mods = append(mods, M)
			}
		}
		// Group the modules into at most CSERVE_UNITS (default 6) units of similar size (greedy by
		// the size of gen/c/wuffs-std-X.c): every unit re-parses the whole file, so one unit per
		// module costs ~3x the CPU of a monolithic build, while one unit costs wall-clock.
		nb := 6
		if n, err := strconv.Atoi(os.Getenv("CSERVE_UNITS")); err == nil && n > 0 {
			nb = n
		}
		type wm struct {
			m string
			w int64
		}
		var ws []wm
		for _, m := range mods {
			w := int64(40 << 10)
			if fi, err := os.Stat(filepath.Join(root, "gen", "c", "wuffs-std-"+strings.ToLower(m)+".c")); err == nil {
				w = fi.Size()
			} else if m == "BASE__PIXCONV" {
				w = 400 << 10
			} else if m == "BASE__FLOATCONV" {
				w = 100 << 10
			}
			ws = append(ws, wm{m, w})
		}
		sort.SliceStable(ws, func(i, j int) bool { return ws[i].w > ws[j].w })
		if nb > len(ws) {
			nb = len(ws)
		}
		bins := make([][]string, nb)
		load := make([]int64, nb)
		for _, x := range ws {
			k := 0
			for i := range load {
				if load[i] < load[k] {
					k = i
				}
			}
			bins[k] = append(bins[k], x.m)
			load[k] += x.w
		}
		for i, bin := range bins {
			var t strings.Builder
			t.WriteString("#define WUFFS_IMPLEMENTATION\n#define WUFFS_NONMONOLITHIC\n#define WUFFS_CONFIG__MODULES\n")
			for _, m := range bin {
				fmt.Fprintf(&t, "#define WUFFS_CONFIG__MODULE__%s\n", m)
			}
			fmt.Fprintf(&t, "#include %q\n", b.ReleaseC)
			units = append(units, unit{fmt.Sprintf("u%d", i), t.String()})
		}
		var ext strings.Builder
		for _, t := range table {
			fmt.Fprintf(&ext, "extern const wuffs_base__%s__func_ptrs wuffs_%s__%s__func_ptrs_for__wuffs_base__%s;\n", t.Iface, t.Pkg, t.Struct, t.Iface)
		}
		units = append(units, unit{"server", fmt.Sprintf("#define WUFFS_NONMONOLITHIC\n#include %q\n", b.ReleaseC) + ext.String() + serverInc})
	}
	b.Units = len(units)

	sem := make(chan struct{}, runtime.NumCPU())
	var mu sync.Mutex
	var firstErr error
	fail := func(args []string, out []byte, err error) {
		mu.Lock()
		if firstErr == nil {
			o := string(out)
			if len(o) > 4000 {
				o = o[:4000]
			}
			firstErr = fmt.Errorf("cserve: %s %v: %v\n%s", b.CC, args, err, o)
		}
		mu.Unlock()
	}
	var vwg sync.WaitGroup
	for _, v := range variants {
		flags, err := variantFlags(v)
		if err != nil {
			return err
		}
		b.Bin[v] = filepath.Join(b.Dir, "wserver_"+v)
		vwg.Add(1)
		go func(v string, flags []string) {
			defer vwg.Done()
			t := time.Now()
			vdir := filepath.Join(b.Dir, "obj_"+v)
			os.MkdirAll(vdir, 0o755)
			var cflags, lflags []string
			for _, f := range flags {
				if strings.HasPrefix(f, "-Wl,") {
					lflags = append(lflags, f)
				} else {
					cflags = append(cflags, f)
				}
			}
			var objs []string
			var wg sync.WaitGroup
			for _, u := range units {
				src := filepath.Join(vdir, u.name+".c")
				obj := filepath.Join(vdir, u.name+".o")
				objs = append(objs, obj)
				if err := os.WriteFile(src, []byte(fmt.Sprintf("#define WS_VARIANT %q\n", v)+u.text), 0o644); err != nil {
					fail(nil, nil, err)
					continue
				}
				wg.Add(1)
				go func(src, obj string) {
					defer wg.Done()
					sem <- struct{}{}
					defer func() { <-sem }()
					args := append([]string{"-w", "-fno-pie", "-c"}, cflags...)
					args = append(args, "-o", obj, src)
					if out, err := exec.Command(b.CC, args...).CombinedOutput(); err != nil {
						fail(args, out, err)
					}
				}(src, obj)
			}
			wg.Wait()
			mu.Lock()
			bad := firstErr != nil
			mu.Unlock()
			if !bad {
				args := append([]string{"-no-pie"}, cflags...)
				args = append(args, lflags...)
				args = append(args, "-o", b.Bin[v])
				args = append(args, objs...)
				if out, err := exec.Command(b.CC, args...).CombinedOutput(); err != nil {
					fail(args, out, err)
				}
			}
			mu.Lock()
			b.CompileSeconds[v] = time.Since(t).Seconds()
			mu.Unlock()
		}(v, flags)
	}
	vwg.Wait()
	if firstErr != nil {
		return firstErr
	}
	return nil
}

// Start launches one server process of the given variant.
func (b *Built) Start(variant string) (*Server, error) {
	bin, ok := b.Bin[variant]
	if !ok {
		return nil, fmt.Errorf("cserve: variant %q was not built", variant)
	}
	return startServer(bin, variant, b.HangTimeout)
}

// StartN launches n server processes.
func (b *Built) StartN(variant string, n int) ([]*Server, error) {
	var out []*Server
	for i := 0; i < n; i++ {
		s, err := b.Start(variant)
		if err != nil {
			for _, o := range out {
				o.Close()
			}
			return nil, err
		}
		out = append(out, s)
	}
	return out, nil
}

// Names lists the package names of the build's table ("deflate", "crc32", ...).
func (b *Built) Names() []string {
	count := map[string]int{}
	for _, t := range b.Table {
		count[t.Pkg]++
	}
	var out []string
	for _, t := range b.Table {
		if count[t.Pkg] == 1 {
			out = append(out, t.Pkg)
		} else {
			out = append(out, t.Pkg+"."+t.Struct)
		}
	}
	return out
}

// KindOf returns the interface kind of a package name (0 if absent).
func (b *Built) KindOf(name string) int {
	for _, t := range b.Table {
		if t.Pkg == name || t.Pkg+"."+t.Struct == name {
			return t.Kind
		}
	}
	return 0
}
