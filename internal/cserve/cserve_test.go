package cserve

import (
	"bytes"
	"compress/flate"
	"compress/gzip"
	"encoding/binary"
	"hash/crc32"
	"image"
	"image/color"
	"image/png"
	"os"
	"strings"
	"testing"
)

// Smoke test of the whole pipeline: gen + compile (asan, plain; a few modules) + protocol.
// Run from /verif:  go test ./internal/cserve -run Smoke -v
func TestSmoke(t *testing.T) {
	scratch, mine, err := Scratch()
	if err != nil {
		t.Fatal(err)
	}
	if mine {
		defer os.RemoveAll(scratch)
	} else {
		defer os.RemoveAll(scratch + "/cserve")
	}
	b, err := Build(scratch, []string{Asan, Plain}, []string{"deflate", "gzip", "crc32", "png", "json"})
	if err != nil {
		t.Fatal(err)
	}
	t.Logf("packages in std: %d; table rows in this build: %d; gen %.1fs compile %v", b.PackageCount, len(b.Table), b.GenSeconds, b.CompileSeconds)
	payload := []byte(strings.Repeat("abcabcabc hello wuffs ", 20))
	var gz, fl bytes.Buffer
	zw := gzip.NewWriter(&gz)
	zw.Write(payload)
	zw.Close()
	fw, _ := flate.NewWriter(&fl, 6)
	fw.Write(payload)
	fw.Close()
	var pngb bytes.Buffer
	img := image.NewNRGBA(image.Rect(0, 0, 2, 2))
	img.Set(0, 0, color.NRGBA{1, 2, 3, 255})
	img.Set(1, 0, color.NRGBA{4, 5, 6, 255})
	img.Set(0, 1, color.NRGBA{7, 8, 9, 128})
	img.Set(1, 1, color.NRGBA{10, 11, 12, 0})
	png.Encode(&pngb, img)

	for _, variant := range []string{Asan, Plain} {
		s, err := b.Start(variant)
		if err != nil {
			t.Fatal(err)
		}
		// one-shot gzip + deflate
		for _, c := range []struct {
			pkg  string
			data []byte
		}{{"gzip", gz.Bytes()}, {"deflate", fl.Bytes()}} {
			res, err := s.Do(New(1, c.pkg, NewOpts{}), Transform(1, c.data, true, 1<<16, WorkMin), Get(1, GetDst), Hash(1))
			if err != nil {
				t.Fatal(err)
			}
			if !res[0].OK || !res[1].OK || res[1].Contract&InfoMask != 0 || !bytes.Equal(res[2].Data, payload) {
				t.Fatalf("%s/%s one-shot: %+v", variant, c.pkg, res[1])
			}
			if res[1].SrcRi1 != uint32(len(c.data)) || res[1].Magic != MagicInitialized {
				t.Fatalf("%s/%s: ri=%d magic=%x", variant, c.pkg, res[1].SrcRi1, res[1].Magic)
			}
			// one byte at a time, pipelined, 7-byte destination
			cmds := []Cmd{New(2, c.pkg, NewOpts{Prefill: 0xA5})}
			for i := range c.data {
				cmds = append(cmds, Transform(2, c.data[i:i+1], i == len(c.data)-1, 7, WorkMin))
			}
			res, err = s.Do(cmds...)
			if err != nil {
				t.Fatal(err)
			}
			for guard := 0; guard < 10000; guard++ {
				last := res[len(res)-1]
				if last.OK {
					break
				}
				if last.Status != "$base: short write" && last.Status != "$base: short read" {
					t.Fatalf("%s/%s bytewise: status %q", variant, c.pkg, last.Status)
				}
				if res, err = s.Do(Transform(2, nil, true, 7, WorkMin)); err != nil {
					t.Fatal(err)
				}
			}
			res, err = s.Do(Get(2, GetDst), Clone(2, 3), Hash(2), Hash(3), Free(3))
			if err != nil {
				t.Fatal(err)
			}
			if !bytes.Equal(res[0].Data, payload) {
				t.Fatalf("%s/%s bytewise output differs (%d bytes)", variant, c.pkg, len(res[0].Data))
			}
			if res[2].Hash != res[3].Hash {
				t.Fatalf("clone hash differs")
			}
		}
		// crc32 in two updates
		res, err := s.Do(New(5, "crc32", NewOpts{}), Update(5, payload[:10]), UpdateVal(5, payload[10:]), Checksum(5), PureCheck(5, 0))
		if err != nil {
			t.Fatal(err)
		}
		want := uint64(crc32.ChecksumIEEE(payload))
		if res[2].V[0] != want || res[3].V[0] != want || res[4].Contract != 0 || res[4].PureVals[0] != want {
			t.Fatalf("crc32: %x %x want %x (pure %+v)", res[2].V[0], res[3].V[0], want, res[4])
		}
		// png 2x2
		res, err = s.Do(New(6, "png", NewOpts{}),
			Feed(6, MDecodeImageConfig, pngb.Bytes(), true),
			Get(6, GetImageConfig),
			Feed(6, MDecodeFrameConfig, nil, true),
			func() Cmd { c := Feed(6, MDecodeFrame, nil, true); c.WorkPolicy = WorkMin; return c }(),
			Get(6, GetPixels),
			Feed(6, MDecodeFrameConfig, nil, true),
			Call(6, MNumDecodedFrames), PureCheck(6, 0))
		if err != nil {
			t.Fatal(err)
		}
		for _, i := range []int{1, 3, 4} {
			if !res[i].OK {
				t.Fatalf("png step %d: %q (%s)", i, res[i].Status, res[i].Err)
			}
		}
		if w := binary.LittleEndian.Uint64(res[2].Data[24:]); w != 2 {
			t.Fatalf("png width %d", w)
		}
		wantPix := []byte{3, 2, 1, 255, 6, 5, 4, 255, 9, 8, 7, 128, 12, 11, 10, 0}
		if !bytes.Equal(res[5].Data, wantPix) {
			t.Fatalf("png pixels % x", res[5].Data)
		}
		if res[6].Status != "@base: end of data" || res[7].V[0] != 1 || res[8].Contract != 0 {
			t.Fatalf("png tail: %q frames=%d pure=%x", res[6].Status, res[7].V[0], res[8].Contract)
		}
		// json tokens
		jc := Feed(7, MDecodeTokens, []byte(`{"a":[1,true]}`), true)
		jc.DstCap, jc.Flags, jc.WorkPolicy = 64, jc.Flags|FWantBytes, WorkMin
		res, err = s.Do(New(7, "json", NewOpts{}), jc, Get(7, GetTokens))
		if err != nil {
			t.Fatal(err)
		}
		if !res[1].OK || res[1].NWritten < 8 || !bytes.Equal(res[1].Data, res[2].Data) {
			t.Fatalf("json: %q ntok=%d", res[1].Status, res[1].NWritten)
		}
		// refusals are per command, not crashes
		res, err = s.Do(Call(7, MTransformIO), Hash(999))
		if err != nil || res[0].Err == "" || res[1].Err == "" {
			t.Fatalf("refusal: %v %+v", err, res)
		}
		// crash plumbing: sanitizer abort (asan) / allocator counter (plain)
		if variant == Asan {
			_, err = s.Do(Ping(), Ping(), SelfTest(1), Ping())
			ce, ok := err.(*CrashError)
			if !ok || ce.CmdIndex != 2 || !strings.Contains(ce.Stderr, "heap-buffer-overflow") {
				t.Fatalf("expected crash at cmd 2, got %v", err)
			}
			t.Logf("crash summary: %s", ce.Summary())
			if err := s.Restart(); err != nil {
				t.Fatal(err)
			}
			_, err = s.Do(Ping(), Ping(), Ping(), SelfTest(2), Ping())
			if ce, ok := err.(*CrashError); !ok || !strings.Contains(ce.Stderr, "signed integer overflow") || ce.CmdIndex != 3 {
				t.Fatalf("expected ubsan abort, got %v", err)
			}
			s.Restart()
		} else {
			res, err = s.Do(SelfTest(5))
			if err != nil || res[0].Allocs != 2 {
				t.Fatalf("allocator counter: %v %+v", err, res)
			}
		}
		s.Close()
	}
	// hang detection (short timeout)
	b.HangTimeout = 3e9
	s, err := b.Start(Plain)
	if err != nil {
		t.Fatal(err)
	}
	_, err = s.Do(Ping(), SelfTest(3))
	if ce, ok := err.(*CrashError); !ok || ce.Kind != "hang" || ce.CmdIndex != 1 {
		t.Fatalf("expected hang, got %v", err)
	}
	s.Close()
}
