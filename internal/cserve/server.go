package cserve

import (
	"bufio"
	"encoding/binary"
	"errors"
	"fmt"
	"io"
	"os"
	"os/exec"
	"regexp"
	"strconv"
	"strings"
	"sync"
	"time"
)

// Package describes one std struct served by a build.
type Package struct {
	Name   string // "deflate"; "crc32.ieee_hasher"-style alias also accepted by New
	Pkg    string
	Struct string
	Kind   int
	Sizeof uint64
}

// CrashError: the server process died (sanitizer report, signal), hung, or broke the protocol.
// Sent holds every command of the batch that was in flight (= everything since the last
// synchronisation point, i.e. since the previous Do returned); CmdIndex is the index in Sent of the
// command that was executing when the process died (-1 if unknown; then Answered, the number of
// complete responses received, is a lower bound).
type CrashError struct {
	Variant  string
	Kind     string // "crash" | "hang" | "protocol"
	Exit     string
	Stderr   string
	Sent     []Cmd
	Answered int
	CmdIndex int
}

func (e *CrashError) Error() string {
	return fmt.Sprintf("cserve[%s]: server %s (%s) at command %d of %d (answered %d); stderr: %s",
		e.Variant, e.Kind, e.Exit, e.CmdIndex, len(e.Sent), e.Answered, firstLines(e.Stderr, 6))
}

// Summary extracts the sanitizer's one-line description ("heap-buffer-overflow ... in func", "runtime error: ...").
func (e *CrashError) Summary() string {
	for _, re := range []*regexp.Regexp{
		regexp.MustCompile(`runtime error: [^\n]*`),
		regexp.MustCompile(`ERROR: AddressSanitizer: [^\n]*`),
		regexp.MustCompile(`WSERVER-(HANG|SIGNAL|OOM)[^\n]*`),
	} {
		if m := re.FindString(e.Stderr); m != "" {
			return m
		}
	}
	return e.Kind + " " + e.Exit
}

// Frames returns the function names of the first sanitizer stack trace (innermost first), for signatures.
func (e *CrashError) Frames(max int) []string {
	re := regexp.MustCompile(`(?m)^\s*#\d+ 0x[0-9a-f]+ in (\S+)`)
	var out []string
	for _, m := range re.FindAllStringSubmatch(e.Stderr, -1) {
		out = append(out, m[1])
		if len(out) >= max {
			break
		}
	}
	return out
}

func firstLines(s string, n int) string {
	l := strings.SplitN(s, "\n", n+1)
	if len(l) > n {
		l = l[:n]
	}
	return strings.Join(l, " | ")
}

type tail struct {
	mu   sync.Mutex
	head []byte
	tail []byte
	done chan struct{}
}

func (t *tail) Write(p []byte) (int, error) {
	t.mu.Lock()
	defer t.mu.Unlock()
	n := len(p)
	if room := 12288 - len(t.head); room > 0 {
		k := min(room, len(p))
		t.head = append(t.head, p[:k]...)
		p = p[k:]
	}
	t.tail = append(t.tail, p...)
	if len(t.tail) > 4096 {
		t.tail = append([]byte(nil), t.tail[len(t.tail)-4096:]...)
	}
	return n, nil
}
func (t *tail) String() string {
	t.mu.Lock()
	defer t.mu.Unlock()
	if len(t.tail) == 0 {
		return string(t.head)
	}
	return string(t.head) + "\n[...]\n" + string(t.tail)
}

// Server is one server process. Not safe for concurrent use: give each goroutine its own.
type Server struct {
	Variant     string
	Packages    []Package
	WuffsVer    uint64
	HangTimeout time.Duration // a single call running longer than this is a hang (default 30 s)
	// Calls counts commands executed over the lifetime of this Server value (across restarts).
	Calls uint64

	bin      string
	cmd      *exec.Cmd
	in       io.WriteCloser
	out      *os.File
	br       *bufio.Reader
	errTail  *tail
	pkgIndex map[string]int
	seqBase  uint64
	dead     bool
}

type dlReader struct{ s *Server }

func (r dlReader) Read(p []byte) (int, error) {
	r.s.out.SetReadDeadline(time.Now().Add(r.s.HangTimeout + 90*time.Second))
	return r.s.out.Read(p)
}

func startServer(bin, variant string, hang time.Duration) (*Server, error) {
	s := &Server{Variant: variant, bin: bin, HangTimeout: hang}
	if s.HangTimeout <= 0 {
		s.HangTimeout = 30 * time.Second
	}
	if err := s.spawn(); err != nil {
		return nil, err
	}
	return s, nil
}

func (s *Server) spawn() error {
	cmd := exec.Command(s.bin)
	cmd.Env = append(os.Environ(),
		"ASAN_OPTIONS=detect_leaks=0:malloc_context_size=3:handle_abort=1:quarantine_size_mb=4:thread_local_quarantine_size_kb=64:abort_on_error=0:allocator_release_to_os_interval_ms=-1",
		"UBSAN_OPTIONS=print_stacktrace=1:halt_on_error=1",
		"WSERVER_HANG_S="+strconv.Itoa(int(s.HangTimeout/time.Second)))
	in, err := cmd.StdinPipe()
	if err != nil {
		return err
	}
	outp, err := cmd.StdoutPipe()
	if err != nil {
		return err
	}
	s.errTail = &tail{done: make(chan struct{})}
	ep, err := cmd.StderrPipe()
	if err != nil {
		return err
	}
	if err := cmd.Start(); err != nil {
		return err
	}
	t := s.errTail
	go func() { io.Copy(t, ep); close(t.done) }()
	s.cmd, s.in, s.out = cmd, in, outp.(*os.File)
	s.br = bufio.NewReaderSize(dlReader{s}, 1<<18)
	s.seqBase = 0
	s.dead = false
	// hello
	hello := []Cmd{{Op: OpHello}}
	var e enc
	s.pkgIndex = map[string]int{}
	if err := s.encode(&e, &hello[0]); err != nil {
		return err
	}
	if _, err := s.in.Write(e.b); err != nil {
		return s.crash(hello, 0, "protocol", err)
	}
	body, err := s.readBody()
	if err != nil {
		return s.crash(hello, 0, "protocol", err)
	}
	s.seqBase = 1
	d := &dec{b: body}
	if d.u8() != 0 || d.u32() != 2 {
		return fmt.Errorf("cserve: bad hello from %s", s.bin)
	}
	v, _, _ := d.str()
	if v != s.Variant {
		return fmt.Errorf("cserve: binary %s is variant %q, wanted %q", s.bin, v, s.Variant)
	}
	s.WuffsVer = d.u64()
	n := int(d.u32())
	s.Packages = nil
	count := map[string]int{}
	for i := 0; i < n; i++ {
		p, _, _ := d.str()
		st, _, _ := d.str()
		k := int(d.u8())
		sz := d.u64()
		s.Packages = append(s.Packages, Package{Name: p, Pkg: p, Struct: st, Kind: k, Sizeof: sz})
		count[p]++
	}
	if d.bad {
		return fmt.Errorf("cserve: short hello")
	}
	for i := range s.Packages {
		p := &s.Packages[i]
		s.pkgIndex[p.Pkg+"."+p.Struct] = i
		if count[p.Pkg] == 1 {
			s.pkgIndex[p.Pkg] = i
		} else {
			p.Name = p.Pkg + "." + p.Struct
		}
	}
	return nil
}

func (s *Server) readBody() ([]byte, error) {
	var l [4]byte
	if _, err := io.ReadFull(s.br, l[:]); err != nil {
		return nil, err
	}
	n := binary.LittleEndian.Uint32(l[:])
	if n > 1<<30 {
		return nil, fmt.Errorf("response length %d", n)
	}
	b := make([]byte, n)
	if _, err := io.ReadFull(s.br, b); err != nil {
		return nil, err
	}
	return b, nil
}

var seqRe = regexp.MustCompile(`WSERVER-(?:DIED|HANG) cmd_seq=(\d+)`)

func (s *Server) crash(sent []Cmd, answered int, kind string, cause error) error {
	s.dead = true
	if errors.Is(cause, os.ErrDeadlineExceeded) {
		kind = "hang"
	}
	s.in.Close()
	if kind == "hang" || kind == "protocol" {
		s.cmd.Process.Kill()
	}
	// give the process a moment to finish writing its report, then reap it
	done := make(chan error, 1)
	go func() { done <- s.cmd.Wait() }()
	var werr error
	select {
	case werr = <-done:
	case <-time.After(20 * time.Second):
		s.cmd.Process.Kill()
		werr = <-done
	}
	select {
	case <-s.errTail.done:
	case <-time.After(2 * time.Second):
	}
	ce := &CrashError{Variant: s.Variant, Kind: kind, Stderr: s.errTail.String(), Sent: append([]Cmd(nil), sent...), Answered: answered, CmdIndex: -1}
	if werr != nil {
		ce.Exit = werr.Error()
	} else {
		ce.Exit = "exit status 0"
	}
	if cause != nil && kind != "crash" {
		ce.Exit += "; " + cause.Error()
	}
	if strings.Contains(ce.Stderr, "WSERVER-HANG") {
		ce.Kind = "hang"
	}
	if m := seqRe.FindStringSubmatch(ce.Stderr); m != nil {
		seq, _ := strconv.ParseUint(m[1], 10, 64)
		if idx := int64(seq) - int64(s.seqBase) - 1; idx >= 0 && idx < int64(len(sent)) {
			ce.CmdIndex = int(idx)
		}
	}
	if ce.CmdIndex < 0 && answered < len(sent) && ce.Kind != "protocol" {
		ce.CmdIndex = answered
	}
	return ce
}

// Do executes a batch: all commands are written (pipelined), then all results are read. Results are
// in command order. A returned *CrashError means the process is gone (all slots lost): call Restart.
// A per-command refusal (Result.Err != "") is not an error of Do.
func (s *Server) Do(cmds ...Cmd) ([]Result, error) {
	res := make([]Result, len(cmds))
	return res, s.DoInto(cmds, res)
}

// DoInto is Do with a caller-provided result slice (len(res) >= len(cmds)); it is zeroed first.
func (s *Server) DoInto(cmds []Cmd, res []Result) error {
	if s.dead {
		return fmt.Errorf("cserve: server is dead; call Restart")
	}
	if len(cmds) == 0 {
		return nil
	}
	var e enc
	for i := range cmds {
		if err := s.encode(&e, &cmds[i]); err != nil {
			return err
		}
	}
	werr := make(chan error, 1)
	go func() {
		_, err := s.in.Write(e.b)
		werr <- err
	}()
	for i := range cmds {
		res[i] = Result{}
		body, err := s.readBody()
		if err != nil {
			return s.crash(cmds, i, "crash", err)
		}
		if err := decodeResult(&cmds[i], body, &res[i]); err != nil {
			return s.crash(cmds, i, "protocol", err)
		}
	}
	if err := <-werr; err != nil {
		return s.crash(cmds, len(cmds), "crash", err)
	}
	s.seqBase += uint64(len(cmds))
	s.Calls += uint64(len(cmds))
	return nil
}

// Restart kills the process (if alive) and starts a fresh one. All slots are lost.
func (s *Server) Restart() error {
	s.Close()
	return s.spawn()
}

// Close terminates the process.
func (s *Server) Close() {
	if s.cmd == nil {
		return
	}
	if !s.dead {
		s.in.Close()
		done := make(chan struct{})
		go func() { s.cmd.Wait(); close(done) }()
		select {
		case <-done:
		case <-time.After(5 * time.Second):
			s.cmd.Process.Kill()
			<-done
		}
		s.dead = true
	}
	s.cmd = nil
}

// PackageByName looks a package up ("png" or "crc32.ieee_hasher").
func (s *Server) PackageByName(name string) (Package, bool) {
	i, ok := s.pkgIndex[name]
	if !ok {
		return Package{}, false
	}
	return s.Packages[i], true
}

// Replay runs cmds strictly one at a time (no pipelining) and returns the results obtained so far
// plus the error, for linear re-execution of a recorded witness.
func (s *Server) Replay(cmds []Cmd) ([]Result, error) {
	var out []Result
	for i := range cmds {
		r, err := s.Do(cmds[i])
		if err != nil {
			if ce, ok := err.(*CrashError); ok {
				ce.Sent = append([]Cmd(nil), cmds[:i+1]...)
				ce.CmdIndex = i
				ce.Answered = i
			}
			return out, err
		}
		out = append(out, r[0])
	}
	return out, nil
}
