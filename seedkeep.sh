#!/bin/bash
# ./seedkeep.sh <src-dir> <name> <caught-by-text>   -- files a confirmed seeded change under /verif/seeded/<name>/
src="$1"; name="$2"; caught="$3"
dst=/verif/seeded/$name; mkdir -p $dst
cp "$src/patch.diff" $dst/; cp "$src"/demo_test.go $dst/ 2>/dev/null; [ -d "$src/demo" ] && cp -r "$src/demo" $dst/
jq --arg c "$caught" --arg ran "seedverify.sh: scratch worktree of /repo HEAD; demonstration run without the patch (passes) and with it (fails); go build ./... and go test ./... with the patch (pass); quick check with VERIF_REPO pointing at the patched worktree" \
  '. + {breaks: .property, needs: .needs_to_manifest, what_i_ran: $ran, detection: $c}' "$src/meta.json" > $dst/meta.json
echo "kept $dst"
