#!/bin/bash
# ./run.sh <Cxx> quick|thorough   -- builds the check from /verif + /repo's working tree and runs it.
# ./run.sh replay <path>          -- re-executes a recorded witness.
set -u
cd "$(dirname "$(readlink -f "$0")")"
export VERIF_ROOT="$PWD"
export GOFLAGS=-mod=mod GOPROXY=off GOSUMDB=off GOTOOLCHAIN=local
export VERIF_SCRATCH="${VERIF_SCRATCH_BASE:-/dev/shm}/verif.$$"
mkdir -p "$VERIF_SCRATCH"
trap 'rm -rf "$VERIF_SCRATCH"' EXIT
# VERIF_REPO=<dir>: check a scratch worktree (a candidate change) instead of /repo.
if [ -n "${VERIF_REPO:-}" ] && [ "$VERIF_REPO" != "/repo" ]; then
  sed "s|=> /repo|=> $VERIF_REPO|" go.mod > "$VERIF_SCRATCH/go.mod"; cp go.sum "$VERIF_SCRATCH/go.sum"
  export GOFLAGS="-mod=mod -modfile=$VERIF_SCRATCH/go.mod"
fi
id="$1"; tier="${2:-quick}"
if [ "$id" = "replay" ]; then
  path="$2"
  id=$(jq -r .property "$path")
  lc=$(echo "$id" | tr 'A-Z' 'a-z')
  go build -o "$VERIF_SCRATCH/check" "./checks/$lc" || { echo "HARNESS-ERROR: build failed"; exit 2; }
  "$VERIF_SCRATCH/check" replay "$path"
  exit $?
fi
lc=$(echo "$id" | tr 'A-Z' 'a-z')
export VERIF_TIER="$tier"
if [ -x "./checks/$lc/run.sh" ]; then
  "./checks/$lc/run.sh" "$tier"
  exit $?
fi
go build -o "$VERIF_SCRATCH/check" "./checks/$lc" || { echo "HARNESS-ERROR: build failed"; exit 2; }
"$VERIF_SCRATCH/check" "$tier"
exit $?
