// wserver.c -- generic Wuffs *state server* (engine E4 of /verif/DESIGN.md).
//
// This file is #included at the end of a generated translation unit that has
// already done
//     #define WUFFS_IMPLEMENTATION
//     [#define WUFFS_CONFIG__MODULES + WUFFS_CONFIG__MODULE__X ...]
//     #include "<scratch>/root/release/c/wuffs-unsupported-snapshot.c"   (freshly generated)
//     #define WS_TABLE_H "<scratch>/wtable.h"                            (generated package table)
//     #define WS_VARIANT "asan"
// It holds numbered slots (object + buffers + bookkeeping) and executes
// commands read from stdin (length-prefixed binary, see internal/cserve).  All
// exploration logic lives in the Go client; the server only holds state and
// executes calls, snapshotting the I/O contract around each call.
//
// Protocol: request  = u32 bodylen | u8 op | payload
//           response = u32 bodylen | body            (exactly one per request)
// All integers little endian.  Output is flushed whenever the server would
// block reading stdin (so clients may pipeline: write many, then read many).

#include <errno.h>
#include <malloc.h>
#include <signal.h>
#include <stdint.h>
#include <stdio.h>
#include <stdlib.h>
#include <string.h>
#include <sys/time.h>
#include <unistd.h>

#if defined(__SANITIZE_ADDRESS__)
#include <sanitizer/asan_interface.h>
#else
#define ASAN_POISON_MEMORY_REGION(a, n) ((void)(a), (void)(n))
#define ASAN_UNPOISON_MEMORY_REGION(a, n) ((void)(a), (void)(n))
#endif

#ifndef WS_VARIANT
#define WS_VARIANT "unknown"
#endif

#if defined(__SANITIZE_ADDRESS__)
#define WS_ASAN 1
#elif defined(__has_feature)
#if __has_feature(address_sanitizer)
#define WS_ASAN 1
#endif
#endif

#define WS_NOSAN __attribute__((no_sanitize("address", "undefined")))

// ---------------------------------------------------------------- table

enum {
  WS_KIND_IO_TRANSFORMER = 1,
  WS_KIND_HASHER_U32 = 2,
  WS_KIND_HASHER_U64 = 3,
  WS_KIND_HASHER_BITVEC256 = 4,
  WS_KIND_IMAGE_DECODER = 5,
  WS_KIND_TOKEN_DECODER = 6,
};

typedef struct {
  const char* pkg;
  const char* strct;
  int kind;
  size_t (*size_of)(void);
  wuffs_base__status (*init)(void*, size_t, uint64_t, uint32_t);
  void* (*upcast)(void*);
  const void* func_ptrs;
} ws_pkg;

#include WS_TABLE_H  // defines: static const ws_pkg ws_table[]; #define WS_NPKG

// ---------------------------------------------------------------- allocator counters

static volatile sig_atomic_t ws_in_call = 0;
static volatile uint64_t ws_alloc_calls = 0;

#if defined(WS_WRAP_ALLOC)
void* __real_malloc(size_t);
void* __real_calloc(size_t, size_t);
void* __real_realloc(void*, size_t);
void __real_free(void*);
void* __wrap_malloc(size_t n) {
  if (ws_in_call) ws_alloc_calls++;
  return __real_malloc(n);
}
void* __wrap_calloc(size_t a, size_t b) {
  if (ws_in_call) ws_alloc_calls++;
  return __real_calloc(a, b);
}
void* __wrap_realloc(void* p, size_t n) {
  if (ws_in_call) ws_alloc_calls++;
  return __real_realloc(p, n);
}
void __wrap_free(void* p) {
  if (ws_in_call) ws_alloc_calls++;
  __real_free(p);
}
#endif

// ---------------------------------------------------------------- death notes / watchdog

static volatile uint64_t ws_cmd_seq = 0;  // number of the command being executed (1-based)
static volatile uint64_t ws_call_seq = 0;
static int ws_hang_s = 30;

static void ws_note(const char* what, uint64_t a) {
  char buf[96];
  size_t n = 0;
  while (*what && n < 60) buf[n++] = *what++;
  char d[24];
  int k = 0;
  do {
    d[k++] = (char)('0' + (a % 10));
    a /= 10;
  } while (a);
  while (k) buf[n++] = d[--k];
  buf[n++] = '\n';
  ssize_t r = write(2, buf, n);
  (void)r;
}

static volatile sig_atomic_t ws_want_flush = 0;

static void ws_on_alarm(int sig) {
  (void)sig;
  ws_want_flush = 1;  // the main loop flushes pending responses at least once per second
  static uint64_t last = 0;
  static int ticks = 0;
  if (ws_in_call && ws_call_seq == last) {
    if (++ticks >= ws_hang_s) {
      ws_note("WSERVER-HANG cmd_seq=", ws_cmd_seq);
      _exit(97);
    }
  } else {
    last = ws_call_seq;
    ticks = 0;
  }
}

#if defined(WS_ASAN)
void __sanitizer_set_death_callback(void (*cb)(void));
static void ws_on_death(void) { ws_note("WSERVER-DIED cmd_seq=", ws_cmd_seq); }
// UBSan's runtime keeps its own copy of the common sanitizer state, so the death callback above is not
// called for a -fno-sanitize-recover UBSan report: this hook (called for every UBSan report) is.
void __ubsan_on_report(void);
void __ubsan_on_report(void) { ws_note("WSERVER-DIED cmd_seq=", ws_cmd_seq); }
#else
static void ws_on_fatal(int sig) {
  ws_note("WSERVER-SIGNAL sig=", (uint64_t)sig);
  ws_note("WSERVER-DIED cmd_seq=", ws_cmd_seq);
  signal(sig, SIG_DFL);
  raise(sig);
}
#endif

// ---------------------------------------------------------------- buffered stdio over fds 0/1

static uint8_t* ws_in;
static size_t ws_in_cap, ws_in_r, ws_in_w;
static uint8_t* ws_out;
static size_t ws_out_cap, ws_out_n;

static void ws_flush(void) {
  size_t o = 0;
  while (o < ws_out_n) {
    ssize_t k = write(1, ws_out + o, ws_out_n - o);
    if (k < 0) {
      if (errno == EINTR) continue;
      _exit(3);
    }
    o += (size_t)k;
  }
  ws_out_n = 0;
}

// returns 0 on clean EOF at a request boundary
static int ws_need(size_t n) {
  if (ws_in_w - ws_in_r >= n) return 1;
  if (ws_in_r) {
    memmove(ws_in, ws_in + ws_in_r, ws_in_w - ws_in_r);
    ws_in_w -= ws_in_r;
    ws_in_r = 0;
  }
  if (n > ws_in_cap) {
    ws_in_cap = n + (1 << 16);
    ws_in = (uint8_t*)realloc(ws_in, ws_in_cap);
    if (!ws_in) _exit(4);
  }
  while (ws_in_w < n) {
    ws_flush();
    ssize_t k = read(0, ws_in + ws_in_w, ws_in_cap - ws_in_w);
    if (k < 0) {
      if (errno == EINTR) continue;
      _exit(5);
    }
    if (k == 0) return 0;
    ws_in_w += (size_t)k;
  }
  return 1;
}

static void ws_out_reserve(size_t n) {
  if (ws_out_n + n > ws_out_cap) {
    ws_out_cap = (ws_out_n + n) * 2 + (1 << 16);
    ws_out = (uint8_t*)realloc(ws_out, ws_out_cap);
    if (!ws_out) _exit(4);
  }
}

// response builder: body is built in place after a 4 byte length hole.
static size_t ws_resp_start;
static void rbegin(void) {
  if (ws_out_n > (1 << 16)) ws_flush();  // only ever between two responses
  ws_out_reserve(4);
  ws_resp_start = ws_out_n;
  ws_out_n += 4;
}
static void rbytes(const void* p, size_t n) {
  ws_out_reserve(n);
  if (n) memcpy(ws_out + ws_out_n, p, n);
  ws_out_n += n;
}
static void r8(uint8_t v) { rbytes(&v, 1); }
static void r16(uint16_t v) { rbytes(&v, 2); }
static void r32(uint32_t v) { rbytes(&v, 4); }
static void r64(uint64_t v) { rbytes(&v, 8); }
static void rend(void) {
  uint32_t n = (uint32_t)(ws_out_n - ws_resp_start - 4);
  memcpy(ws_out + ws_resp_start, &n, 4);
}
static void rstr(const char* s) {
  if (!s) {
    r16(0xFFFF);
    return;
  }
  size_t n = strlen(s);
  if (n > 0xFFF0) n = 0xFFF0;
  r16((uint16_t)n);
  rbytes(s, n);
}

// request reader
typedef struct {
  const uint8_t* p;
  size_t n, o;
  int bad;
} rq;
static uint64_t qn(rq* q, int k) {
  if (q->o + (size_t)k > q->n) {
    q->bad = 1;
    return 0;
  }
  uint64_t v = 0;
  memcpy(&v, q->p + q->o, (size_t)k);
  q->o += (size_t)k;
  return v;
}
#define q8(q) ((uint8_t)qn(q, 1))
#define q16(q) ((uint16_t)qn(q, 2))
#define q32(q) ((uint32_t)qn(q, 4))
#define q64(q) ((uint64_t)qn(q, 8))
static const uint8_t* qbytes(rq* q, size_t n) {
  if (q->o + n > q->n) {
    q->bad = 1;
    return NULL;
  }
  const uint8_t* r = q->p + q->o;
  q->o += n;
  return r;
}

// ---------------------------------------------------------------- hashing (harness code; uninstrumented, fast)

static inline uint64_t ws_rd64(const uint8_t* p) {
  uint64_t v;
  memcpy(&v, p, 8);
  return v;
}
static inline uint64_t ws_mum(uint64_t a, uint64_t b) {
  __uint128_t r = (__uint128_t)a * b;
  return (uint64_t)r ^ (uint64_t)(r >> 64);
}
#define WS_K0 0xa0761d6478bd642full
#define WS_K1 0xe7037ed1a0b428dbull
#define WS_K2 0x8ebc6af09c88c6e3ull
#define WS_K3 0x589965cc75374cc3ull

WS_NOSAN __attribute__((optimize("O3"))) static void ws_hash128(const uint8_t* p, size_t n, uint64_t seed, uint64_t out[2]) {
  uint64_t h0 = seed ^ WS_K0, h1 = (seed + 0x9e3779b97f4a7c15ull) ^ WS_K3;
  size_t i = 0;
  for (; i + 16 <= n; i += 16) {
    uint64_t x = ws_rd64(p + i), y = ws_rd64(p + i + 8);
    h0 = ws_mum(x ^ WS_K1, y ^ h0);
    h1 = ws_mum(x ^ h1, y ^ WS_K2) + x;
  }
  uint8_t tail[16];
  memset(tail, 0, 16);
  if (n - i) memcpy(tail, p + i, n - i);
  uint64_t x = ws_rd64(tail), y = ws_rd64(tail + 8);
  h0 = ws_mum(x ^ WS_K1, y ^ h0);
  h1 = ws_mum(x ^ h1, y ^ WS_K2) + x;
  out[0] = ws_mum(h0 ^ WS_K2, (uint64_t)n ^ WS_K0) ^ h1;
  out[1] = ws_mum(h1 ^ WS_K1, ((uint64_t)n + 1) ^ WS_K3) + h0;
}
static uint64_t ws_hash64(const void* p, size_t n, uint64_t seed) {
  uint64_t o[2];
  ws_hash128((const uint8_t*)p, n, seed, o);
  return o[0] ^ (o[1] * WS_K1);
}

// ---------------------------------------------------------------- slots

typedef struct {
  int used;
  int pkg;
  uint8_t* obj;  // exact-size allocation of sizeof__T()
  size_t objlen;
  // source: bytes [0,src_len) at stream position src_pos; [0,src_ri) consumed
  uint8_t* src;
  size_t src_len, src_cap, src_ri;
  uint64_t src_pos;
  uint8_t src_closed;
  // accumulated destination bytes (io_transformer, tell_me_more)
  uint8_t* dst;
  size_t dst_len, dst_cap;
  uint64_t dst_total;  // bytes produced so far (stream position of the destination), also with F_NO_ACCUM / after RESET
  // work buffer (exact-size allocation, content persists between calls)
  uint8_t* work;
  size_t work_len;
  uint8_t have_work;
  // image decoder
  wuffs_base__image_config ic;
  wuffs_base__frame_config fc;
  wuffs_base__pixel_config pixcfg;
  uint8_t* pix;  // exact-size allocation
  size_t pix_len;
  uint8_t have_pix;
  // accumulated tokens
  uint64_t* tok;
  size_t tok_len, tok_cap;
} slot_t;

static slot_t* ws_slots;
static size_t ws_nslots;

static slot_t* getslot(uint32_t id, int must_exist) {
  if (id >= (1u << 22)) return NULL;
  if (id >= ws_nslots) {
    if (must_exist) return NULL;
    size_t nn = ws_nslots ? ws_nslots : 64;
    while (nn <= id) nn *= 2;
    ws_slots = (slot_t*)realloc(ws_slots, nn * sizeof(slot_t));
    if (!ws_slots) _exit(4);
    memset(ws_slots + ws_nslots, 0, (nn - ws_nslots) * sizeof(slot_t));
    ws_nslots = nn;
  }
  slot_t* s = &ws_slots[id];
  if (must_exist && !s->used) return NULL;
  return s;
}

static void slot_free(slot_t* s) {
  if (!s->used) return;
  free(s->obj);
  free(s->src);
  free(s->dst);
  free(s->work);
  free(s->pix);
  free(s->tok);
  memset(s, 0, sizeof(*s));
}

static void* xmalloc(size_t n) {
  void* p = malloc(n);  // malloc(0) gives a unique pointer whose every byte is out of bounds
  if (!p) {
    ws_note("WSERVER-OOM bytes=", (uint64_t)n);
    _exit(6);
  }
  return p;
}
static void* dup_exact(const void* p, size_t n) {
  uint8_t* r = (uint8_t*)xmalloc(n);
  if (n) memcpy(r, p, n);
  return r;
}

static void grow(uint8_t** p, size_t* cap, size_t need) {
  if (need <= *cap) return;
  size_t nc = *cap ? *cap : 64;
  while (nc < need) nc *= 2;
  *p = (uint8_t*)realloc(*p, nc);
  if (!*p) _exit(4);
  *cap = nc;
}

static void fail(const char* msg) {
  // protocol-level error for this request (not a crash): rc=1 + message
  ws_out_n = ws_resp_start + 4;
  r8(1);
  rstr(msg);
  rend();
}

// ---------------------------------------------------------------- commands

enum {
  OP_HELLO = 1,
  OP_NEW = 2,
  OP_INIT = 3,
  OP_CLONE = 4,
  OP_FREE = 5,
  OP_HASH = 6,
  OP_CALL = 7,
  OP_GET = 8,
  OP_PURECHECK = 9,
  OP_SETSRC = 10,
  OP_RESET = 11,
  OP_PING = 12,
  OP_SELFTEST = 13,
};

enum {
  M_TRANSFORM_IO = 1,
  M_WORKBUF_LEN = 2,
  M_SET_QUIRK = 3,
  M_GET_QUIRK = 4,
  M_DST_HISTORY_RETAIN_LENGTH = 5,
  M_UPDATE = 10,
  M_UPDATE_VAL = 11,
  M_CHECKSUM = 12,
  M_DECODE_IMAGE_CONFIG = 20,
  M_DECODE_FRAME_CONFIG = 21,
  M_DECODE_FRAME = 22,
  M_RESTART_FRAME = 23,
  M_TELL_ME_MORE = 24,
  M_NUM_DECODED_FRAMES = 25,
  M_NUM_DECODED_FRAME_CONFIGS = 26,
  M_NUM_ANIMATION_LOOPS = 27,
  M_FRAME_DIRTY_RECT = 28,
  M_SET_REPORT_METADATA = 29,
  M_DECODE_TOKENS = 40,
};

// call flags
enum {
  F_CLOSED = 1 << 0,
  F_NULL_DST = 1 << 1,
  F_NULL_SRC = 1 << 2,
  F_NULL_WORK = 1 << 3,
  F_WANT_BYTES = 1 << 4,
  F_KEEP_CONSUMED = 1 << 5,
  F_DST_RI_AT_WI = 1 << 6,
  F_DIRECT = 1 << 7,
  F_NO_ACCUM = 1 << 8,
  F_NULL_SELF = 1 << 9,
  F_CHECK_SCRIBBLE = 1 << 10,
};

// contract flags
enum {
  C_SRC_ORDER = 1 << 0,      // !(ri <= wi <= len) on the source after the call
  C_DST_ORDER = 1 << 1,      // !(ri <= wi <= len) on the destination after the call
  C_SRC_RI_DECREASED = 1 << 2,
  C_DST_WI_DECREASED = 1 << 3,
  C_SRC_BYTES_CHANGED = 1 << 4,
  C_DST_OLD_BYTES_CHANGED = 1 << 5,
  C_SRC_META_CHANGED = 1 << 6,  // wi / pos / closed / data.ptr / data.len of the source modified
  C_DST_META_CHANGED = 1 << 7,  // ri / pos / closed / data.ptr / data.len of the destination modified
  C_TOK_ORDER = 1 << 8,
  C_TOK_OLD_CHANGED = 1 << 9,
  C_PURE_WROTE_OBJECT = 1 << 10,
  C_ALLOC = 1 << 11,
  C_PURE_WROTE_BUFFERS = 1 << 12,
  I_DST_SCRIBBLED_BEYOND_WI = 1 << 16,  // informational: bytes in [wi_after, len) differ from the prefill
};

static void do_hello(void) {
  rbegin();
  r8(0);
  r32(2);  // protocol version
  rstr(WS_VARIANT);
  r64((uint64_t)WUFFS_VERSION);
  r32((uint32_t)WS_NPKG);
  for (int i = 0; i < WS_NPKG; i++) {
    rstr(ws_table[i].pkg);
    rstr(ws_table[i].strct);
    r8((uint8_t)ws_table[i].kind);
    r64((uint64_t)ws_table[i].size_of());
  }
  rend();
}

typedef struct {
  uint8_t do_init, sizeof_mode, version_mode, null_self;
  uint64_t sizeof_val, version_val;
  uint32_t options;
  uint16_t prefill;
  uint32_t copy_slot;
} initargs;

static void read_initargs(rq* q, initargs* a) {
  a->do_init = q8(q);
  a->sizeof_mode = q8(q);
  a->version_mode = q8(q);
  a->null_self = q8(q);
  a->sizeof_val = q64(q);
  a->version_val = q64(q);
  a->options = q32(q);
  a->prefill = q16(q);
  a->copy_slot = q32(q);
}

static const char* apply_prefill(slot_t* s, const initargs* a) {
  if (a->prefill < 0x100) {
    memset(s->obj, (int)a->prefill, s->objlen);
  } else if (a->prefill == 0x100) {
    slot_t* k = getslot(a->copy_slot, 1);
    if (!k || k == s) return "prefill: bad copy slot";
    size_t n = k->objlen < s->objlen ? k->objlen : s->objlen;
    memset(s->obj, 0, s->objlen);
    memcpy(s->obj, k->obj, n);
  }  // 0x1FF: leave as is
  return NULL;
}

static void run_init(slot_t* s, const initargs* a) {
  const ws_pkg* p = &ws_table[s->pkg];
  size_t sz = a->sizeof_mode ? (size_t)a->sizeof_val : s->objlen;
  uint64_t ver = a->version_mode ? a->version_val : (uint64_t)WUFFS_VERSION;
  uint64_t a0 = ws_alloc_calls;
  ws_call_seq++;
  ws_in_call = 1;
  wuffs_base__status st = p->init(a->null_self ? NULL : (void*)s->obj, sz, ver, a->options);
  ws_in_call = 0;
  r8(0);
  rstr(st.repr);
  r32((uint32_t)(ws_alloc_calls - a0));
  uint32_t magic = 0;
  if (s->objlen >= 4) memcpy(&magic, s->obj, 4);
  r32(magic);
}

static void do_new(rq* q, int is_init) {
  uint32_t id = q32(q);
  uint16_t pkg = is_init ? 0 : q16(q);
  initargs a;
  read_initargs(q, &a);
  rbegin();
  if (q->bad) return fail("short request");
  slot_t* s;
  if (is_init) {
    s = getslot(id, 1);
    if (!s) return fail("init: no such slot");
  } else {
    if (pkg >= WS_NPKG) return fail("new: bad package index");
    s = getslot(id, 0);
    if (!s) return fail("new: bad slot id");
    slot_free(s);
    s->used = 1;
    s->pkg = pkg;
    s->objlen = ws_table[pkg].size_of();
    s->obj = (uint8_t*)xmalloc(s->objlen);
    if (a.prefill > 0x100) a.prefill = 0;
  }
  const char* e = apply_prefill(s, &a);
  if (e) return fail(e);
  if (a.do_init) {
    run_init(s, &a);
  } else {
    r8(0);
    r16(0xFFFE);
    r32(0);
    uint32_t magic = 0;
    if (s->objlen >= 4) memcpy(&magic, s->obj, 4);
    r32(magic);
  }
  rend();
}

static void do_clone(rq* q) {
  uint32_t a = q32(q), b = q32(q);
  rbegin();
  slot_t* d = getslot(b, 0);  // may realloc the slot array: fetch src afterwards
  slot_t* s = getslot(a, 1);
  if (q->bad || !s || !d || s == d) return fail("clone: bad slots");
  slot_free(d);
  *d = *s;
  d->obj = (uint8_t*)dup_exact(s->obj, s->objlen);
  d->src = NULL;
  d->src_cap = 0;
  if (s->src_len) {
    grow(&d->src, &d->src_cap, s->src_len);
    memcpy(d->src, s->src, s->src_len);
  }
  d->dst = NULL;
  d->dst_cap = 0;
  if (s->dst_len) {
    grow(&d->dst, &d->dst_cap, s->dst_len);
    memcpy(d->dst, s->dst, s->dst_len);
  }
  d->work = s->have_work ? (uint8_t*)dup_exact(s->work, s->work_len) : NULL;
  d->pix = s->have_pix ? (uint8_t*)dup_exact(s->pix, s->pix_len) : NULL;
  d->tok = NULL;
  d->tok_cap = 0;
  if (s->tok_len) {
    d->tok = (uint64_t*)xmalloc(s->tok_len * 8);
    memcpy(d->tok, s->tok, s->tok_len * 8);
    d->tok_cap = s->tok_len;
  }
  r8(0);
  rend();
}

static void do_free(rq* q) {
  uint32_t id = q32(q);
  rbegin();
  if (id == 0xFFFFFFFFu) {
    for (size_t i = 0; i < ws_nslots; i++) slot_free(&ws_slots[i]);
  } else {
    slot_t* s = getslot(id, 1);
    if (s) slot_free(s);
  }
  r8(0);
  rend();
}

static uint64_t cfg_hash(slot_t* s) {
  uint64_t v[24];
  memset(v, 0, sizeof(v));
  int n = 0;
  v[n++] = s->ic.pixcfg.private_impl.pixfmt.repr;
  v[n++] = s->ic.pixcfg.private_impl.pixsub.repr;
  v[n++] = s->ic.pixcfg.private_impl.width;
  v[n++] = s->ic.pixcfg.private_impl.height;
  v[n++] = s->ic.private_impl.first_frame_io_position;
  v[n++] = s->ic.private_impl.first_frame_is_opaque;
  v[n++] = s->fc.private_impl.bounds.min_incl_x;
  v[n++] = s->fc.private_impl.bounds.min_incl_y;
  v[n++] = s->fc.private_impl.bounds.max_excl_x;
  v[n++] = s->fc.private_impl.bounds.max_excl_y;
  v[n++] = (uint64_t)s->fc.private_impl.duration;
  v[n++] = s->fc.private_impl.index;
  v[n++] = s->fc.private_impl.io_position;
  v[n++] = s->fc.private_impl.disposal;
  v[n++] = s->fc.private_impl.opaque_within_bounds;
  v[n++] = s->fc.private_impl.overwrite_instead_of_blend;
  v[n++] = s->fc.private_impl.background_color;
  v[n++] = s->pixcfg.private_impl.pixfmt.repr;
  v[n++] = s->pixcfg.private_impl.width;
  v[n++] = s->pixcfg.private_impl.height;
  v[n++] = s->have_pix;
  return ws_hash64(v, sizeof(v), 7);
}

static void slot_hashes(slot_t* s, uint64_t h[8]) {
  ws_hash128(s->obj, s->objlen, 1, h);
  uint64_t m[3] = {s->src_pos + s->src_ri, s->src_closed, (uint64_t)(s->src_len - s->src_ri)};
  h[2] = ws_hash64(s->src + s->src_ri, s->src_len - s->src_ri, 2) ^ ws_hash64(m, sizeof(m), 3);
  h[3] = ws_hash64(s->dst, s->dst_len, 4) ^ (s->dst_total * WS_K2);
  h[4] = s->have_work ? ws_hash64(s->work, s->work_len, 5) : 0;
  h[5] = s->have_pix ? ws_hash64(s->pix, s->pix_len, 6) : 0;
  h[6] = ws_hash64(s->tok, s->tok_len * 8, 8);
  h[7] = cfg_hash(s);
}

static void do_hash(rq* q) {
  uint32_t id = q32(q);
  rbegin();
  slot_t* s = getslot(id, 1);
  if (q->bad || !s) return fail("hash: no such slot");
  uint64_t h[8];
  slot_hashes(s, h);
  r8(0);
  for (int i = 0; i < 8; i++) r64(h[i]);
  rend();
}

// ---- CALL

typedef struct {
  uint32_t slot;
  uint8_t method;
  uint16_t flags;
  uint32_t dst_cap, dst_keep;
  uint8_t dst_fill, work_policy, work_fill, blend;
  uint64_t work_len, a0, a1;
  uint32_t nbytes;
  const uint8_t* bytes;
} callargs;

typedef struct {
  const char* status;
  int has_status;
  uint32_t cflags, allocs;
  uint32_t s_ri0, s_wi0, s_ri1, s_wi1;
  uint64_t s_pos0, s_pos1;
  uint8_t s_cl0, s_cl1;
  uint32_t d_ri0, d_wi0, d_ri1, d_wi1;
  uint32_t nwritten;
  uint64_t v[4];
  const uint8_t* data;
  size_t ndata;
  uint8_t* owned;  // freed after the response has been written
} callres;

// source preparation: compaction + append, then an exact-size copy for the call
typedef struct {
  wuffs_base__io_buffer buf;
  wuffs_base__io_buffer before;
  uint8_t* mem;
  int null;
} srcview;

static void src_prepare(slot_t* s, const callargs* a, srcview* v, callres* r) {
  if (!(a->flags & F_KEEP_CONSUMED) && s->src_ri) {
    memmove(s->src, s->src + s->src_ri, s->src_len - s->src_ri);
    s->src_len -= s->src_ri;
    s->src_pos += s->src_ri;
    s->src_ri = 0;
  }
  if (a->nbytes) {
    grow(&s->src, &s->src_cap, s->src_len + a->nbytes);
    memcpy(s->src + s->src_len, a->bytes, a->nbytes);
    s->src_len += a->nbytes;
  }
  s->src_closed = (a->flags & F_CLOSED) ? 1 : 0;
  v->null = (a->flags & F_NULL_SRC) ? 1 : 0;
  v->mem = (uint8_t*)dup_exact(s->src, s->src_len);
  v->buf.data.ptr = v->mem;
  v->buf.data.len = s->src_len;
  v->buf.meta.wi = s->src_len;
  v->buf.meta.ri = s->src_ri;
  v->buf.meta.pos = s->src_pos;
  v->buf.meta.closed = s->src_closed ? true : false;
  v->before = v->buf;
  r->s_ri0 = (uint32_t)s->src_ri;
  r->s_wi0 = (uint32_t)s->src_len;
  r->s_pos0 = s->src_pos;
  r->s_cl0 = s->src_closed;
}

static void src_finish(slot_t* s, srcview* v, callres* r) {
  wuffs_base__io_buffer* b = &v->buf;
  r->s_ri1 = (uint32_t)b->meta.ri;
  r->s_wi1 = (uint32_t)b->meta.wi;
  r->s_pos1 = b->meta.pos;
  r->s_cl1 = b->meta.closed ? 1 : 0;
  if (!(b->meta.ri <= b->meta.wi && b->meta.wi <= b->data.len)) r->cflags |= C_SRC_ORDER;
  if (b->meta.ri < v->before.meta.ri) r->cflags |= C_SRC_RI_DECREASED;
  if (b->meta.wi != v->before.meta.wi || b->meta.pos != v->before.meta.pos || b->meta.closed != v->before.meta.closed ||
      b->data.ptr != v->before.data.ptr || b->data.len != v->before.data.len)
    r->cflags |= C_SRC_META_CHANGED;
  if (s->src_len && memcmp(v->mem, s->src, s->src_len)) r->cflags |= C_SRC_BYTES_CHANGED;
  if (b->meta.ri <= s->src_len && b->meta.ri >= s->src_ri) s->src_ri = b->meta.ri;
  free(v->mem);
  v->mem = NULL;
}

static const char* work_prepare(slot_t* s, const callargs* a, wuffs_base__range_ii_u64 wl) {
  uint64_t want;
  switch (a->work_policy) {
    case 0:
      return NULL;  // keep whatever there is
    case 1:
      want = wl.min_incl;
      break;
    case 2:
      want = wl.max_incl;
      break;
    case 3:
      want = a->work_len;
      break;
    case 4:  // max, unless it exceeds work_len: then min
      want = wl.max_incl <= a->work_len ? wl.max_incl : wl.min_incl;
      break;
    default:
      return "bad work policy";
  }
  if (want > (1ull << 31)) return "work buffer too large";
  if (s->have_work && s->work_len == want) return NULL;
  uint8_t* nw = (uint8_t*)xmalloc((size_t)want);
  memset(nw, a->work_fill, (size_t)want);
  if (s->have_work) {
    size_t k = s->work_len < want ? s->work_len : (size_t)want;
    memcpy(nw, s->work, k);
    free(s->work);
  }
  s->work = nw;
  s->work_len = (size_t)want;
  s->have_work = 1;
  return NULL;
}

static wuffs_base__slice_u8 work_slice(slot_t* s, const callargs* a) {
  wuffs_base__slice_u8 w;
  if ((a->flags & F_NULL_WORK) || !s->have_work) {
    w.ptr = NULL;
    w.len = 0;
  } else {
    w.ptr = s->work;
    w.len = s->work_len;
  }
  return w;
}

#define BEGIN_CALL()              \
  uint64_t alloc0 = ws_alloc_calls; \
  ws_call_seq++;                  \
  ws_in_call = 1;
#define END_CALL()  \
  ws_in_call = 0; \
  r->allocs = (uint32_t)(ws_alloc_calls - alloc0); \
  if (r->allocs) r->cflags |= C_ALLOC;

static void set_status(callres* r, wuffs_base__status st) {
  r->status = st.repr;
  r->has_status = 1;
}

// Large destinations come from a small pool of exact-size allocations that are kept filled with the
// prefill byte and are ASan-poisoned while idle (so a stale pointer into a previous call's
// destination still traps): a malloc + 72 KiB memset per call would dominate 1-byte feeds.
typedef struct {
  uint8_t* mem;
  size_t len;
  uint8_t fill;
  uint8_t busy;
} ws_poolent;
#define WS_NPOOL 6
#define WS_POOL_MIN 2048
static ws_poolent ws_pool[WS_NPOOL];
static unsigned ws_pool_rr;

static ws_poolent* pool_get(size_t len, uint8_t fill) {
  for (int i = 0; i < WS_NPOOL; i++) {
    ws_poolent* p = &ws_pool[i];
    if (p->mem && !p->busy && p->len == len && p->fill == fill) {
      ASAN_UNPOISON_MEMORY_REGION(p->mem, p->len);
      p->busy = 1;
      return p;
    }
  }
  for (int k = 0; k < WS_NPOOL; k++) {
    ws_poolent* p = &ws_pool[(ws_pool_rr + (unsigned)k) % WS_NPOOL];
    if (p->busy) continue;
    ws_pool_rr = (ws_pool_rr + (unsigned)k + 1) % WS_NPOOL;
    if (p->mem) {
      ASAN_UNPOISON_MEMORY_REGION(p->mem, p->len);
      free(p->mem);
    }
    p->mem = (uint8_t*)xmalloc(len);
    memset(p->mem, fill, len);
    p->len = len;
    p->fill = fill;
    p->busy = 1;
    return p;
  }
  return NULL;
}

static void pool_put(ws_poolent* p) {
  p->busy = 0;
  ASAN_POISON_MEMORY_REGION(p->mem, p->len);
}

// destination io_buffer view over the tail of the accumulated bytes
typedef struct {
  wuffs_base__io_buffer buf, before;
  uint8_t* mem;
  size_t keep;
  ws_poolent* pooled;
} dstview;

static void dst_prepare(slot_t* s, const callargs* a, dstview* d, callres* r) {
  size_t keep = a->dst_keep < s->dst_len ? a->dst_keep : s->dst_len;
  d->keep = keep;
  size_t total = keep + (size_t)a->dst_cap;
  d->pooled = (total >= WS_POOL_MIN) ? pool_get(total, a->dst_fill) : NULL;
  if (d->pooled) {
    d->mem = d->pooled->mem;
  } else {
    d->mem = (uint8_t*)xmalloc(total);
    memset(d->mem + keep, a->dst_fill, a->dst_cap);
  }
  if (keep) memcpy(d->mem, s->dst + s->dst_len - keep, keep);
  d->buf.data.ptr = d->mem;
  d->buf.data.len = total;
  d->buf.meta.wi = keep;
  d->buf.meta.ri = (a->flags & F_DST_RI_AT_WI) ? keep : 0;
  d->buf.meta.pos = s->dst_total - (uint64_t)keep;
  d->buf.meta.closed = false;
  d->before = d->buf;
  r->d_ri0 = (uint32_t)d->buf.meta.ri;
  r->d_wi0 = (uint32_t)keep;
}

static void dst_finish(slot_t* s, const callargs* a, dstview* d, callres* r) {
  wuffs_base__io_buffer* b = &d->buf;
  r->d_ri1 = (uint32_t)b->meta.ri;
  r->d_wi1 = (uint32_t)b->meta.wi;
  if (!(b->meta.ri <= b->meta.wi && b->meta.wi <= b->data.len)) r->cflags |= C_DST_ORDER;
  if (b->meta.wi < d->before.meta.wi) r->cflags |= C_DST_WI_DECREASED;
  if (b->meta.ri != d->before.meta.ri || b->meta.pos != d->before.meta.pos || b->meta.closed != d->before.meta.closed ||
      b->data.ptr != d->before.data.ptr || b->data.len != d->before.data.len)
    r->cflags |= C_DST_META_CHANGED;
  if (d->keep && memcmp(d->mem, s->dst + s->dst_len - d->keep, d->keep)) r->cflags |= C_DST_OLD_BYTES_CHANGED;
  size_t len = d->keep + (size_t)a->dst_cap;
  size_t wi = b->meta.wi;
  if (wi > len) wi = len;
  if (wi < d->keep) wi = d->keep;
  int scribbled = 0;
  if (!d->pooled || (a->flags & F_CHECK_SCRIBBLE)) {
    for (size_t i = wi; i < len; i++) {
      if (d->mem[i] != a->dst_fill) {
        r->cflags |= I_DST_SCRIBBLED_BEYOND_WI;
        scribbled = 1;
        break;
      }
    }
  }
  size_t nw = wi - d->keep;
  r->nwritten = (uint32_t)nw;
  s->dst_total += (uint64_t)nw;
  if (nw && !(a->flags & F_NO_ACCUM)) {
    grow(&s->dst, &s->dst_cap, s->dst_len + nw);
    memcpy(s->dst + s->dst_len, d->mem + d->keep, nw);
    s->dst_len += nw;
  }
  if (a->flags & F_WANT_BYTES) {
    r->owned = (uint8_t*)dup_exact(d->mem + d->keep, nw);
    r->data = r->owned;
    r->ndata = nw;
  }
  if (d->pooled) {
    memset(d->mem, a->dst_fill, scribbled ? len : wi);  // restore the all-prefill invariant
    pool_put(d->pooled);
  } else {
    free(d->mem);
  }
  d->mem = NULL;
}

static const char* call_io_transformer(slot_t* s, const ws_pkg* p, const callargs* a, callres* r) {
  wuffs_base__io_transformer* up = (wuffs_base__io_transformer*)((a->flags & F_NULL_SELF) ? NULL : p->upcast(s->obj));
  const wuffs_base__io_transformer__func_ptrs* fp = (const wuffs_base__io_transformer__func_ptrs*)p->func_ptrs;
  void* self = (a->flags & F_NULL_SELF) ? NULL : (void*)s->obj;
  int direct = (a->flags & F_DIRECT) != 0;
  switch (a->method) {
    case M_WORKBUF_LEN: {
      BEGIN_CALL();
      wuffs_base__range_ii_u64 wl = direct ? fp->workbuf_len(self) : wuffs_base__io_transformer__workbuf_len(up);
      END_CALL();
      r->v[0] = wl.min_incl;
      r->v[1] = wl.max_incl;
      return NULL;
    }
    case M_DST_HISTORY_RETAIN_LENGTH: {
      BEGIN_CALL();
      wuffs_base__optional_u63 o =
          direct ? fp->dst_history_retain_length(self) : wuffs_base__io_transformer__dst_history_retain_length(up);
      END_CALL();
      r->v[0] = wuffs_base__optional_u63__has_value(&o) ? 1 : 0;
      r->v[1] = wuffs_base__optional_u63__value_or(&o, 0);
      return NULL;
    }
    case M_GET_QUIRK: {
      BEGIN_CALL();
      r->v[0] = direct ? fp->get_quirk(self, (uint32_t)a->a0) : wuffs_base__io_transformer__get_quirk(up, (uint32_t)a->a0);
      END_CALL();
      return NULL;
    }
    case M_SET_QUIRK: {
      BEGIN_CALL();
      wuffs_base__status st = direct ? fp->set_quirk(self, (uint32_t)a->a0, a->a1)
                                     : wuffs_base__io_transformer__set_quirk(up, (uint32_t)a->a0, a->a1);
      END_CALL();
      set_status(r, st);
      return NULL;
    }
    case M_TRANSFORM_IO: {
      if (a->work_policy == 1 || a->work_policy == 2 || a->work_policy == 4) {
        wuffs_base__range_ii_u64 wl = wuffs_base__io_transformer__workbuf_len((wuffs_base__io_transformer*)p->upcast(s->obj));
        const char* e = work_prepare(s, a, wl);
        if (e) return e;
        r->v[0] = wl.min_incl;
        r->v[1] = wl.max_incl;
      } else {
        wuffs_base__range_ii_u64 z = {0, 0};
        const char* e = work_prepare(s, a, z);
        if (e) return e;
      }
      srcview sv;
      dstview dv;
      src_prepare(s, a, &sv, r);
      dst_prepare(s, a, &dv, r);
      wuffs_base__slice_u8 w = work_slice(s, a);
      wuffs_base__io_buffer* pd = (a->flags & F_NULL_DST) ? NULL : &dv.buf;
      wuffs_base__io_buffer* ps = sv.null ? NULL : &sv.buf;
      BEGIN_CALL();
      wuffs_base__status st =
          direct ? fp->transform_io(self, pd, ps, w) : wuffs_base__io_transformer__transform_io(up, pd, ps, w);
      END_CALL();
      set_status(r, st);
      src_finish(s, &sv, r);
      dst_finish(s, a, &dv, r);
      return NULL;
    }
  }
  return "method not in io_transformer";
}

static const char* call_hasher(slot_t* s, const ws_pkg* p, const callargs* a, callres* r) {
  void* self = (a->flags & F_NULL_SELF) ? NULL : (void*)s->obj;
  void* upv = (a->flags & F_NULL_SELF) ? NULL : p->upcast(s->obj);
  int direct = (a->flags & F_DIRECT) != 0;
  int kind = p->kind;
  const wuffs_base__hasher_u32__func_ptrs* f32 = (const wuffs_base__hasher_u32__func_ptrs*)p->func_ptrs;
  const wuffs_base__hasher_u64__func_ptrs* f64 = (const wuffs_base__hasher_u64__func_ptrs*)p->func_ptrs;
  const wuffs_base__hasher_bitvec256__func_ptrs* f256 = (const wuffs_base__hasher_bitvec256__func_ptrs*)p->func_ptrs;
  wuffs_base__hasher_u32* u32 = (wuffs_base__hasher_u32*)upv;
  wuffs_base__hasher_u64* u64 = (wuffs_base__hasher_u64*)upv;
  wuffs_base__hasher_bitvec256* u256 = (wuffs_base__hasher_bitvec256*)upv;
  switch (a->method) {
    case M_GET_QUIRK: {
      BEGIN_CALL();
      if (kind == WS_KIND_HASHER_U32)
        r->v[0] = direct ? f32->get_quirk(self, (uint32_t)a->a0) : wuffs_base__hasher_u32__get_quirk(u32, (uint32_t)a->a0);
      else if (kind == WS_KIND_HASHER_U64)
        r->v[0] = direct ? f64->get_quirk(self, (uint32_t)a->a0) : wuffs_base__hasher_u64__get_quirk(u64, (uint32_t)a->a0);
      else
        r->v[0] = direct ? f256->get_quirk(self, (uint32_t)a->a0) : wuffs_base__hasher_bitvec256__get_quirk(u256, (uint32_t)a->a0);
      END_CALL();
      return NULL;
    }
    case M_SET_QUIRK: {
      wuffs_base__status st;
      BEGIN_CALL();
      if (kind == WS_KIND_HASHER_U32)
        st = direct ? f32->set_quirk(self, (uint32_t)a->a0, a->a1) : wuffs_base__hasher_u32__set_quirk(u32, (uint32_t)a->a0, a->a1);
      else if (kind == WS_KIND_HASHER_U64)
        st = direct ? f64->set_quirk(self, (uint32_t)a->a0, a->a1) : wuffs_base__hasher_u64__set_quirk(u64, (uint32_t)a->a0, a->a1);
      else
        st = direct ? f256->set_quirk(self, (uint32_t)a->a0, a->a1)
                    : wuffs_base__hasher_bitvec256__set_quirk(u256, (uint32_t)a->a0, a->a1);
      END_CALL();
      set_status(r, st);
      return NULL;
    }
    case M_CHECKSUM: {
      BEGIN_CALL();
      if (kind == WS_KIND_HASHER_U32)
        r->v[0] = direct ? f32->checksum_u32(self) : wuffs_base__hasher_u32__checksum_u32(u32);
      else if (kind == WS_KIND_HASHER_U64)
        r->v[0] = direct ? f64->checksum_u64(self) : wuffs_base__hasher_u64__checksum_u64(u64);
      else {
        wuffs_base__bitvec256 b = direct ? f256->checksum_bitvec256(self) : wuffs_base__hasher_bitvec256__checksum_bitvec256(u256);
        for (int i = 0; i < 4; i++) r->v[i] = b.elements_u64[i];
      }
      END_CALL();
      return NULL;
    }
    case M_UPDATE:
    case M_UPDATE_VAL: {
      // exact-size at the end: reads past the slice trap. a0 (0..63) = leading pad, to vary the alignment of the slice.
      size_t pad = (size_t)(a->a0 & 63);
      uint8_t* mem0 = (uint8_t*)xmalloc(pad + a->nbytes);
      memset(mem0, 0x5A, pad);
      uint8_t* mem = mem0 + pad;
      if (a->nbytes) memcpy(mem, a->bytes, a->nbytes);
      wuffs_base__slice_u8 x;
      x.ptr = (a->flags & F_NULL_SRC) ? NULL : mem;
      x.len = (a->flags & F_NULL_SRC) ? 0 : a->nbytes;
      int val = a->method == M_UPDATE_VAL;
      BEGIN_CALL();
      if (kind == WS_KIND_HASHER_U32) {
        if (val)
          r->v[0] = direct ? f32->update_u32(self, x) : wuffs_base__hasher_u32__update_u32(u32, x);
        else if (direct)
          f32->update(self, x);
        else
          wuffs_base__hasher_u32__update(u32, x);
      } else if (kind == WS_KIND_HASHER_U64) {
        if (val)
          r->v[0] = direct ? f64->update_u64(self, x) : wuffs_base__hasher_u64__update_u64(u64, x);
        else if (direct)
          f64->update(self, x);
        else
          wuffs_base__hasher_u64__update(u64, x);
      } else {
        if (val) {
          wuffs_base__bitvec256 b = direct ? f256->update_bitvec256(self, x) : wuffs_base__hasher_bitvec256__update_bitvec256(u256, x);
          for (int i = 0; i < 4; i++) r->v[i] = b.elements_u64[i];
        } else if (direct)
          f256->update(self, x);
        else
          wuffs_base__hasher_bitvec256__update(u256, x);
      }
      END_CALL();
      if (a->nbytes && memcmp(mem, a->bytes, a->nbytes)) r->cflags |= C_SRC_BYTES_CHANGED;
      free(mem0);
      return NULL;
    }
  }
  return "method not in hasher";
}

static const char* pix_prepare(slot_t* s, const callargs* a, wuffs_base__pixel_buffer* pb) {
  // a0 = pixel format override (0: BGRA_NONPREMUL, 0xFFFFFFFF: the image config's own), a1 = max pixel buffer bytes (0: 64 MiB)
  if (!s->have_pix) {
    uint32_t fmt = (uint32_t)a->a0;
    if (fmt == 0) fmt = WUFFS_BASE__PIXEL_FORMAT__BGRA_NONPREMUL;
    if (fmt == 0xFFFFFFFFu) fmt = s->ic.pixcfg.private_impl.pixfmt.repr;
    uint32_t w = wuffs_base__pixel_config__width(&s->ic.pixcfg);
    uint32_t h = wuffs_base__pixel_config__height(&s->ic.pixcfg);
    wuffs_base__pixel_config pc = wuffs_base__null_pixel_config();
    wuffs_base__pixel_config__set(&pc, fmt, WUFFS_BASE__PIXEL_SUBSAMPLING__NONE, w, h);
    uint64_t n = wuffs_base__pixel_config__pixbuf_len(&pc);
    uint64_t lim = a->a1 ? a->a1 : (64ull << 20);
    if (n > lim) return "pixel buffer too large";
    s->pixcfg = pc;
    s->pix = (uint8_t*)xmalloc((size_t)n);
    memset(s->pix, a->dst_fill, (size_t)n);
    s->pix_len = (size_t)n;
    s->have_pix = 1;
  }
  wuffs_base__slice_u8 mem;
  mem.ptr = s->pix;
  mem.len = s->pix_len;
  wuffs_base__status st = wuffs_base__pixel_buffer__set_from_slice(pb, &s->pixcfg, mem);
  if (st.repr) {
    // e.g. zero-sized or unsupported configuration: present an all-zero (invalid) pixel buffer
    memset(pb, 0, sizeof(*pb));
  }
  return NULL;
}

static const char* call_image_decoder(slot_t* s, const ws_pkg* p, const callargs* a, callres* r) {
  wuffs_base__image_decoder* up = (wuffs_base__image_decoder*)((a->flags & F_NULL_SELF) ? NULL : p->upcast(s->obj));
  const wuffs_base__image_decoder__func_ptrs* fp = (const wuffs_base__image_decoder__func_ptrs*)p->func_ptrs;
  void* self = (a->flags & F_NULL_SELF) ? NULL : (void*)s->obj;
  int direct = (a->flags & F_DIRECT) != 0;
  switch (a->method) {
    case M_WORKBUF_LEN: {
      BEGIN_CALL();
      wuffs_base__range_ii_u64 wl = direct ? fp->workbuf_len(self) : wuffs_base__image_decoder__workbuf_len(up);
      END_CALL();
      r->v[0] = wl.min_incl;
      r->v[1] = wl.max_incl;
      return NULL;
    }
    case M_GET_QUIRK: {
      BEGIN_CALL();
      r->v[0] = direct ? fp->get_quirk(self, (uint32_t)a->a0) : wuffs_base__image_decoder__get_quirk(up, (uint32_t)a->a0);
      END_CALL();
      return NULL;
    }
    case M_SET_QUIRK: {
      BEGIN_CALL();
      wuffs_base__status st = direct ? fp->set_quirk(self, (uint32_t)a->a0, a->a1)
                                     : wuffs_base__image_decoder__set_quirk(up, (uint32_t)a->a0, a->a1);
      END_CALL();
      set_status(r, st);
      return NULL;
    }
    case M_NUM_DECODED_FRAMES: {
      BEGIN_CALL();
      r->v[0] = direct ? fp->num_decoded_frames(self) : wuffs_base__image_decoder__num_decoded_frames(up);
      END_CALL();
      return NULL;
    }
    case M_NUM_DECODED_FRAME_CONFIGS: {
      BEGIN_CALL();
      r->v[0] = direct ? fp->num_decoded_frame_configs(self) : wuffs_base__image_decoder__num_decoded_frame_configs(up);
      END_CALL();
      return NULL;
    }
    case M_NUM_ANIMATION_LOOPS: {
      BEGIN_CALL();
      r->v[0] = direct ? fp->num_animation_loops(self) : wuffs_base__image_decoder__num_animation_loops(up);
      END_CALL();
      return NULL;
    }
    case M_FRAME_DIRTY_RECT: {
      BEGIN_CALL();
      wuffs_base__rect_ie_u32 q = direct ? fp->frame_dirty_rect(self) : wuffs_base__image_decoder__frame_dirty_rect(up);
      END_CALL();
      r->v[0] = q.min_incl_x;
      r->v[1] = q.min_incl_y;
      r->v[2] = q.max_excl_x;
      r->v[3] = q.max_excl_y;
      return NULL;
    }
    case M_SET_REPORT_METADATA: {
      BEGIN_CALL();
      if (direct)
        fp->set_report_metadata(self, (uint32_t)a->a0, a->a1 != 0);
      else
        wuffs_base__image_decoder__set_report_metadata(up, (uint32_t)a->a0, a->a1 != 0);
      END_CALL();
      return NULL;
    }
    case M_RESTART_FRAME: {
      BEGIN_CALL();
      wuffs_base__status st =
          direct ? fp->restart_frame(self, a->a0, a->a1) : wuffs_base__image_decoder__restart_frame(up, a->a0, a->a1);
      END_CALL();
      set_status(r, st);
      return NULL;
    }
    case M_DECODE_IMAGE_CONFIG:
    case M_DECODE_FRAME_CONFIG: {
      srcview sv;
      src_prepare(s, a, &sv, r);
      wuffs_base__io_buffer* ps = sv.null ? NULL : &sv.buf;
      wuffs_base__status st;
      BEGIN_CALL();
      if (a->method == M_DECODE_IMAGE_CONFIG) {
        wuffs_base__image_config* pd = (a->flags & F_NULL_DST) ? NULL : &s->ic;
        st = direct ? fp->decode_image_config(self, pd, ps) : wuffs_base__image_decoder__decode_image_config(up, pd, ps);
      } else {
        wuffs_base__frame_config* pd = (a->flags & F_NULL_DST) ? NULL : &s->fc;
        st = direct ? fp->decode_frame_config(self, pd, ps) : wuffs_base__image_decoder__decode_frame_config(up, pd, ps);
      }
      END_CALL();
      set_status(r, st);
      src_finish(s, &sv, r);
      return NULL;
    }
    case M_DECODE_FRAME: {
      wuffs_base__range_ii_u64 wl = {0, 0};
      if (a->work_policy == 1 || a->work_policy == 2 || a->work_policy == 4) {
        wl = wuffs_base__image_decoder__workbuf_len((wuffs_base__image_decoder*)p->upcast(s->obj));
        r->v[0] = wl.min_incl;
        r->v[1] = wl.max_incl;
      }
      const char* e = work_prepare(s, a, wl);
      if (e) return e;
      wuffs_base__pixel_buffer pb;
      memset(&pb, 0, sizeof(pb));
      if (!(a->flags & F_NULL_DST)) {
        e = pix_prepare(s, a, &pb);
        if (e) return e;
      }
      srcview sv;
      src_prepare(s, a, &sv, r);
      wuffs_base__io_buffer* ps = sv.null ? NULL : &sv.buf;
      wuffs_base__pixel_buffer* pd = (a->flags & F_NULL_DST) ? NULL : &pb;
      wuffs_base__slice_u8 w = work_slice(s, a);
      BEGIN_CALL();
      wuffs_base__status st = direct ? fp->decode_frame(self, pd, ps, (wuffs_base__pixel_blend)a->blend, w, NULL)
                                     : wuffs_base__image_decoder__decode_frame(up, pd, ps, (wuffs_base__pixel_blend)a->blend, w, NULL);
      END_CALL();
      set_status(r, st);
      src_finish(s, &sv, r);
      return NULL;
    }
    case M_TELL_ME_MORE: {
      srcview sv;
      dstview dv;
      src_prepare(s, a, &sv, r);
      dst_prepare(s, a, &dv, r);
      wuffs_base__more_information mi;
      memset(&mi, 0, sizeof(mi));
      wuffs_base__io_buffer* pd = (a->flags & F_NULL_DST) ? NULL : &dv.buf;
      wuffs_base__io_buffer* ps = sv.null ? NULL : &sv.buf;
      BEGIN_CALL();
      wuffs_base__status st =
          direct ? fp->tell_me_more(self, pd, &mi, ps) : wuffs_base__image_decoder__tell_me_more(up, pd, &mi, ps);
      END_CALL();
      set_status(r, st);
      src_finish(s, &sv, r);
      dst_finish(s, a, &dv, r);
      r->v[0] = ((uint64_t)mi.flavor) | (((uint64_t)mi.w) << 32);
      r->v[1] = mi.x;
      r->v[2] = mi.y;
      r->v[3] = mi.z;
      return NULL;
    }
  }
  return "method not in image_decoder";
}

static const char* call_token_decoder(slot_t* s, const ws_pkg* p, const callargs* a, callres* r) {
  wuffs_base__token_decoder* up = (wuffs_base__token_decoder*)((a->flags & F_NULL_SELF) ? NULL : p->upcast(s->obj));
  const wuffs_base__token_decoder__func_ptrs* fp = (const wuffs_base__token_decoder__func_ptrs*)p->func_ptrs;
  void* self = (a->flags & F_NULL_SELF) ? NULL : (void*)s->obj;
  int direct = (a->flags & F_DIRECT) != 0;
  switch (a->method) {
    case M_WORKBUF_LEN: {
      BEGIN_CALL();
      wuffs_base__range_ii_u64 wl = direct ? fp->workbuf_len(self) : wuffs_base__token_decoder__workbuf_len(up);
      END_CALL();
      r->v[0] = wl.min_incl;
      r->v[1] = wl.max_incl;
      return NULL;
    }
    case M_GET_QUIRK: {
      BEGIN_CALL();
      r->v[0] = direct ? fp->get_quirk(self, (uint32_t)a->a0) : wuffs_base__token_decoder__get_quirk(up, (uint32_t)a->a0);
      END_CALL();
      return NULL;
    }
    case M_SET_QUIRK: {
      BEGIN_CALL();
      wuffs_base__status st = direct ? fp->set_quirk(self, (uint32_t)a->a0, a->a1)
                                     : wuffs_base__token_decoder__set_quirk(up, (uint32_t)a->a0, a->a1);
      END_CALL();
      set_status(r, st);
      return NULL;
    }
    case M_DECODE_TOKENS: {
      wuffs_base__range_ii_u64 wl = {0, 0};
      if (a->work_policy == 1 || a->work_policy == 2 || a->work_policy == 4) {
        wl = wuffs_base__token_decoder__workbuf_len((wuffs_base__token_decoder*)p->upcast(s->obj));
        r->v[0] = wl.min_incl;
        r->v[1] = wl.max_incl;
      }
      const char* e = work_prepare(s, a, wl);
      if (e) return e;
      srcview sv;
      src_prepare(s, a, &sv, r);
      size_t cap = a->dst_cap;
      wuffs_base__token* tmem = (wuffs_base__token*)xmalloc(cap * sizeof(wuffs_base__token));
      memset(tmem, a->dst_fill, cap * sizeof(wuffs_base__token));
      wuffs_base__token_buffer tb;
      memset(&tb, 0, sizeof(tb));
      tb.data.ptr = tmem;
      tb.data.len = cap;
      wuffs_base__token_buffer tb0 = tb;
      wuffs_base__token_buffer* pd = (a->flags & F_NULL_DST) ? NULL : &tb;
      wuffs_base__io_buffer* ps = sv.null ? NULL : &sv.buf;
      wuffs_base__slice_u8 w = work_slice(s, a);
      BEGIN_CALL();
      wuffs_base__status st = direct ? fp->decode_tokens(self, pd, ps, w) : wuffs_base__token_decoder__decode_tokens(up, pd, ps, w);
      END_CALL();
      set_status(r, st);
      src_finish(s, &sv, r);
      r->d_ri1 = (uint32_t)tb.meta.ri;
      r->d_wi1 = (uint32_t)tb.meta.wi;
      if (!(tb.meta.ri <= tb.meta.wi && tb.meta.wi <= tb.data.len)) r->cflags |= C_TOK_ORDER;
      if (tb.meta.ri != tb0.meta.ri || tb.meta.pos != tb0.meta.pos || tb.meta.closed != tb0.meta.closed ||
          tb.data.ptr != tb0.data.ptr || tb.data.len != tb0.data.len)
        r->cflags |= C_DST_META_CHANGED;
      size_t wi = tb.meta.wi <= cap ? tb.meta.wi : cap;
      r->nwritten = (uint32_t)wi;
      if (wi && !(a->flags & F_NO_ACCUM)) {
        if (s->tok_len + wi > s->tok_cap) {
          size_t nc = (s->tok_len + wi) * 2;
          s->tok = (uint64_t*)realloc(s->tok, nc * 8);
          if (!s->tok) _exit(4);
          s->tok_cap = nc;
        }
        memcpy(s->tok + s->tok_len, tmem, wi * 8);
        s->tok_len += wi;
      }
      if (a->flags & F_WANT_BYTES) {
        r->owned = (uint8_t*)tmem;
        r->data = (const uint8_t*)tmem;
        r->ndata = wi * 8;
      } else {
        free(tmem);
      }
      return NULL;
    }
  }
  return "method not in token_decoder";
}

static void do_call(rq* q) {
  callargs a;
  memset(&a, 0, sizeof(a));
  a.slot = q32(q);
  a.method = q8(q);
  (void)q8(q);
  a.flags = q16(q);
  a.dst_cap = q32(q);
  a.dst_keep = q32(q);
  a.dst_fill = q8(q);
  a.work_policy = q8(q);
  a.work_fill = q8(q);
  a.blend = q8(q);
  a.work_len = q64(q);
  a.a0 = q64(q);
  a.a1 = q64(q);
  a.nbytes = q32(q);
  a.bytes = qbytes(q, a.nbytes);
  rbegin();
  if (q->bad) return fail("short call request");
  slot_t* s = getslot(a.slot, 1);
  if (!s) return fail("call: no such slot");
  if (a.dst_cap > (1u << 30)) return fail("call: destination capacity too large");
  const ws_pkg* p = &ws_table[s->pkg];
  callres r;
  memset(&r, 0, sizeof(r));
  const char* e;
  switch (p->kind) {
    case WS_KIND_IO_TRANSFORMER:
      e = call_io_transformer(s, p, &a, &r);
      break;
    case WS_KIND_HASHER_U32:
    case WS_KIND_HASHER_U64:
    case WS_KIND_HASHER_BITVEC256:
      e = call_hasher(s, p, &a, &r);
      break;
    case WS_KIND_IMAGE_DECODER:
      e = call_image_decoder(s, p, &a, &r);
      break;
    case WS_KIND_TOKEN_DECODER:
      e = call_token_decoder(s, p, &a, &r);
      break;
    default:
      e = "bad kind";
  }
  if (e) return fail(e);
  r8(0);
  if (r.has_status)
    rstr(r.status);
  else
    r16(0xFFFE);
  r32(r.cflags);
  r32(r.allocs);
  uint32_t magic = 0;
  if (s->objlen >= 4) memcpy(&magic, s->obj, 4);
  r32(magic);
  r32(r.s_ri0);
  r32(r.s_wi0);
  r64(r.s_pos0);
  r8(r.s_cl0);
  r32(r.s_ri1);
  r32(r.s_wi1);
  r64(r.s_pos1);
  r8(r.s_cl1);
  r32(r.d_ri0);
  r32(r.d_wi0);
  r32(r.d_ri1);
  r32(r.d_wi1);
  r32(r.nwritten);
  for (int i = 0; i < 4; i++) r64(r.v[i]);
  r32((uint32_t)r.ndata);
  rbytes(r.data, r.ndata);
  rend();
  free(r.owned);
}

// ---- GET

enum {
  G_DST = 1,
  G_PIXELS = 2,
  G_TOKENS = 3,
  G_IMAGE_CONFIG = 4,
  G_FRAME_CONFIG = 5,
  G_OBJECT = 6,
  G_WORK = 7,
  G_SRC = 8,
  G_INFO = 9,
};

static void do_get(rq* q) {
  uint32_t id = q32(q);
  uint8_t what = q8(q);
  uint64_t off = q64(q), len = q64(q);
  rbegin();
  slot_t* s = getslot(id, 1);
  if (q->bad || !s) return fail("get: no such slot");
  const uint8_t* p = NULL;
  size_t n = 0;
  uint64_t v[16];
  switch (what) {
    case G_DST:
      p = s->dst;
      n = s->dst_len;
      break;
    case G_PIXELS:
      p = s->pix;
      n = s->have_pix ? s->pix_len : 0;
      break;
    case G_TOKENS:
      p = (const uint8_t*)s->tok;
      n = s->tok_len * 8;
      break;
    case G_OBJECT:
      p = s->obj;
      n = s->objlen;
      break;
    case G_WORK:
      p = s->work;
      n = s->have_work ? s->work_len : 0;
      break;
    case G_SRC:
      p = s->src + s->src_ri;
      n = s->src_len - s->src_ri;
      break;
    case G_IMAGE_CONFIG:
      v[0] = wuffs_base__image_config__is_valid(&s->ic) ? 1 : 0;
      v[1] = s->ic.pixcfg.private_impl.pixfmt.repr;
      v[2] = s->ic.pixcfg.private_impl.pixsub.repr;
      v[3] = s->ic.pixcfg.private_impl.width;
      v[4] = s->ic.pixcfg.private_impl.height;
      v[5] = s->ic.private_impl.first_frame_io_position;
      v[6] = s->ic.private_impl.first_frame_is_opaque ? 1 : 0;
      v[7] = wuffs_base__pixel_config__pixbuf_len(&s->ic.pixcfg);
      p = (const uint8_t*)v;
      n = 8 * 8;
      break;
    case G_FRAME_CONFIG:
      v[0] = s->fc.private_impl.bounds.min_incl_x;
      v[1] = s->fc.private_impl.bounds.min_incl_y;
      v[2] = s->fc.private_impl.bounds.max_excl_x;
      v[3] = s->fc.private_impl.bounds.max_excl_y;
      v[4] = (uint64_t)s->fc.private_impl.duration;
      v[5] = s->fc.private_impl.index;
      v[6] = s->fc.private_impl.io_position;
      v[7] = s->fc.private_impl.disposal;
      v[8] = s->fc.private_impl.opaque_within_bounds ? 1 : 0;
      v[9] = s->fc.private_impl.overwrite_instead_of_blend ? 1 : 0;
      v[10] = s->fc.private_impl.background_color;
      p = (const uint8_t*)v;
      n = 11 * 8;
      break;
    case G_INFO:
      v[0] = (uint64_t)s->pkg;
      v[1] = s->objlen;
      v[2] = s->src_pos + s->src_ri;
      v[3] = s->src_len - s->src_ri;
      v[4] = s->src_closed;
      v[5] = s->dst_len;
      v[6] = s->have_work ? s->work_len : 0;
      v[7] = s->have_pix ? s->pix_len : 0;
      v[8] = s->tok_len;
      v[9] = s->have_pix ? s->pixcfg.private_impl.pixfmt.repr : 0;
      v[10] = s->have_work;
      v[11] = s->have_pix;
      v[12] = s->dst_total;
      p = (const uint8_t*)v;
      n = 13 * 8;
      break;
    default:
      return fail("get: bad selector");
  }
  if (off > n) off = n;
  if (len > n - off) len = n - off;
  r8(0);
  r64((uint64_t)n);
  r32((uint32_t)len);
  rbytes(p ? p + off : NULL, (size_t)len);
  rend();
}

// ---- PURECHECK: call every pure (const self) method of the interface; report which of them changed the object.

static void do_purecheck(rq* q) {
  uint32_t id = q32(q);
  uint32_t key = q32(q);
  rbegin();
  slot_t* s = getslot(id, 1);
  if (q->bad || !s) return fail("purecheck: no such slot");
  const ws_pkg* p = &ws_table[s->pkg];
  uint8_t* snap = (uint8_t*)dup_exact(s->obj, s->objlen);
  uint64_t h0[8], h1[8];
  slot_hashes(s, h0);
  uint32_t changed = 0;  // bit i: i-th pure method changed the object bytes
  uint64_t vals[16];
  int nv = 0, m = 0;
  memset(vals, 0, sizeof(vals));
  void* up = p->upcast(s->obj);
  uint64_t alloc0 = ws_alloc_calls;
#define PURE(stmt)                                               \
  do {                                                           \
    ws_call_seq++;                                               \
    ws_in_call = 1;                                              \
    stmt;                                                        \
    ws_in_call = 0;                                              \
    if (memcmp(snap, s->obj, s->objlen)) {                       \
      changed |= 1u << m;                                        \
      memcpy(snap, s->obj, s->objlen);                           \
    }                                                            \
    m++;                                                         \
  } while (0)
  switch (p->kind) {
    case WS_KIND_IO_TRANSFORMER: {
      wuffs_base__io_transformer* u = (wuffs_base__io_transformer*)up;
      wuffs_base__optional_u63 o;
      wuffs_base__range_ii_u64 wl;
      PURE(o = wuffs_base__io_transformer__dst_history_retain_length(u));
      vals[nv++] = o.repr;
      PURE(vals[nv] = wuffs_base__io_transformer__get_quirk(u, key));
      nv++;
      PURE(wl = wuffs_base__io_transformer__workbuf_len(u));
      vals[nv++] = wl.min_incl;
      vals[nv++] = wl.max_incl;
      break;
    }
    case WS_KIND_HASHER_U32: {
      wuffs_base__hasher_u32* u = (wuffs_base__hasher_u32*)up;
      PURE(vals[nv] = wuffs_base__hasher_u32__checksum_u32(u));
      nv++;
      PURE(vals[nv] = wuffs_base__hasher_u32__get_quirk(u, key));
      nv++;
      break;
    }
    case WS_KIND_HASHER_U64: {
      wuffs_base__hasher_u64* u = (wuffs_base__hasher_u64*)up;
      PURE(vals[nv] = wuffs_base__hasher_u64__checksum_u64(u));
      nv++;
      PURE(vals[nv] = wuffs_base__hasher_u64__get_quirk(u, key));
      nv++;
      break;
    }
    case WS_KIND_HASHER_BITVEC256: {
      wuffs_base__hasher_bitvec256* u = (wuffs_base__hasher_bitvec256*)up;
      wuffs_base__bitvec256 b;
      PURE(b = wuffs_base__hasher_bitvec256__checksum_bitvec256(u));
      for (int i = 0; i < 4; i++) vals[nv++] = b.elements_u64[i];
      PURE(vals[nv] = wuffs_base__hasher_bitvec256__get_quirk(u, key));
      nv++;
      break;
    }
    case WS_KIND_IMAGE_DECODER: {
      wuffs_base__image_decoder* u = (wuffs_base__image_decoder*)up;
      wuffs_base__rect_ie_u32 rc;
      wuffs_base__range_ii_u64 wl;
      PURE(rc = wuffs_base__image_decoder__frame_dirty_rect(u));
      vals[nv++] = ((uint64_t)rc.min_incl_x) | ((uint64_t)rc.min_incl_y << 32);
      vals[nv++] = ((uint64_t)rc.max_excl_x) | ((uint64_t)rc.max_excl_y << 32);
      PURE(vals[nv] = wuffs_base__image_decoder__get_quirk(u, key));
      nv++;
      PURE(vals[nv] = wuffs_base__image_decoder__num_animation_loops(u));
      nv++;
      PURE(vals[nv] = wuffs_base__image_decoder__num_decoded_frame_configs(u));
      nv++;
      PURE(vals[nv] = wuffs_base__image_decoder__num_decoded_frames(u));
      nv++;
      PURE(wl = wuffs_base__image_decoder__workbuf_len(u));
      vals[nv++] = wl.min_incl;
      vals[nv++] = wl.max_incl;
      break;
    }
    case WS_KIND_TOKEN_DECODER: {
      wuffs_base__token_decoder* u = (wuffs_base__token_decoder*)up;
      wuffs_base__range_ii_u64 wl;
      PURE(vals[nv] = wuffs_base__token_decoder__get_quirk(u, key));
      nv++;
      PURE(wl = wuffs_base__token_decoder__workbuf_len(u));
      vals[nv++] = wl.min_incl;
      vals[nv++] = wl.max_incl;
      break;
    }
  }
#undef PURE
  free(snap);
  slot_hashes(s, h1);
  uint32_t cflags = 0;
  if (changed) cflags |= C_PURE_WROTE_OBJECT;
  for (int i = 2; i < 8; i++)
    if (h0[i] != h1[i]) cflags |= C_PURE_WROTE_BUFFERS;
  if (ws_alloc_calls != alloc0) cflags |= C_ALLOC;
  r8(0);
  r32(cflags);
  r32(changed);
  r32((uint32_t)m);
  r32((uint32_t)nv);
  for (int i = 0; i < nv; i++) r64(vals[i]);
  rend();
}

static void do_setsrc(rq* q) {
  uint32_t id = q32(q);
  uint64_t pos = q64(q);
  uint8_t closed = q8(q);
  uint32_t n = q32(q);
  const uint8_t* b = qbytes(q, n);
  rbegin();
  slot_t* s = getslot(id, 1);
  if (q->bad || !s) return fail("setsrc: no such slot");
  s->src_len = 0;
  s->src_ri = 0;
  s->src_pos = pos;
  s->src_closed = closed;
  if (n) {
    grow(&s->src, &s->src_cap, n);
    memcpy(s->src, b, n);
    s->src_len = n;
  }
  r8(0);
  rend();
}

// RESET bits: 1 = drop accumulated dst, 2 = drop tokens, 4 = drop pixel buffer, 8 = drop work buffer, 16 = drop source
static void do_reset(rq* q) {
  uint32_t id = q32(q);
  uint32_t bits = q32(q);
  rbegin();
  slot_t* s = getslot(id, 1);
  if (q->bad || !s) return fail("reset: no such slot");
  if (bits & 1) s->dst_len = 0;
  if (bits & 2) s->tok_len = 0;
  if (bits & 4) {
    free(s->pix);
    s->pix = NULL;
    s->pix_len = 0;
    s->have_pix = 0;
  }
  if (bits & 8) {
    free(s->work);
    s->work = NULL;
    s->work_len = 0;
    s->have_work = 0;
  }
  if (bits & 16) {
    s->src_pos += s->src_len;
    s->src_len = 0;
    s->src_ri = 0;
  }
  r8(0);
  rend();
}

// SELFTEST: deliberately misbehave so that the client's crash/hang plumbing can be tested.
// kind 1: heap overflow read (ASan), 2: signed overflow (UBSan), 3: spin forever inside a "call", 4: abort(), 5: malloc inside a "call"
static volatile int ws_sink;
static void do_selftest(rq* q) {
  uint32_t kind = q32(q);
  rbegin();
  uint64_t alloc0 = ws_alloc_calls;
  ws_call_seq++;
  ws_in_call = 1;
  if (kind == 1) {
    volatile uint8_t* p = (volatile uint8_t*)xmalloc(8);
    ws_sink = p[8 + (ws_sink & 1)];
    free((void*)p);
  } else if (kind == 2) {
    volatile int x = 0x7fffffff;
    ws_sink = x + 1;
  } else if (kind == 3) {
    for (;;) ws_sink++;
  } else if (kind == 4) {
    abort();
  } else if (kind == 5) {
    void* volatile p = malloc(24);
    free(p);
  }
  ws_in_call = 0;
  r8(0);
  r32((uint32_t)(ws_alloc_calls - alloc0));
  rend();
}

int main(int argc, char** argv) {
  (void)argc;
  (void)argv;
  const char* hs = getenv("WSERVER_HANG_S");
  if (hs && atoi(hs) > 0) ws_hang_s = atoi(hs);
  struct sigaction sa;
  memset(&sa, 0, sizeof(sa));
  sa.sa_handler = ws_on_alarm;
  sa.sa_flags = SA_RESTART;
  sigaction(SIGALRM, &sa, NULL);
  struct itimerval it;
  it.it_interval.tv_sec = 1;
  it.it_interval.tv_usec = 0;
  it.it_value = it.it_interval;
  setitimer(ITIMER_REAL, &it, NULL);
#if defined(WS_ASAN)
  __sanitizer_set_death_callback(ws_on_death);
#else
  signal(SIGSEGV, ws_on_fatal);
  signal(SIGBUS, ws_on_fatal);
  signal(SIGFPE, ws_on_fatal);
  signal(SIGILL, ws_on_fatal);
  signal(SIGABRT, ws_on_fatal);
#endif
  signal(SIGPIPE, SIG_DFL);
#if !defined(WS_ASAN)
  // per-call exact-size buffers of ~100 KiB: keep glibc from trimming/growing the heap on every call
  mallopt(M_TRIM_THRESHOLD, 1 << 30);
  mallopt(M_MMAP_THRESHOLD, 32 << 20);
  mallopt(M_TOP_PAD, 64 << 20);
#endif
  ws_in_cap = 1 << 20;
  ws_in = (uint8_t*)malloc(ws_in_cap);
  ws_out_cap = 1 << 20;
  ws_out = (uint8_t*)malloc(ws_out_cap);
  if (!ws_in || !ws_out) return 4;

  for (;;) {
    if (!ws_need(4)) break;
    uint32_t n;
    memcpy(&n, ws_in + ws_in_r, 4);
    if (n < 1 || n > (1u << 30)) {
      ws_note("WSERVER-PROTOCOL bad length ", n);
      return 7;
    }
    if (!ws_need(4 + (size_t)n)) {
      ws_note("WSERVER-PROTOCOL truncated request ", n);
      return 7;
    }
    rq q;
    q.p = ws_in + ws_in_r + 4;
    q.n = n;
    q.o = 0;
    q.bad = 0;
    ws_cmd_seq++;
    uint8_t op = q8(&q);
    switch (op) {
      case OP_HELLO:
        do_hello();
        break;
      case OP_NEW:
        do_new(&q, 0);
        break;
      case OP_INIT:
        do_new(&q, 1);
        break;
      case OP_CLONE:
        do_clone(&q);
        break;
      case OP_FREE:
        do_free(&q);
        break;
      case OP_HASH:
        do_hash(&q);
        break;
      case OP_CALL:
        do_call(&q);
        break;
      case OP_GET:
        do_get(&q);
        break;
      case OP_PURECHECK:
        do_purecheck(&q);
        break;
      case OP_SETSRC:
        do_setsrc(&q);
        break;
      case OP_RESET:
        do_reset(&q);
        break;
      case OP_PING:
        rbegin();
        r8(0);
        r64(ws_cmd_seq);
        rend();
        break;
      case OP_SELFTEST:
        do_selftest(&q);
        break;
      default:
        rbegin();
        fail("unknown op");
    }
    ws_in_r += 4 + (size_t)n;
    if (ws_want_flush) {
      ws_want_flush = 0;
      ws_flush();
    }
  }
  ws_flush();
  return 0;
}
