#!/bin/bash
# ./regen_snapshot.sh [repo]  -- regenerates release/c/wuffs-unsupported-snapshot.c of the given wuffs tree (default /repo)
# with that tree's own compiler, in a scratch wuffs root under /dev/shm (the tree's gen/ is never written), and copies
# the result back. Used after a std/ or cgen "fix:" so that generated == committed keeps holding (C20).
set -e
repo="${1:-/repo}"
export GOPROXY=off GOSUMDB=off GOTOOLCHAIN=local
s=$(mktemp -d /dev/shm/regen.XXXXXX); trap 'rm -rf "$s"' EXIT
mkdir -p "$s/bin" "$s/root"
(cd "$repo" && GOFLAGS=-mod=readonly go build -o "$s/bin/wuffs" ./cmd/wuffs && GOFLAGS=-mod=readonly go build -o "$s/bin/wuffs-c" ./cmd/wuffs-c)
cp "$repo/wuffs-root-directory.txt" "$s/root/"; cp -r "$repo/std" "$s/root/std"
(cd "$s/root" && PATH="$s/bin:$PATH" "$s/bin/wuffs" gen >/dev/null)
if cmp -s "$s/root/release/c/wuffs-unsupported-snapshot.c" "$repo/release/c/wuffs-unsupported-snapshot.c"; then echo "snapshot unchanged"; else cp "$s/root/release/c/wuffs-unsupported-snapshot.c" "$repo/release/c/wuffs-unsupported-snapshot.c"; echo "snapshot updated"; fi
